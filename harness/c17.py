"""C17 — a failing track cannot take the rest of the performance down.
Theorems: coq/Props/C17.v (tolerant containment for every fault site, removal of the failing track on the tick of the fault,
one tick of time per tick; non-interference = the merge theorem of C07 with the faulty track as a neighbour; intolerant
propagation; action-callback exceptions are swallowed in both modes, StopIteration ends the track).  Lemmas: Sched/FaultProofs.v,
Sched/RenameProofs.v (track ids are names: every operation commutes with an order-preserving renaming of them).
Correspondence: C07-style joint runs with one or two injected faults (stream item that raises on evaluation, a value that makes
Event(...) raise, the j-th note_on/control/program_change of the device raising, action callbacks raising Exception or
StopIteration), every failing track / event index of the base scenario, both tolerance modes, through tick() and (finite
scenarios) through Timeline.run() with a DummyClock — on isobar and on the model.
Oracle (plain Python): tolerant: no exception escapes, the failing track leaves on the tick of the fault and keeps exactly
what it had sounded (released on time), every healthy track's projected trace is identical to the run without the failing
track, Timeline.current_time advances one tick per tick; intolerant: the exception escapes tick()/run() on the tick of the
fault; a callback exception changes nothing; a callback StopIteration (nothing pending) ends exactly that track."""
from common import *
import sched_common as S
import sched_gen as G
import c07 as M
from fractions import Fraction as F
import copy

PROP = "C17"
META = {
 "engine": "S-scheduler",
 "text": "Coq theorems (Props/C17.v) about the executable model of Timeline.tick/Track.tick (Sched/Model.v), for ALL states, numbers and orders of tracks and every fault site (stream item raising = pattern evaluation or Event construction, a device call raising, an action callback raising): with ignore_exceptions the tick never returns an exception (case analysis over every branch of every track's turn, induction over the track list), the failing track is no longer scheduled after the tick of the fault and its pending releases have become timeline actions, every completed tick advances the clock by exactly one tick (n ticks = n*tau); non-interference: for stream faults the calls of every other track in every tick equal those of its solo run and hence those of the run without the failing track, whether the failing track was scheduled before or after it (instance of the C07 merge theorem with the faulty track as neighbour, plus the invariance of every operation of the model under an order-preserving renaming of track ids, Sched/RenameProofs.v: leaving a track out shifts the ids of the later ones); for device faults (the call counter couples tracks) the turn of a healthy track is proved independent of everything but its own record, the clock and the counter; without ignore_exceptions the same fault makes the tick return the exception, the later tracks of the tick do not run and the clock does not advance; an exception raised by an action callback is swallowed in both modes and the track continues with its next event, StopIteration from the callback finishes the track on that tick if it has nothing pending (and removes it if remove_when_done). Tied to /repo on every run: C07-style joint runs with one or two injected faults at every (failing track, event index) of the base scenario, both modes, through tick() and Timeline.run(), compared with the model in Coq call by call, with an independent containment/non-interference/clock oracle.",
 "note": "Trusted: Coq kernel+VM; the Python harness. Modelled, not verified: float arithmetic; Timeline.run()'s try/except (modelled by the tick results; exercised through run() on the implementation only). A callback StopIteration while the track still has a note sounding does not end the track (Track.tick only finishes a track with no pending note-off): modelled as the code behaves, judged by the model comparison only.",
}

MARK_CTL, MARK_VAL = 119, 127

# ---- the class of the exception at the fault site (catalogue of impl/c17_impl.py; what each entry raises is MEASURED on the
# implementation at the start of every run and reported in the evidence) ---------------------------------------------------
FAULT_EXPRS = ["padd-str", "add-none", "pdiv-zero", "pmod-zero", "int-str", "dict-key", "pdictkey", "list-index", "parrayindex",
               "attr-none", "pabs-str", "pow-overflow", "pdegree-str", "name-error", "decode", "assert", "not-implemented", "oserror",
               "runtime", "user-class", "user-typeerror", "user-keyerror"]
CTOR_VARIANTS = ["note+degree", "bad-key", "degree-str", "octave-none", "key-int", "transpose-list"]
EXC_NAMES = ["RuntimeError", "TypeError", "ValueError", "ZeroDivisionError", "KeyError", "IndexError", "AttributeError", "AssertionError",
             "OverflowError", "NotImplementedError", "UnicodeDecodeError", "OSError", "UserFault", "UserTypeError", "UserLookup"]


def fault_item(rng, kind):
    """a stream item that raises: a real failing pattern expression / an event dict Event() rejects; one in six keeps the
    plain scripted raiser (RuntimeError) of the scenario format"""
    if kind == "raise_eval":
        return {"k": kind} if rng.random() < 0.15 else {"k": kind, "expr": rng.choice(FAULT_EXPRS)}
    return {"k": kind} if rng.random() < 0.15 else {"k": kind, "variant": rng.choice(CTOR_VARIANTS)}


def site_class(item, catalogue):
    """the class name the fault site raises, as measured on the implementation (None: not known)"""
    if item.get("expr"):
        c = catalogue.get("expr:" + item["expr"])
    elif item.get("variant"):
        c = catalogue.get("ctor:" + item["variant"])
    else:
        return "RuntimeError" if item["k"] == "raise_eval" else "InvalidEventException"
    return c[0] if c else None


# ---- re-configuration of the tolerance switch on the existing Timeline --------------------------------------------------
def insert_flips(ops, flips, raw=False):
    """flips: [(tick number, flag)] - `timeline.ignore_exceptions = flag` after that many ticks have run (behind the operations
    already made at that instant, before the next tick); the tick operations are split where needed"""
    out, t = [], 0
    pending = sorted(flips, key=lambda p: p[0])
    for o in ops:
        if o[0] != "tick":
            out.append(o)
            continue
        n = o[1]
        while n > 0:
            for p in [p for p in pending if p[0] <= t]:
                out.append(list(p[1]) if raw else ["set_ignore", bool(p[1])]); pending.remove(p)
            upcoming = [p[0] for p in pending if p[0] < t + n]
            k = (min(upcoming) - t) if upcoming else n
            out.append(["tick", k]); t += k; n -= k
    for p in pending:
        out.append(list(p[1]) if raw else ["set_ignore", bool(p[1])])
    return out


def flag_at(ctor, flips, tick):
    """the value of the switch when tick number [tick] runs"""
    f = ctor
    for pos, b in sorted(flips, key=lambda p: p[0]):
        if pos <= tick:
            f = bool(b)
    return f


def gen_flips(rng, ctor, horizon, style):
    if style == "early":          # the shorthand's way: construct, then assign - before the clock starts or shortly after
        return [(rng.choice([0, 0, 0, 1, 2]), not ctor)]
    n = rng.choice([1, 2, 2, 3, 4])
    pos = sorted(rng.randint(0, max(1, min(horizon, 14))) for _ in range(n))
    out, f = [], ctor
    for p in pos:
        f = (not f) if rng.random() < 0.85 else f
        out.append((p, f))
    return out


# ---- scenario -> Coq over the widened alphabet of Sched/Reconf.v ---------------------------------------------------------
RHEADER = "From Isobar Require Import Base.Prelude Sched.Model Sched.Obs Sched.Reconf.\n"


def c_event(ev):
    return "RStopIter" if ev["k"] == "raise_stop" else S.coq_event(ev)


def c_stream(s):
    return "(mkStream %s 0%%nat %s)" % (lst([c_event(e) for e in s["items"]]), blit(s["cyclic"]))


def c_op(o):
    if o[0] == "schedule":
        _, s, q, d, count, rwd, name, replace = o
        return "OSchedule %s %s %s %s %s %s %s" % (c_stream(s), S.oz(q), S.oz(d), S.oz(count), blit(rwd), S.oz(name), blit(replace))
    if o[0] == "update":
        _, t, s, q, d, count = o
        return "OUpdate %s %s %s %s %s" % (natlit(t), c_stream(s), S.oz(q), S.oz(d), S.oz(count))
    return S.coq_op(o)


def r_history(sc):
    return lst(["rhop (RFlag %s) 1" % blit(bool(o[1])) if o[0] == "set_ignore"
                else "rhop (RO (%s)) %s" % (c_op(o), zlit(o[1] if o[0] == "tick" else 1)) for o in sc["ops"]])


def r_agrees_term(sc, obs):
    return "ragrees %s %s %s" % (S.coq_config(sc), r_history(sc), S.coq_expected(obs))


def r_model_disagreements(run, scenarios, results, chunk=30):
    """as sched_common.model_disagreements, on Reconf.rrun (which is Model.run on a history without assignments: rrun_no_flags)"""
    terms = []
    for sc, r in zip(scenarios, results):
        if "driver_error" in r or not S.obs_well_typed(r["obs"]):
            terms.append("false")
        else:
            terms.append(r_agrees_term(sc, r["obs"]))
    bad = run.coq_failing(RHEADER, terms, chunk=chunk)
    if bad:
        probe = ["rout_of_fuel %s %s" % (S.coq_config(scenarios[i]), r_history(scenarios[i])) if terms[i] != "false" else "false" for i in bad]
        spent = set(run.coq_failing(RHEADER, ["negb (%s)" % t for t in probe], chunk=chunk))
        keep = []
        for j, i in enumerate(bad):
            if j in spent:
                run.discard("model-out-of-fuel")
            else:
                keep.append(i)
        bad = keep
    return bad


def r_model_trace(run, sc):
    return run.coq_eval(RHEADER, "sparse (rrun %s tl0 (rexpand %s))" % (S.coq_config(sc), r_history(sc)))


def r_report_disagreement(run, sc, r, kind, site, extra=None):
    doc = {"broken": "correspondence Sched/Model.v + Sched/Reconf.v <-> isobar Timeline/Track on this history (the theorems of Props/C17.v "
                     "no longer speak about this code)",
           "scenario": sc, "observed": r.get("obs", r),
           "python": "PYTHONPATH=/repo /venv/bin/python /verif/harness/impl/c17_impl.py <<< '{\"scenarios\": [<the scenario of this file>]}'"}
    try:
        doc["model"] = r_model_trace(run, sc)
    except Exception as e:      # pragma: no cover
        doc["model"] = "unavailable: %s" % e
    if extra:
        doc.update(extra)
    return run.violation({"kind": kind, "site": site}, doc, found_input=False)


def base_desc(rng):
    """a fault-free C07-style joint scenario"""
    while True:
        d = M.gen_joint(rng, {"cb_raise": False})
        if any(i["k"].startswith("raise") for t in d["tracks"] for i in t["stream"]["items"]):
            continue
        for t in d["tracks"]:
            t["stream"]["form"] = "scripted"
        d["config"] = {"ignore": True, "stop_when_done": False}
        return d


def with_item(desc, f, idx, item):
    d = copy.deepcopy(desc)
    d["tracks"][f]["stream"]["items"][idx] = item
    return d


def marker_variant(desc, f, idx):
    """track f silent from item idx on: the item is replaced by a marker control with an enormous duration"""
    ch = desc["tracks"][f]["chan"]
    return with_item(desc, f, idx, {"k": "control", "dur": F(100000), "ctl": MARK_CTL, "val": MARK_VAL, "chan": ch})


def without(desc, fs):
    d = copy.deepcopy(desc)
    d["tracks"] = [t for k, t in enumerate(desc["tracks"]) if k not in fs]
    d.pop("later_ops", None)          # they refer to the track that is left out
    return d


def proj(J, ch, cb_owner):
    return [[c for c in calls if M.owner_of(c, cb_owner) == ch] for calls, _, _ in J]


def cut_after_emit(trace, j_local):
    """trace: per-tick call lists of ONE track in the fault-free run.  Returns (prefix, cut tick, sounding): prefix = the
    rows up to the cut with everything before the track's j_local-th emitting call (on/ctl/pgm); sounding = how many
    notes of each pitch are sounding at the cut."""
    out, n, cut_tick = [], 0, None
    sounding = {}
    for t, calls in enumerate(trace):
        row = []
        for c in calls:
            if cut_tick is not None:
                break
            if c[0] in ("on", "ctl", "pgm"):
                if n == j_local:
                    cut_tick = t
                    break
                n += 1
            if c[0] == "on":
                sounding[c[1]] = sounding.get(c[1], 0) + 1
            if c[0] == "off":
                sounding[c[1]] = sounding.get(c[1], 0) - 1
            row.append(c)
        out.append(row)
        if cut_tick is not None:
            break
    return out, cut_tick, {k: v for k, v in sounding.items() if v > 0}


def device_fault_trace_ok(base_trace, got, j_local):
    """the failing track under a device fault: identical up to the failing call; afterwards only note-offs, one per note
    sounding at the fault, each on a tick on which the fault-free run releases that pitch too (the releases keep their
    due times; which of two overlapping notes of one pitch a release belongs to is not observable)"""
    prefix, cut, sounding = cut_after_emit(base_trace, j_local)
    if cut is None:
        return got == base_trace, "no cut"
    if got[:cut] != base_trace[:cut] or got[cut][:len(prefix[cut])] != prefix[cut]:
        return False, "differs before the fault (tick <= %d)" % cut
    rest = [(cut, c) for c in got[cut][len(prefix[cut]):]] + [(t, c) for t in range(cut + 1, len(got)) for c in got[t]]
    avail = {}
    for t in range(cut, len(base_trace)):
        for c in base_trace[t]:
            if c[0] == "off":
                avail[(t, c[1])] = avail.get((t, c[1]), 0) + 1
    for t, c in rest:
        if c[0] != "off":
            return False, "tick %d: %r after the fault" % (t, c)
        if sounding.get(c[1], 0) <= 0:
            return False, "tick %d: %r releases a note that was not sounding at the fault" % (t, c)
        if avail.get((t, c[1]), 0) <= 0:
            return False, "tick %d: %r is not on a tick the fault-free run releases that pitch" % (t, c)
        sounding[c[1]] -= 1; avail[(t, c[1])] -= 1
    # every note sounding at the fault must be released, unless its release falls beyond the horizon: of the S notes of a
    # pitch sounding at the fault and the B later onsets of that pitch in the fault-free run, A are released within the
    # horizon there, so at least A - B of the S releases are due within it
    start = dict(cut_after_emit(base_trace, j_local)[2])
    for nt, S_ in start.items():
        A = sum(1 for t in range(cut, len(base_trace)) for c in base_trace[t] if c[0] == "off" and c[1] == nt)
        A -= sum(1 for c in prefix[cut] if c[0] == "off" and c[1] == nt)
        ons = [c for t in range(cut, len(base_trace)) for c in base_trace[t] if c[0] == "on" and c[1] == nt]
        B = len(ons) - sum(1 for c in prefix[cut] if c[0] == "on" and c[1] == nt)
        released = S_ - sounding.get(nt, 0)
        if released < min(S_, max(0, A - B)):
            return False, "note %r sounding at the fault is released %d time(s); at least %d release(s) are due within the horizon" % (nt, released, min(S_, max(0, A - B)))
    return True, ""


# ---- a real, stateful output device behind the scheduler (MidiFileOutputDevice / MidiOutputDevice on a fake port) -----------
DHEADER = ("From Isobar Require Import Base.Prelude Sched.Model Sched.Obs Sched.TimeProofs Sched.MergeProofs Sched.RenameProofs "
           "IO.MidiBytes IO.FileWire Sched.DevFile.\n"
           "Definition on_channel (ch : Z) : Z -> bool := fun c => c =? ch.\n"
           "Definition one_of (mine : list nat) : nat -> bool := fun cb => existsb (Nat.eqb cb) mine.\n"
           "(* the hypotheses of C17_file_same_as_without_refused / C17_refusal_noninterference for the observed track *)\n"
           "Definition refusal_instance (i f : nat) (ch : Z) (mine : list nat) (cfg : config) (h : list (op * Z)) : bool :=\n"
           "  uncoupled (no_fail cfg) && hist_wf i (on_channel ch) (one_of mine) 0 (expand h) && all_ticks_ok cfg tl0 (expand h)\n"
           "  && all_ticks_ok (no_fail cfg) tl0 (drop_track f 0 (expand h)) && own_clean cfg i tl0 (expand h).\n")


def call_valid(c):
    """MIDI 1.0: data bytes 0..127, channel 0..15 (what mido.Message accepts)"""
    if c[0] == "cb":
        return True
    data, ch = (c[1:3], c[3]) if c[0] in ("on", "ctl") else (c[1:2], c[2])
    return all(type(x) is int and 0 <= x <= 127 for x in data) and 0 <= ch <= 15


def call_bytes(c):
    k = c[0]
    if k == "on":
        return [0x90 | c[3], c[1], c[2]]
    if k == "off":
        return [0x80 | c[2], c[1]]            # the release velocity is not fixed by the property
    if k == "ctl":
        return [0xB0 | c[3], c[1], c[2]]
    if k == "pgm":
        return [0xC0 | c[2], c[1]]
    return None


def same_bytes(want, got):
    return got[:len(want)] == want and len(got) == (3 if (want[0] & 0xF0) != 0xC0 else 2)


def refuse_item(rng, item):
    """the item with one datum pushed out of the MIDI range (what a line climbing past note 127 / an amplitude above 127 does);
    None when the item makes no device call"""
    it = copy.deepcopy(item)
    big = lambda: rng.choice([128, 130, 140, 200, 255, 1000])
    if it["k"] == "control":
        it[rng.choice(["val", "val", "ctl"])] = big()
        return it
    if it["k"] == "program":
        it["prog"] = big()
        return it
    if it["k"] != "note" or it.get("note") is None or not it.get("active", True):
        return None
    if isinstance(it["note"], list):
        p = rng.randrange(len(it["note"]))
        if rng.random() < 0.7 or not isinstance(it["amp"], list):
            it["note"][p] = big()
        else:
            it["amp"][p] = big()
    elif rng.random() < 0.7:
        it["note"] = big()
    else:
        it["amp"] = big()
    return it


def file_abs(msgs):
    """[(absolute tick, bytes)] of the saved file without the closing note_off"""
    out, now = [], 0
    for d, b in msgs:
        now += d
        out.append((now, b))
    return out[:-1], (out[-1] if out else None)


# ---- the life of a timeline object: several runs (foreground / background thread), stop(), reset() in between ----------------
LHEADER = "From Isobar Require Import Base.Prelude Sched.Model Sched.Obs Sched.RunLoop.\n"
LIFE_OPS = ("run", "background", "hand_run", "stop", "reset")


def life_scenario(desc, pieces, config):
    """pieces: list of (track indices to schedule, then the life operations that follow); every track is scheduled by a plain call
    at the moment its piece begins.  Returns (scenario, ids)"""
    ops, ids, n = [], {}, 0
    for tracks, after in pieces:
        for k in tracks:
            t = desc["tracks"][k]
            ops.append(G.sched_op(t["stream"], t["q"], t["d"], t["count"], True, None, True))
            ids[k] = n
            n += 1
        ops += [list(o) for o in after]
    sc = {"tpb": desc["tpb"], "config": dict(config), "callbacks": [{"raise": c["raise"], "ops": c["ops"]} for c in desc["callbacks"]], "ops": ops}
    return sc, ids


def l_term(sc):
    out = []
    for o in sc["ops"]:
        if o[0] == "run":
            out.append("LRun %s" % natlit(o[1]))
        elif o[0] == "background":
            out.append("LBackground %s" % natlit(o[1]))
        elif o[0] == "stop":
            out.append("LStop")
        elif o[0] == "reset":
            out.append("LReset")
        else:
            out.append("LOp (%s)" % c_op(o))
    return lst(out)


class Plan:
    """collects scenarios to run; remembers the index of each"""
    def __init__(self):
        self.scs, self.fin, self.keys = [], [], {}

    def add_raw(self, key, sc, ids, desc):
        k = json.dumps(key, sort_keys=True, default=str)
        if k in self.keys:
            return self.keys[k]
        self.scs.append((sc, ids, desc))
        self.fin.append(G.finalize(sc))
        self.keys[k] = len(self.scs) - 1
        return self.keys[k]

    def add(self, key, desc, mode_ignore=None, dev_fail=None, run_mode=False, flips=None, dev_exc=None, device=None):
        """mode_ignore: what the Timeline constructor is given; flips: later assignments of the attribute (see insert_flips)"""
        k = json.dumps(key, sort_keys=True, default=str)
        if k in self.keys:
            return self.keys[k]
        order = list(range(len(desc["tracks"])))
        sc, ids = M.scenario(desc, order)
        sc["callbacks"] = [dict(c, **{k_: d[k_] for k_ in ("exc", "form") if d.get(k_)}) for c, d in zip(sc["callbacks"], desc["callbacks"])]
        if mode_ignore is not None:
            sc["config"]["ignore"] = mode_ignore
        if dev_fail is not None:
            sc["config"]["dev_fail"] = dev_fail
            if dev_exc:
                sc["config"]["dev_fail_exc"] = dev_exc
        # names: desc tracks may carry "name"; the n-th schedule call of the history is the track with id n
        names = {ids[k_]: t_["name"] for k_, t_ in enumerate(desc["tracks"]) if t_.get("name") is not None and k_ in ids}
        if names:
            n_ = 0
            for o in sc["ops"]:
                if o[0] == "schedule":
                    if n_ in names:
                        o[6] = names[n_]
                    n_ += 1
        if desc.get("max_tracks"):
            sc["config"]["max_tracks"] = desc["max_tracks"]
        if desc.get("later_ops"):
            # operations made later in the performance that refer to a track by its index in desc["tracks"]
            sc["ops"] = insert_flips(sc["ops"], [(t_, [o_[0]] + [ids[o_[1]] if o_[1] in ids else 99] + o_[2:]) for t_, o_ in desc["later_ops"]], raw=True)
        if device:
            sc["config"]["device"] = device
        if flips:
            sc["ops"] = insert_flips(sc["ops"], flips)
        if run_mode:
            sc["config"]["stop_when_done"] = True
            first_tick = next((i for i, o in enumerate(sc["ops"]) if o[0] == "tick"), len(sc["ops"]))
            sc["ops"] = [o for i, o in enumerate(sc["ops"]) if o[0] == "schedule" or (o[0] == "set_ignore" and i < first_tick)] + [["run", 400]]
        self.scs.append((sc, ids, desc))
        self.fin.append(G.finalize(sc))
        self.keys[k] = len(self.scs) - 1
        return self.keys[k]


def gen_cases(rng, n_base, per_base):
    """returns (plan, cases).  A case: dict with the indices (into plan) of the runs the oracle needs."""
    plan, cases = Plan(), []
    for b in range(n_base):
        desc = base_desc(rng)
        k = len(desc["tracks"])
        H = desc["horizon"]
        sites = [(f, idx) for f in range(k) for idx in range(len(desc["tracks"][f]["stream"]["items"]))]
        rng.shuffle(sites)
        sites.sort(key=lambda s_: s_[1] + 2.5 * rng.random())      # early events first: they are reached within the horizon
        i_base = plan.add(("base", b), desc)
        chosen = sites[:per_base] if per_base else sites

        def modes(n_reconf):
            """the tolerance set-ups of one faulty scenario: the constructor argument alone (both values), then set-ups in which the
            attribute is assigned on the existing Timeline: (label, constructor flag, flips)"""
            out = [("ctor", True, []), ("ctor", False, [])]
            for j in range(n_reconf):
                ctor = rng.random() < 0.5
                style = "early" if (j == 0 and rng.random() < 0.7) else "multi"
                out.append((style, ctor, gen_flips(rng, ctor, H, style)))
            return out
        for (f, idx) in chosen:
            kind = rng.choice(["raise_eval", "raise_ctor", "raise_eval", "cb_exc", "cb_stop", "raise_eval", "raise_stop"])
            if kind == "raise_stop":
                # a subclass of StopIteration coming out of the pattern: the end-of-stream signal, not a fault
                fd = with_item(desc, f, idx, {"k": kind})
                i_minus = plan.add(("minus", b, (f,)), without(desc, {f}))
                for ignore in (True, False):
                    i_run = plan.add(("stopcls", b, f, idx, ignore), fd, mode_ignore=ignore)
                    cases.append({"kind": "stopcls", "site": "stop-subclass", "b": b, "f": [f], "idx": [idx], "ignore": ignore, "ctor": ignore,
                                  "flips": [], "run": i_run, "minus": i_minus, "desc": fd})
            elif kind.startswith("raise"):
                item = fault_item(rng, kind)
                fd = with_item(desc, f, idx, item)
                i_mark = plan.add(("mark", b, f, idx), marker_variant(desc, f, idx))
                i_minus = plan.add(("minus", b, (f,)), without(desc, {f}))
                for label, ctor, flips in modes(2 if per_base else 3):
                    i_run = plan.add(("fault", b, f, idx, item, ctor, flips), fd, mode_ignore=ctor, flips=flips)
                    cases.append({"kind": "stream", "site": kind, "b": b, "f": [f], "idx": [idx], "ignore": ctor, "ctor": ctor, "flips": flips,
                                  "setup": label, "item": item, "run": i_run, "mark": [i_mark], "minus": i_minus, "base": i_base, "desc": fd})
            else:
                d2 = copy.deepcopy(desc)
                mod = None
                if kind == "cb_stop" and rng.random() < 0.6:
                    # the callback strikes while a note of its own track is still sounding: move the site behind a sounding
                    # note where there is one, and let that note outlast its event
                    cand = [(f2, i2) for (f2, i2) in sites if i2 >= 1
                            and desc["tracks"][f2]["stream"]["items"][i2 - 1]["k"] == "note"
                            and desc["tracks"][f2]["stream"]["items"][i2 - 1].get("note") is not None
                            and desc["tracks"][f2]["stream"]["items"][i2 - 1].get("active", True)]
                    if cand:
                        f, idx = min(cand, key=lambda s_: s_[1])
                        mod = rng.choice([2, 3, 5])
                        d2["tracks"][f]["stream"]["items"][idx - 1]["gate"] = [mod, 1]
                cb = len(d2["callbacks"])
                d2["callbacks"].append({"raise": "none", "ops": [], "owner": d2["tracks"][f]["chan"]})
                dur = d2["tracks"][f]["stream"]["items"][idx].get("dur", F(1))
                d2["tracks"][f]["stream"]["items"][idx] = {"k": "action", "cb": cb, "dur": dur}
                i_none = plan.add(("cbnone", b, f, idx, mod), d2)
                d3 = copy.deepcopy(d2)
                d3["callbacks"][cb]["raise"] = "exc" if kind == "cb_exc" else "stop"
                exc = None
                if kind == "cb_exc" and rng.random() < 0.85:
                    exc = rng.choice(EXC_NAMES)
                    d3["callbacks"][cb]["exc"] = exc
                for label, ctor, flips in modes(1):
                    i_run = plan.add(("cbfault", b, f, idx, kind, exc, ctor, flips, mod), d3, mode_ignore=ctor, flips=flips)
                    cases.append({"kind": kind, "site": "callback", "b": b, "f": [f], "idx": [idx], "cb": cb, "ignore": ctor, "ctor": ctor,
                                  "flips": flips, "setup": label, "exc": exc, "run": i_run, "none": i_none, "desc": d3})
        # AFTER a contained fault: the failing track bears a name; later in the performance a new track is scheduled under that name
        # (the live coder's reaction to the warning), the failed Track object is updated / unscheduled, the track limit had been
        # reached before the fault
        if b % 3 == 0 and sites:
            used = [t["chan"] for t in desc["tracks"]]
            free = [c for c in range(16) if c not in used]
            (f, idx) = min(sites, key=lambda s_: (s_[1] > 1, rng.random()))
            if free:
                item = fault_item(rng, rng.choice(["raise_eval", "raise_ctor"]))
                da = with_item(desc, f, idx, item)
                da["tracks"][f]["name"] = 7
                late_at = min(H - 3, max(t["at"] for t in desc["tracks"]) + rng.choice([3, 5, 8, 12]))
                cbs_late = []
                late_stream = M.gen_track(rng, desc["tpb"], F(1, desc["tpb"]) * rng.choice([1, 2]), free[0], cbs_late, {})
                late_stream["form"] = "scripted"
                late_stream["items"] = [i_ for i_ in late_stream["items"] if i_["k"] != "action"] or \
                    [{"k": "note", "dur": F(1, desc["tpb"]), "note": 64, "amp": 64, "gate": [1, 1], "chan": free[0]}]
                da["tracks"].append({"chan": free[0], "stream": late_stream, "at": max(0, late_at), "q": None, "d": rng.choice([None, None, F(1, desc["tpb"])]),
                                     "count": None, "rwd": True, "unschedule_at": None, "name": 7})
                if rng.random() < 0.35:
                    da["max_tracks"] = k             # the limit is reached by the base tracks: the late one needs the failed one's place
                later = []
                if rng.random() < 0.5:
                    later.append((late_at + 1, ["unschedule", f]))
                if rng.random() < 0.4:
                    later.append((late_at + 2, ["update", f, late_stream, None, None, None]))
                da["later_ops"] = later
                dm = marker_variant(da, f, idx)
                i_mark = plan.add(("mark-after", b, f, idx), dm)
                i_minus = plan.add(("minus-after", b, f), without(da, {f}))
                for ignore in (True,):            # after a fault that ESCAPED the performance is over: tolerant mode only
                    i_run = plan.add(("after", b, f, idx, item, ignore), da, mode_ignore=ignore)
                    cases.append({"kind": "stream", "site": "after-fault", "b": b, "f": [f], "idx": [idx], "ignore": ignore, "ctor": ignore,
                                  "flips": [], "item": item, "run": i_run, "mark": [i_mark], "minus": i_minus, "base": i_base, "desc": da,
                                  "late_at": max(0, late_at), "later": [o_[1][0] for o_ in later], "limit": bool(da.get("max_tracks"))})
        # a device fault
        for _ in range(2 if per_base else 4):
            j = rng.choice([0, 1, 2, 3, 4, 5, 6, 8, 11])
            dexc = rng.choice(EXC_NAMES)
            for label, ctor, flips in modes(1):
                i_run = plan.add(("dev", b, j, dexc, ctor, flips), desc, mode_ignore=ctor, dev_fail=j, flips=flips, dev_exc=dexc)
                cases.append({"kind": "device", "site": "device", "b": b, "j": j, "ignore": ctor, "ctor": ctor, "flips": flips, "setup": label,
                              "exc": dexc, "run": i_run, "base": i_base, "desc": desc,
                              "minus_of": {f: plan.add(("minus", b, (f,)), without(desc, {f})) for f in range(k)}})
        # a REAL stateful device behind the scheduler: one datum of the failing track is out of the MIDI range, the device itself
        # refuses that call; observed in the written file / on the port
        # (on two bases of three; sites: an early but not the first event, of the track that is first in the scheduling order if
        # possible - nobody's event precedes its refused call within the tick)
        for (f, idx) in (sorted(sites, key=lambda s_: (s_[1] == 0 or s_[1] > 3, s_[0] != 0, rng.random())) if b % 3 else []):
            bad = refuse_item(rng, desc["tracks"][f]["stream"]["items"][idx])
            if bad is None:
                continue
            fd = with_item(desc, f, idx, bad)
            if rng.random() < 0.7:
                # the failing track one tick off the others' grid and its previous note released before its next event: its refused
                # call tends to be the first request of its tick, some time after the last message - where a device that has lost
                # track of its own time would show it
                fd["tracks"][f]["d"] = (fd["tracks"][f]["d"] or F(0)) + F(1, desc["tpb"])
                prev = fd["tracks"][f]["stream"]["items"][idx - 1] if idx >= 1 else None
                if prev is not None and prev["k"] == "note" and prev.get("note") is not None:
                    prev["gate"] = [1, 2] if (F(prev["dur"]) / 2 * desc["tpb"]).denominator == 1 else [1, 1]
            rc = {"kind": "realdev", "site": "device-refusal", "b": b, "f": [f], "idx": [idx], "ignore": True, "ctor": True, "flips": [],
                  "item": bad, "desc": fd, "probe": plan.add(("probe", b, f, idx, bad), fd)}
            kinds = ["file"] + (["port"] if 24 % desc["tpb"] == 0 and b % 2 == 0 else [])
            for dk in kinds:
                rc[dk] = plan.add(("real", b, f, idx, bad, dk), fd, mode_ignore=True, device=dk)
                rc[dk + "-"] = plan.add(("real-minus", b, f, dk), without(desc, {f}), mode_ignore=True, device=dk)
            rc["run"] = rc["file"]
            rc["file-intolerant"] = plan.add(("real", b, f, idx, bad, "file", False), fd, mode_ignore=False, device="file")
            cases.append(rc)
            break
        # two stream faults on different tracks
        if k >= 2 and len(sites) >= 2:
            (f1, x1) = sites[0]
            others = [s for s in sites if s[0] != f1]
            if others:
                (f2, x2) = others[0]
                it1, it2 = fault_item(rng, "raise_eval"), fault_item(rng, "raise_ctor")
                fd = with_item(with_item(desc, f1, x1, it1), f2, x2, it2)
                i_m1 = plan.add(("mark", b, f1, x1), marker_variant(desc, f1, x1))
                i_m2 = plan.add(("mark", b, f2, x2), marker_variant(desc, f2, x2))
                i_minus = plan.add(("minus", b, tuple(sorted((f1, f2)))), without(desc, {f1, f2}))
                for ignore in (True, False):
                    i_run = plan.add(("fault2", b, f1, x1, f2, x2, it1, it2, ignore), fd, mode_ignore=ignore)
                    cases.append({"kind": "stream", "site": "two-faults", "b": b, "f": [f1, f2], "idx": [x1, x2], "ignore": ignore, "ctor": ignore,
                                  "flips": [], "run": i_run, "mark": [i_m1, i_m2], "minus": i_minus, "base": i_base, "desc": fd})
        # through Timeline.run(): finite scenario, everything scheduled before the clock starts; the mode given to the
        # constructor, or assigned afterwards (before run())
        if b % 4 == 0:
            dr = copy.deepcopy(desc)
            for t in dr["tracks"]:
                t["stream"]["cyclic"] = False; t["rwd"] = True; t["at"] = 0; t["unschedule_at"] = None
            dr["horizon"] = 400
            (f, idx) = rng.choice([(f, idx) for f in range(k) for idx in range(len(dr["tracks"][f]["stream"]["items"]))])
            item = fault_item(rng, rng.choice(["raise_eval", "raise_ctor"]))
            fd = with_item(dr, f, idx, item)
            for ignore in (True, False):
                for ctor, flips in ((ignore, []), (not ignore, [(0, ignore)])):
                    i_ticks = plan.add(("runref", b, f, idx, item, ctor, flips), fd, mode_ignore=ctor, flips=flips)
                    i_run = plan.add(("run", b, f, idx, item, ctor, flips), fd, mode_ignore=ctor, flips=flips, run_mode=True)
                    cases.append({"kind": "run", "site": "run()", "b": b, "f": [f], "idx": [idx], "ignore": ignore, "ctor": ctor, "flips": flips,
                                  "setup": "early" if flips else "ctor", "item": item, "run": i_run, "ticks": i_ticks, "desc": fd})
        # THE SAME TIMELINE OBJECT USED FOR SEVERAL RUNS: a healthy piece is played to its end (in the foreground, or on the thread
        # background() creates), possibly stop() / reset(), then further tracks - one of them failing - are scheduled and the
        # timeline is run again in the foreground
        if b % 4 == 1 and k >= 2:
            dl = copy.deepcopy(desc)
            for t in dl["tracks"]:
                t["stream"]["cyclic"] = False; t["rwd"] = True; t["at"] = 0; t["unschedule_at"] = None
            first_piece = [0]
            rest = list(range(1, k))
            (f, idx) = rng.choice([(f, idx) for f in rest for idx in range(len(dl["tracks"][f]["stream"]["items"]))])
            item = fault_item(rng, rng.choice(["raise_eval", "raise_ctor"]))
            fl = with_item(dl, f, idx, item)
            for ignore in (True, False):
                firsts = ["background", rng.choice(["run", "background"])] if not ignore else [rng.choice(["run", "background"])]
                for vi, first in enumerate(firsts):
                    between = rng.choice([[], [], [["stop"]], [["reset"]], [["stop"], ["reset"]]])
                    again = rng.random() < 0.3          # the healthy piece played twice before the failing one
                    def mk(first_op, second_op, tracks_b, d_=fl):
                        pieces = [(first_piece, [[first_op, 400]] + between)]
                        if again:
                            pieces.append((first_piece, [[first_op if first_op == "hand_run" else "run", 400]]))
                        pieces.append((tracks_b, [[second_op, 400]]))
                        return life_scenario(d_, pieces, {"ignore": ignore, "stop_when_done": True})
                    key = (b, f, idx, item, ignore, first, between, again, vi)
                    i_life = plan.add_raw(("life",) + key, *mk(first, "run", rest), fl)
                    i_hand = plan.add_raw(("life-hand",) + key, *mk("hand_run", "hand_run", rest), fl)
                    i_minus = plan.add_raw(("life-minus",) + key, *mk(first, "run", [t for t in rest if t != f]), fl) if ignore else None
                    cases.append({"kind": "life", "site": "reused-timeline", "b": b, "f": [f], "idx": [idx], "ignore": ignore, "ctor": ignore,
                                  "flips": [], "item": item, "first": first, "between": [o[0] for o in between], "again": again,
                                  "run": i_life, "hand": i_hand, "minus": i_minus, "desc": fl})
    cases += callback_form_cases(plan)
    return plan, cases


CB_FORMS = ("function", "partial", "callable-object", "bound-method")


def callback_form_cases(plan):
    """a FIXED stratum, the same in every run and independent of the seed: every callable form of a user callback x {raises an
    exception, raises StopIteration, does not raise} x both tolerance modes, on a short scenario with one action track and one healthy
    track (a functools.partial and a callable object have no __name__, a bound method is not a function)"""
    out = []
    note = lambda p, ch: {"k": "note", "dur": F(1), "note": p, "amp": 64, "gate": [1, 2], "chan": ch}
    for fi, form in enumerate(CB_FORMS):
        for rwd in (True, False):
            def desc_for(raise_, exc=None):
                items = [note(50, 1), {"k": "action", "cb": 0, "dur": F(1)}, note(52, 1), note(53, 1)]
                return {"tpb": 4, "horizon": 24, "config": {"ignore": True, "stop_when_done": False},
                        "callbacks": [dict({"raise": raise_, "ops": [], "owner": 1, "form": form}, **({"exc": exc} if exc else {}))],
                        "tracks": [{"chan": 1, "stream": G.stream(items, False, "scripted"), "at": 0, "q": None, "d": None, "count": None,
                                    "rwd": rwd, "unschedule_at": None},
                                   {"chan": 2, "stream": G.stream([note(70, 2), note(71, 2), note(72, 2), note(73, 2), note(74, 2)], False, "scripted"),
                                    "at": 0, "q": None, "d": None, "count": None, "rwd": True, "unschedule_at": None}]}
            d_none = desc_for("none")
            i_none = plan.add(("cbform-none", form, rwd), d_none)
            for kind, raise_, exc in (("cb_exc", "exc", EXC_NAMES[(2 * fi + rwd) % len(EXC_NAMES)]), ("cb_stop", "stop", None)):
                if kind == "cb_stop" and not rwd and False:
                    continue
                d_f = desc_for(raise_, exc)
                for ignore in (True, False):
                    i_run = plan.add(("cbform", form, rwd, raise_, ignore), d_f, mode_ignore=ignore)
                    out.append({"kind": kind, "site": "callback", "b": -1, "f": [0], "idx": [1], "cb": 0, "ignore": ignore, "ctor": ignore,
                                "flips": [], "setup": "ctor", "exc": exc, "run": i_run, "none": i_none, "desc": d_f, "form": form,
                                "raise": raise_})
    return out


def judge_life(case, plan, results, catalogue):
    """a timeline object used for several runs: every run() must end as the same ticks made by hand end, whatever came before"""
    bad = []
    sc, ids, desc = plan.scs[case["run"]]
    r, h = results[case["run"]], results[case["hand"]]
    runs, hand = r.get("runs", []), h.get("runs", [])
    cb_owner = {i: c["owner"] for i, c in enumerate(desc["callbacks"])}
    chans = [t["chan"] for t in desc["tracks"]]
    want_cls = site_class(case["item"], catalogue)
    case["exc_class"] = want_cls
    struck = False
    for n, (a, b_) in enumerate(zip(runs, hand)):
        last = n == len(runs) - 1
        where = "run %d of the timeline's life (%s%s)" % (n + 1, a["mode"], ", after %s" % "+".join(case["between"]) if n and case["between"] else "")
        if b_["how"].startswith("exc:"):
            struck = True
            if case["ignore"]:
                bad.append(("exception-escaped", "ignore_exceptions is set, yet tick() raised %s in %s" % (b_["how"], where)))
            elif a["mode"] == "run" and a["how"] != b_["how"]:
                bad.append(("run-not-propagated", "%s: tick() raises %s on tick %d of that run, but Timeline.run() ended with %r (earlier in its life the "
                            "timeline was: %s)" % (where, b_["how"][4:], len(b_["ticks"]) - 1, a["how"],
                                                   ", ".join("%s -> %s" % (x["mode"], x["how"]) for x in runs[:n]) or "fresh")))
            elif a["mode"] == "run" and want_cls and a["how"] != "exc:" + want_cls:
                bad.append(("run-other-exception", "%s: the fault site raises %s, run() let %r out" % (where, want_cls, a["how"])))
        elif b_["how"] == "returned" and a["how"] != "returned":
            bad.append(("run-trace", "%s: the same ticks made by hand end with StopIteration (all tracks done), Timeline.run() ended with %r" % (where, a["how"])))
        if a["ticks"] != b_["ticks"] and not (a["mode"] == "background" and a["how"] != "returned"):
            bad.append(("run-trace", "%s made %r, the same ticks made by hand %r" % (where, a["ticks"][:10], b_["ticks"][:10])))
        if abs(a["now_ticks"] - b_["now_ticks"]) > 1e-6:
            bad.append(("clock", "%s: Timeline.current_time is %r ticks afterwards, %r after the same ticks made by hand" % (where, a["now_ticks"], b_["now_ticks"])))
    if len(runs) != len(hand):
        bad.append(("run-trace", "the life has %d runs, the hand-made one %d" % (len(runs), len(hand))))
    case["strikes"] = [(0, case["f"][0])] if struck or (case["ignore"] and runs and hand) else []
    if case["ignore"] and case["minus"] is not None and runs:
        m = results[case["minus"]].get("runs", [])
        f = case["f"][0]
        for n, (a, c_) in enumerate(zip(runs, m)):
            for k_ in range(len(chans)):
                if k_ == f:
                    continue
                pa = [[c for c in calls if M.owner_of(c, cb_owner) == chans[k_]] for calls in a["ticks"]]
                pm = [[c for c in calls if M.owner_of(c, cb_owner) == chans[k_]] for calls in c_["ticks"]]
                while pa and not pa[-1]:
                    pa.pop()
                while pm and not pm[-1]:
                    pm.pop()
                if pa != pm:
                    bad.append(("interference", "run %d of the timeline's life: the healthy track on channel %d has %r, in the same life without the failing track %r"
                                % (n + 1, chans[k_], pa[:8], pm[:8])))
                    break
    return bad


def life_term(case, plan, results):
    fin = plan.fin[case["run"]]
    r = results[case["run"]]
    END = {"returned": "RunReturned"}
    obs = []
    for a in r["runs"]:
        e = END.get(a["how"], "RunRaised" if a["how"].startswith("exc:") else None)
        if e is None or (a["mode"] == "background" and a["how"] != "returned"):
            return None
        obs.append("lrun_obs %s %s" % (lst([lst([S.coq_call(c) for c in calls]) for calls in a["ticks"]]), e))
    x = F(r["runs"][-1]["now_ticks"]).limit_denominator(10 ** 6) * (fin["U"] // fin["tpb"])
    if x.denominator != 1:
        return None
    return "%s %s %s %s" % (S.coq_config(fin), l_term(fin), lst(obs), zlit(int(x)))


def fault_tick(markJ, ch):
    for t, (calls, _, _) in enumerate(markJ):
        for c in calls:
            if c[0] == "ctl" and c[1] == MARK_CTL and c[2] == MARK_VAL and c[3] == ch:
                return t
    return None


def escaped_on_tick(sc, r):
    """{tick number: class name} of the exceptions that left tick()"""
    idx2tick = {i: t for i, (kind, t) in enumerate(S.tick_indices(sc)) if kind == "tick"}
    return {idx2tick[i]: (name, mro) for i, name, mro in r.get("escaped", []) if i in idx2tick}


def judge_realdev(case, plan, results):
    """the failing track's call is refused by a real device; judged on what is in the file / what reached the port"""
    bad = []
    psc, ids, desc = plan.scs[case["probe"]]
    P = M.per_tick(psc, results[case["probe"]])                 # the same scenario on the recording stub, which refuses nothing
    cb_owner = {i: c["owner"] for i, c in enumerate(desc["callbacks"])}
    chans = [t["chan"] for t in desc["tracks"]]
    f = case["f"][0]
    # the first request a MIDI device must refuse: its number among the note_on / control / program_change calls, its tick
    j, strike, n = None, None, 0
    for t, (calls, _, _) in enumerate(P):
        for c in calls:
            if c[0] in ("on", "ctl", "pgm"):
                if not call_valid(c) and j is None:
                    j, strike = n, t
                n += 1
    case["j"], case["strikes"] = j, ([(strike, f)] if strike is not None else [])
    if strike is not None:
        before = []
        for c in P[strike][0]:
            if c[0] in ("on", "ctl", "pgm") and not call_valid(c):
                break
            if c[0] != "cb":
                before.append(c)
        last_msg = max([t for t in range(strike) if any(c[0] != "cb" for c in P[t][0])] + [-1])
        # the refused request is the first request of its tick and time has passed since the last message: a device that has
        # already moved its "last event" mark would misplace everything that follows
        case["rd_gap"] = (not before) and last_msg >= 0 and any(c[0] != "cb" for t in range(strike, len(P)) for c in P[t][0] if call_valid(c))
    healthy = [k for k in range(len(chans)) if k != f]
    for dk in ("file", "port"):
        if dk not in case:
            continue
        r, rm = results[case[dk]], results[case[dk + "-"]]
        mids = plan.scs[case[dk + "-"]][1]
        if "exc" in r["res"]:
            bad.append(("exception-escaped", "ignore_exceptions is set and the %s device refuses a call of the track on channel %d on tick %r, yet tick %d raised (%r)"
                        % (dk, chans[f], strike, r["res"].index("exc"), r["escaped"][:1])))
            continue
        for t, x in enumerate(r["times"]):
            if abs(x - (t + 1)) > 1e-6:
                bad.append(("clock", "after %d ticks Timeline.current_time is %r ticks" % (t + 1, x))); break
        if strike is not None and ids[f] in r["ids"][strike]:
            bad.append(("not-removed", "track on channel %d: its call is refused by the %s device on tick %d but it is still scheduled after it" % (chans[f], dk, strike)))
        k = r["device_tpb"] // psc["tpb"] if r.get("device_tpb") else 1
        if dk == "file":
            got, closing = file_abs(r["file"])
            ref, closing_m = file_abs(rm["file"])
        else:
            got = [(t, b) for t, bs in enumerate(r["port"]) for b in bs]
            ref = [(t, b) for t, bs in enumerate(rm["port"]) for b in bs]
            k = 1
        for h in healthy:
            ch = chans[h]
            mine = [(t, b) for t, b in got if (b[0] & 0x0F) == ch]
            theirs = [(t, b) for t, b in ref if (b[0] & 0x0F) == ch]
            if mine != theirs:
                d = next(x for x in range(max(len(mine), len(theirs))) if x >= len(mine) or x >= len(theirs) or mine[x] != theirs[x])
                bad.append(("device-state", "%s: message %d of the healthy track on channel %d is %r, %r when the failing track (channel %d, refused on tick %r = device tick %r) "
                            "is not there (%d of %d messages differ)" % (
                                "MIDI file (absolute tick, bytes)" if dk == "file" else "MIDI port (tick, bytes)", d, ch,
                                mine[d] if d < len(mine) else None, theirs[d] if d < len(theirs) else None, chans[f], strike,
                                None if strike is None else strike * k,
                                sum(1 for a, b_ in zip(mine, theirs) if a != b_) + abs(len(mine) - len(theirs)), max(len(mine), len(theirs)))))
                break
            # and every message sits on the tick on which the track asked for it (the run on the recording stub)
            want = [(t * k, call_bytes(c)) for t, (calls, _, _) in enumerate(P) for c in calls
                    if c[0] != "cb" and M.owner_of(c, cb_owner) == ch]
            if len(want) != len(mine) or any(wt != gt or not same_bytes(wb, gb) for (wt, wb), (gt, gb) in zip(want, mine)):
                bad.append(("device-position", "%s: the healthy track on channel %d asked for %r, the device holds %r" % (dk, ch, want[:10], mine[:10])))
                break
    if "file" in case and not any(k_ == "device-state" for k_, _ in bad) and "exc" not in results[case["file"]]["res"]:
        closing, closing_m = file_abs(results[case["file"]]["file"])[1], file_abs(results[case["file-"]]["file"])[1]
        if closing != closing_m:
            bad.append(("device-state", "the closing message of the file sits at %r, in the file written without the failing track at %r "
                        "(refusal on tick %r)" % (closing, closing_m, strike)))
    r = results[case["file-intolerant"]]
    if strike is not None:
        if r["res"][strike] != "exc" or "exc" in r["res"][:strike]:
            bad.append(("not-propagated", "ignore_exceptions is off and the file device refuses a call on tick %d: tick results around it %r"
                        % (strike, r["res"][max(0, strike - 2):strike + 2])))
        elif r["escaped"] and r["escaped"][0][1] != "ValueError":
            bad.append(("other-exception", "mido refuses the data with ValueError, tick %d let %s out" % (strike, r["escaped"][0][1])))
    elif "exc" in r["res"]:
        bad.append(("spurious-exception", "no call is refused, yet tick %d raised" % r["res"].index("exc")))
    return bad


def realdev_terms(case, plan, results):
    """Coq terms: the saved file / the port log is the model's; the hypotheses of the file theorem hold for a healthy track"""
    psc, ids, desc = plan.scs[case["probe"]]
    terms = []
    f = case["f"][0]
    chans = [t["chan"] for t in desc["tracks"]]
    for dk in ("file", "port"):
        if dk not in case:
            continue
        fin = copy.deepcopy(plan.fin[case[dk]])
        fin["config"]["dev_fail"] = case["j"]
        r = results[case[dk]]
        if dk == "file":
            obs = lst(["(%s, %s)" % (zlit(d), zlist(b)) for d, b in r["file"]])
            terms.append((dk, "sched_file_agrees %s %s %s %s" % (zlit(r["device_tpb"] // fin["tpb"]), S.coq_config(fin), S.coq_history(fin), obs)))
        else:
            obs = lst([lst([zlist(b) for b in bs]) for bs in r["port"]])
            terms.append((dk, "sched_port_agrees %s %s %s" % (S.coq_config(fin), S.coq_history(fin), obs)))
    healthy = [k for k in range(len(chans)) if k != f]
    if healthy and case["j"] is not None:
        h = healthy[case["b"] % len(healthy)]
        fin = copy.deepcopy(plan.fin[case["file"]])
        fin["config"]["dev_fail"] = case["j"]
        mine = [ci for ci, c in enumerate(desc["callbacks"]) if c["owner"] == chans[h]]
        terms.append(("theorem-instance", "refusal_instance %s %s %s %s %s %s" % (
            natlit(ids[h]), natlit(ids[f]), zlit(chans[h]), lst([natlit(m) for m in mine]), S.coq_config(fin), S.coq_history(fin))))
    return terms


def judge(case, plan, results, catalogue):
    """returns list of (kind, detail)"""
    bad = []
    if case["kind"] == "realdev":
        return judge_realdev(case, plan, results)
    if case["kind"] == "life":
        return judge_life(case, plan, results, catalogue)
    sc, ids, desc = plan.scs[case["run"]]
    r = results[case["run"]]
    cb_owner = {i: c["owner"] for i, c in enumerate(desc["callbacks"])}
    chans = [t["chan"] for t in desc["tracks"]]
    if case["kind"] == "run":
        rr = r.get("run")
        tsc = plan.scs[case["ticks"]][0]
        T = M.per_tick(tsc, results[case["ticks"]])
        if case["ignore"]:
            if rr["how"] != "returned":
                bad.append(("run-not-contained", "Timeline.run() with ignore_exceptions ended with %r instead of returning when the tracks were done" % rr["how"]))
            else:
                n = len(rr["ticks"])
                want = [calls for calls, _, _ in T[:n]]
                if rr["ticks"] != want:
                    bad.append(("run-trace", "Timeline.run() made %r, the same scenario ticked by hand made %r" % (rr["ticks"][:12], want[:12])))
                if abs(rr["now_ticks"] - (n - 1)) > 1e-6:
                    bad.append(("clock", "Timeline.run(): %d completed ticks but current_time = %r ticks" % (n - 1, rr["now_ticks"])))
        else:
            esc = [t for t, (_, res, _) in enumerate(T) if res == "exc"]
            if esc and not rr["how"].startswith("exc:"):
                bad.append(("run-not-propagated", "tick() raises on tick %d but Timeline.run() without ignore_exceptions ended with %r" % (esc[0], rr["how"])))
            if not esc and rr["how"] != "returned":
                bad.append(("run-trace", "no fault is reached, yet run() ended with %r" % rr["how"]))
            want_cls = site_class(case["item"], catalogue)
            case["exc_class"] = want_cls
            if esc and rr["how"].startswith("exc:") and want_cls and rr["how"] != "exc:" + want_cls:
                bad.append(("run-other-exception", "the pattern raises %s, Timeline.run() let %r out" % (want_cls, rr["how"])))
        return bad
    J = M.per_tick(sc, r)
    times = r.get("times", [])
    results_ = [res for _, res, _ in J]
    # when does each fault strike, and whose is it
    strikes = []        # (tick, track index)
    if case["kind"] == "stream":
        for f, i_mark in zip(case["f"], case["mark"]):
            msc = plan.scs[i_mark][0]
            tf = fault_tick(M.per_tick(msc, results[i_mark]), chans[f])
            if tf is not None:
                strikes.append((tf, f))
    elif case["kind"] == "device":
        bsc = plan.scs[case["base"]][0]
        B = M.per_tick(bsc, results[case["base"]])
        n = 0
        for t, (calls, _, _) in enumerate(B):
            for c in calls:
                if c[0] in ("on", "ctl", "pgm"):
                    if n == case["j"]:
                        strikes.append((t, chans.index(M.owner_of(c, cb_owner))))
                    n += 1
    strikes.sort()
    case["strikes"] = strikes
    if case["kind"] == "stopcls":
        if "exc" in results_:
            bad.append(("stop-subclass-escaped", "a subclass of StopIteration raised by the pattern is the end of its stream, yet tick %d raised (%r)"
                        % (results_.index("exc"), escaped_on_tick(sc, r).get(results_.index("exc")))))
            return bad
        for t, x in enumerate(times):
            if abs(x - (t + 1)) > 1e-6:
                bad.append(("clock", "after %d ticks Timeline.current_time is %r ticks" % (t + 1, x))); break
        rsc, rids, rdesc = plan.scs[case["minus"]]
        R = M.per_tick(rsc, results[case["minus"]])
        for k in range(len(chans)):
            if k not in case["f"] and proj(J, chans[k], cb_owner) != proj(R, chans[k], cb_owner):
                bad.append(("interference", "a track whose pattern ends with a StopIteration subclass changed the trace of the track on channel %d" % chans[k]))
                break
        return bad
    if case.get("late_at") is not None:
        case["after"] = "fault-before-the-reschedule" if (strikes and strikes[0][0] < case["late_at"]) else "no-fault-before-the-reschedule"
        if case["after"] != "fault-before-the-reschedule":
            # the failing track is still alive when the name is used again: the call updates it, as it should - nothing to judge here
            # beyond the model comparison
            case["strikes"] = []
            return bad
    if case["kind"] in ("stream", "device"):
        first = strikes[0][0] if strikes else None
        # the mode that counts is the one in force when the fault strikes
        ignore = flag_at(case["ctor"], case["flips"], first if first is not None else 0)
        case["eff_ignore"] = ignore
        if first is None and case["flips"]:
            ignore = True          # no fault is reached: nothing may escape, whatever the switch does
        if ignore:
            if "exc" in results_:
                bad.append(("exception-escaped", "ignore_exceptions is set (constructor %r, assignments (after tick n, value) %r; fault strikes %r), yet tick %d raised"
                            % (case["ctor"], case["flips"], strikes[:2], results_.index("exc"))))
                return bad
            for t, x in enumerate(times):
                if abs(x - (t + 1)) > 1e-6:
                    bad.append(("clock", "after %d ticks Timeline.current_time is %r ticks" % (t + 1, x))); break
            failing = set(f for _, f in strikes)
            # the failing tracks leave on the tick of their fault
            for tf, f in strikes:
                if ids[f] in J[tf][2]:
                    bad.append(("not-removed", "track on channel %d faults on tick %d but is still scheduled after it" % (chans[f], tf)))
            # healthy tracks: identical to the run without the failing track(s)
            if case["kind"] == "stream":
                ref_i = case["minus"] if len(failing) == len(case["f"]) else None
                if len(failing) < len(case["f"]):
                    ref_i = None          # a fault that never strikes: its track is healthy too; compared below through the marker runs
                healthy = [k for k in range(len(chans)) if k not in case["f"]]
            else:
                ref_i = case["minus_of"][strikes[0][1]] if strikes else case["base"]
                healthy = [k for k in range(len(chans)) if not strikes or k != strikes[0][1]]
            if ref_i is not None:
                rsc, rids, rdesc = plan.scs[ref_i]
                R = M.per_tick(rsc, results[ref_i])
                rchan = [t["chan"] for t in rdesc["tracks"]]
                for k in healthy:
                    pj, pr = proj(J, chans[k], cb_owner), proj(R, chans[k], cb_owner)
                    if pj != pr:
                        t = next(t for t in range(len(pj)) if pj[t] != pr[t])
                        bad.append(("interference", "healthy track on channel %d: tick %d has %r, in the run without the failing track(s) %r it has %r (fault strikes: %r)"
                                    % (chans[k], t, pj[t], [chans[f] for f in sorted(failing)], pr[t], strikes)))
                        break
                    kk = rchan.index(chans[k])
                    for t in range(len(J)):
                        if (ids[k] in J[t][2]) != (rids[kk] in R[t][2]):
                            bad.append(("interference-presence", "healthy track on channel %d is %s after tick %d, but %s in the run without the failing track"
                                        % (chans[k], "scheduled" if ids[k] in J[t][2] else "gone", t, "scheduled" if rids[kk] in R[t][2] else "gone")))
                            break
            # the failing track itself: what it did before the fault, then only the releases of what it had sounded
            if case["kind"] == "stream":
                for f, i_mark in zip(case["f"], case["mark"]):
                    msc = plan.scs[i_mark][0]
                    Mk = M.per_tick(msc, results[i_mark])
                    want = [[c for c in row if not (c[0] == "ctl" and c[1] == MARK_CTL and c[2] == MARK_VAL)] for row in proj(Mk, chans[f], cb_owner)]
                    got = proj(J, chans[f], cb_owner)
                    if want != got and len(case["f"]) == 1:
                        t = next(t for t in range(len(got)) if got[t] != want[t])
                        bad.append(("failing-track-trace", "failing track on channel %d: tick %d has %r, expected %r (its events before the fault, then the releases of its sounding notes)"
                                    % (chans[f], t, got[t], want[t])))
            elif strikes:
                tf, f = strikes[0]
                base_p = proj(M.per_tick(plan.scs[case["base"]][0], results[case["base"]]), chans[f], cb_owner)
                # position of the failing call among the emitting calls of its own track
                n, jl = 0, None
                Bf = M.per_tick(plan.scs[case["base"]][0], results[case["base"]])
                nl = 0
                for t, (calls, _, _) in enumerate(Bf):
                    for c in calls:
                        if c[0] in ("on", "ctl", "pgm"):
                            if n == case["j"]:
                                jl = nl
                            if M.owner_of(c, cb_owner) == chans[f]:
                                nl += 1
                            n += 1
                got = proj(J, chans[f], cb_owner)
                ok, why = device_fault_trace_ok(base_p, got, jl)
                if not ok:
                    bad.append(("failing-track-trace", "device fault on call %d (track on channel %d, tick %d): %s; its trace %r, fault-free %r"
                                % (case["j"], chans[f], tf, why, [r_ for r_ in got if r_][:8], [r_ for r_ in base_p if r_][:8])))
        else:
            if first is None:
                if "exc" in results_:
                    bad.append(("spurious-exception", "no fault is reached, yet tick %d raised" % results_.index("exc")))
            else:
                if results_[first] != "exc" or "exc" in results_[:first]:
                    bad.append(("not-propagated", "ignore_exceptions is off (constructor %r, assignments %r) and the fault strikes on tick %d: tick results around it %r"
                                % (case["ctor"], case["flips"], first, results_[max(0, first - 2):first + 2])))
                elif len(case.get("f", [0])) == 1:
                    # "the same exception propagates to the caller": its class is the class raised at the site
                    want_cls = site_class(case["item"], catalogue) if case["kind"] == "stream" else case.get("exc")
                    got = escaped_on_tick(sc, r).get(first)
                    case["exc_class"] = want_cls
                    if want_cls and got and got[0] != want_cls:
                        bad.append(("other-exception", "the fault site raises %s, tick %d let %s out (MRO %r)" % (want_cls, first, got[0], got[1])))
    elif case["kind"] in ("cb_exc", "cb_stop"):
        f = case["f"][0]
        nsc = plan.scs[case["none"]][0]
        N = M.per_tick(nsc, results[case["none"]])
        if "exc" in results_:
            bad.append(("callback-exception-escaped", "an exception raised by an action callback escaped tick %d (ignore_exceptions=%r)"
                        % (results_.index("exc"), case["ignore"])))
            return bad
        for t, x in enumerate(times):
            if abs(x - (t + 1)) > 1e-6:
                bad.append(("clock", "after %d ticks Timeline.current_time is %r ticks" % (t + 1, x))); break
        if case["kind"] == "cb_exc":
            if [c for c, _, _ in J] != [c for c, _, _ in N] or [i for _, _, i in J] != [i for _, _, i in N]:
                t = next(t for t in range(len(J)) if J[t] != N[t])
                bad.append(("callback-exception-stops-track", "with the callback raising an Exception tick %d is %r, with the same callback not raising it is %r"
                            % (t, J[t], N[t])))
        else:
            # tick of the first call of the callback
            tc = next((t for t in range(len(N)) if ["cb", case["cb"]] in N[t][0]), None)
            ch = chans[f]
            if tc is not None:
                pend = 0
                for t in range(tc + 1):
                    for c in N[t][0]:
                        if c == ["cb", case["cb"]] and t == tc:
                            break
                        if M.owner_of(c, cb_owner) == ch:
                            pend += 1 if c[0] == "on" else (-1 if c[0] == "off" else 0)
                case["cbstop_pending"] = pend
                if pend == 0:
                    got = proj(J, ch, cb_owner)
                    want = proj(N, ch, cb_owner)
                    want = want[:tc] + [want[tc][:want[tc].index(["cb", case["cb"]]) + 1]] + [[] for _ in want[tc + 1:]]
                    if got != want:
                        t = next(t for t in range(len(got)) if got[t] != want[t])
                        bad.append(("callback-stop", "StopIteration from the callback on tick %d (nothing pending): tick %d of the track is %r, expected %r"
                                    % (tc, t, got[t], want[t])))
                    if desc["tracks"][f]["rwd"] and ids[f] in J[tc][2]:
                        bad.append(("callback-stop", "StopIteration from the callback on tick %d (nothing pending, remove_when_done): the track is still scheduled" % tc))
                else:
                    # notes of the track are still sounding when the callback raises StopIteration: the track draws no further
                    # event, but every sounding note is still released, on the tick on which it is released without the raise
                    got = proj(J, ch, cb_owner)
                    want = proj(N, ch, cb_owner)
                    sounding = {}
                    for t in range(tc + 1):
                        for c in want[t]:
                            if c == ["cb", case["cb"]] and t == tc:
                                break
                            if c[0] == "on":
                                sounding[(c[1], c[3])] = sounding.get((c[1], c[3]), 0) + 1
                            elif c[0] == "off":
                                sounding[(c[1], c[2])] = sounding.get((c[1], c[2]), 0) - 1
                    later_same = any(c[0] == "on" and sounding.get((c[1], c[3]), 0) > 0
                                     for t in range(tc, len(want)) for c in want[t]
                                     if not (t == tc and want[tc].index(c) <= want[tc].index(["cb", case["cb"]])))
                    exp = want[:tc] + [want[tc][:want[tc].index(["cb", case["cb"]]) + 1]]
                    if later_same:
                        # without the raise the track goes on to play a sounding pitch again, so the releases of the run
                        # without the raise cannot be attributed: not judged here (the model comparison still covers it)
                        case["cbstop_pending"] = None
                        got = exp = []
                    for t in range(tc + 1, len(want) if not later_same else 0):
                        row = []
                        for c in want[t]:
                            if c[0] == "off" and sounding.get((c[1], c[2]), 0) > 0:
                                sounding[(c[1], c[2])] -= 1
                                row.append(c)
                        exp.append(row)
                    if got != exp:
                        t = next(t for t in range(len(got)) if got[t] != exp[t])
                        bad.append(("callback-stop", "StopIteration from the callback on tick %d while %d note(s) of the track were sounding: tick %d of the "
                                    "track is %r, expected %r (no further event, every sounding note released on time)" % (tc, pend, t, got[t], exp[t])))
                # the others are untouched
                for k in range(len(chans)):
                    if k != f and proj(J, chans[k], cb_owner) != proj(N, chans[k], cb_owner):
                        bad.append(("interference", "a callback StopIteration on channel %d changed the trace of the track on channel %d" % (ch, chans[k])))
                        break
    return bad


def check(run):
    rng = run.rng
    if run.tier == "quick":
        n_base, per_base = 60, 4
    else:
        n_base, per_base = 500, 0
    plan, cases = gen_cases(rng, n_base, per_base)
    parts = [plan.fin[i::14] for i in range(14) if plan.fin[i::14]]
    outs = run.impl_parallel("c17_impl", [{"scenarios": p, "catalogue": i == 0} for i, p in enumerate(parts)])
    catalogue = outs[0].get("catalogue") or {}
    dead = sorted(k for k, v in catalogue.items() if v is None)
    if dead or not catalogue:
        raise CheckError("fault catalogue of impl/c17_impl.py: these entries do not raise on this tree (replace them): %s" % (dead or "no catalogue"))
    run.cov["fault_catalogue_measured"] = {k: v[0] for k, v in sorted(catalogue.items())}
    results = [None] * len(plan.fin)
    for si, out in enumerate(outs):
        for j, r in enumerate(out["results"]):
            results[si + j * 14] = r
    flagged = set()
    forms_fired = {}
    for i, r in enumerate(results):
        if "driver_error" in r:
            flagged.add(i)
            run.violation({"kind": "driver-error", "site": "Timeline"}, {"scenario": plan.fin[i], "observed": r}, found_input=True)
    for case in cases:
        run.count()
        need = [case["run"]] + [case[k] for k in ("minus", "base", "none", "ticks", "probe", "file", "file-", "port", "port-", "file-intolerant", "hand")
                                if isinstance(case.get(k), int)] + list(case.get("mark", []))
        if any(i in flagged for i in need):
            continue
        bad = judge(case, plan, results, catalogue)
        run.cov["oracle_evaluations"] += 1
        run.dist("site." + case["site"])
        eff = case.get("eff_ignore", case["ignore"])
        run.dist("mode." + ("tolerant" if eff else "intolerant"))
        if case.get("flips"):
            # the switch assigned on the existing Timeline: what the constructor was given vs what is in force at the fault
            run.dist("reconf.%s.constructed-%s.in-force-%s" % (case.get("setup", "?"), "on" if case["ctor"] else "off", "on" if eff else "off"))
            run.dist("reconf.assignments", len(case["flips"]))
            if case.get("strikes") and eff != case["ctor"]:
                run.dist("reconf.fault-under-a-mode-other-than-the-constructor's")
        if case.get("exc_class"):
            run.dist("class." + case["exc_class"])
        elif case["kind"] in ("stream", "run") and case.get("item"):
            run.dist("class." + str(site_class(case["item"], catalogue)))
        elif case.get("exc"):
            run.dist("class." + case["exc"])
        if case.get("form"):
            fired = any(c == ["cb", case["cb"]] for o_ in results[case["run"]].get("obs", []) for c in o_[1])
            run.dist("callback-form.%s.raises-%s.%s" % (case["form"], "StopIteration" if case["raise"] == "stop" else "exception",
                                                         "fired" if fired else "NOT-FIRED"))
            if fired:
                forms_fired.setdefault(case["form"], set()).add(case["raise"])
        if case.get("after"):
            run.dist("after-fault." + case["after"])
            if case["after"] == "fault-before-the-reschedule":
                for o_ in case["later"]:
                    run.dist("after-fault.later-" + o_)
                if case["limit"]:
                    run.dist("after-fault.track-limit-reached-before-the-fault")
        if case["kind"] == "life":
            run.dist("life.first-run-" + case["first"])
            run.dist("life.between." + ("+".join(case["between"]) or "nothing"))
            if case["again"]:
                run.dist("life.three-runs")
        if case["kind"] == "realdev":
            run.dist("realdev.devices", 2 if "port" in case else 1)
            if case.get("strikes"):
                run.dist("realdev.refused-" + {"note": "note_on", "control": "control", "program": "program_change"}[case["item"]["k"]])
                run.dist("realdev.refused-after-a-gap-first-in-its-tick" if case.get("rd_gap") else "realdev.refused-behind-another-message-of-its-tick-or-at-the-start")
        run.dist("tracks.%d" % len(case["desc"]["tracks"]))
        st = case.get("strikes")
        if st is not None:
            run.dist("fault-strikes" if st else "fault-never-reached")
            if st:
                f = st[0][1]
                run.dist("failing-track." + ("first" if f == 0 else "last" if f == len(case["desc"]["tracks"]) - 1 else "middle"))
        if case.get("cbstop_pending") is not None:
            run.dist("cbstop.pending" if case["cbstop_pending"] else "cbstop.nothing-pending")
        if (st or case["kind"] in ("cb_exc", "cb_stop", "run", "stopcls")) and len(case["desc"]["tracks"]) >= 2:
            run.nontrivial(json.dumps(plan.fin[case["run"]], sort_keys=True))
        seen = set()
        for kind_, detail in bad:
            if kind_ in seen:
                continue
            seen.add(kind_); flagged.add(case["run"])
            run.violation({"kind": kind_, "site": case["site"], "mode": "tolerant" if eff else "intolerant"}, {
                "scenario": plan.fin[case["run"]], "observed": detail,
                "fault": {k: case[k] for k in ("kind", "site", "f", "idx", "j", "cb", "ignore", "ctor", "flips", "item", "exc", "exc_class") if k in case},
                "strikes (tick, track index)": case.get("strikes"),
                "reference_scenarios": {k: plan.fin[case[k]] for k in ("minus", "base", "none", "ticks", "probe", "file-", "port", "port-", "file-intolerant", "hand") if isinstance(case.get(k), int)},
                "oracle": "containment / non-interference / clock oracle of harness/c17.py",
                "trace_head": results[case["run"]].get("obs", results[case["run"]].get("file", []))[:30],
                "python": "PYTHONPATH=/repo /venv/bin/python /verif/harness/impl/c17_impl.py <<< '{\"scenarios\": [<scenario>]}'"})
        if len(run.cov["samples"]) < 3 and st:
            run.sample({"fault": {k: case[k] for k in ("kind", "site", "f", "idx", "j", "ignore") if k in case}, "strikes": st,
                        "ops": [o[0] if o[0] != "tick" else o for o in plan.scs[case["run"]][0]["ops"]]})
    # coverage floor: in every run a raising callback of every callable form has actually fired
    missing_forms = [f_ for f_ in CB_FORMS if forms_fired.get(f_, set()) != {"exc", "stop"}]
    if missing_forms and not run.violations:
        raise CheckError("callback forms without a fired raising callback (exception AND StopIteration) in this run: %s" % missing_forms)
    # model vs implementation on every tick()-driven run (faulty runs and reference runs), calls and clock
    tickable = [i for i in range(len(plan.fin)) if not any(o[0] in LIFE_OPS for o in plan.fin[i]["ops"]) and "driver_error" not in results[i]
                and not plan.fin[i]["config"].get("device")]
    fin = [plan.fin[i] for i in tickable]
    res = [results[i] for i in tickable]
    bad = r_model_disagreements(run, fin, res, chunk=30)
    run.cov["traces_validated_against_impl"] = len(fin) - len(bad)
    run.cov["traces_with_reassigned_switch_validated_against_model"] = sum(
        1 for j, sc in enumerate(fin) if j not in bad and any(o[0] == "set_ignore" for o in sc["ops"]))
    for j in bad:
        if tickable[j] in flagged:
            continue
        r_report_disagreement(run, fin[j], res[j], "correspondence", "Timeline/Track")
    terms = []
    for sc, r in zip(fin, res):
        x = F(r["now_ticks"]).limit_denominator(10 ** 6) * (sc["U"] // sc["tpb"])
        terms.append("(now (rrun_state %s tl0 (rexpand %s)) =? %s)" % (S.coq_config(sc), r_history(sc), zlit(int(x)) if x.denominator == 1 else "(-1)"))
    badn = run.coq_failing(RHEADER, terms, chunk=40)
    run.cov["clock_values_validated_against_model"] = len(terms) - len(badn)
    for j in badn:
        if tickable[j] in flagged or j in bad:
            continue
        r_report_disagreement(run, fin[j], res[j], "clock", "Timeline.tick",
                              extra={"broken": "the model's clock after this history differs from Timeline.current_time (%r ticks)" % res[j]["now_ticks"]})
    # the lives of re-used timelines against Sched/RunLoop.v: the calls of every tick of every run, how each run ended, the clock
    lterms, lwhere = [], []
    for case in cases:
        if case["kind"] != "life" or case["run"] in flagged or "driver_error" in results[case["run"]]:
            continue
        t = life_term(case, plan, results)
        if t is None:
            run.discard("life: a run that did not end by itself")
            continue
        lterms.append(t); lwhere.append(case)
    badl = run.coq_failing(LHEADER, ["life_agrees " + t for t in lterms], chunk=30)
    if badl:
        unk = set(run.coq_failing(LHEADER, ["negb (life_unknown %s %s)" % (
            S.coq_config(plan.fin[lwhere[j]["run"]]), l_term(plan.fin[lwhere[j]["run"]])) for j in badl], chunk=30))
        keep = []
        for jj, j in enumerate(badl):
            if jj in unk:
                run.discard("life: model budget / fuel")
            else:
                keep.append(j)
        badl = keep
    run.cov["timeline_lives_validated_against_model"] = len(lterms) - len(badl)
    run.cov["traces_validated_against_impl"] += len(lterms) - len(badl)
    for j in badl:
        case = lwhere[j]
        run.violation({"kind": "correspondence", "site": "reused-timeline"}, {
            "broken": "correspondence Sched/RunLoop.v (run_loop / life over Sched/Model.v) <-> isobar Timeline.run()/background()/stop()/reset() on this life",
            "scenario": plan.fin[case["run"]], "observed": results[case["run"]].get("runs"),
            "model": run.coq_eval(LHEADER, "runs_of (life %s tl0 %s)" % (S.coq_config(plan.fin[case["run"]]), l_term(plan.fin[case["run"]])))[:2000],
            "python": "PYTHONPATH=/repo /venv/bin/python /verif/harness/impl/c17_impl.py <<< '{\"scenarios\": [<scenario>]}'"}, found_input=False)
    # real devices: the file / the port log against the model (scheduler run under dev_fail = the refused call, composed with the
    # device state machine of IO/FileWire.v), and the hypotheses of the file theorem on the generated histories
    dterms, dwhere = [], []
    for case in cases:
        if case["kind"] != "realdev" or case["run"] in flagged or any(
                "driver_error" in results[case[k]] for k in ("probe", "file", "file-", "port", "port-") if k in case):
            continue
        for what, t in realdev_terms(case, plan, results):
            dterms.append(t); dwhere.append((case, what))
    badd = run.coq_failing(DHEADER, dterms, chunk=30)
    run.cov["device_runs_validated_against_model"] = sum(1 for j, (_, w) in enumerate(dwhere) if w != "theorem-instance" and j not in badd)
    run.cov["file_theorem_instances_checked"] = sum(1 for j, (_, w) in enumerate(dwhere) if w == "theorem-instance" and j not in badd)
    run.cov["traces_validated_against_impl"] += run.cov["device_runs_validated_against_model"]
    for j in badd:
        case, what = dwhere[j]
        dk = what if what in ("file", "port") else "file"
        run.violation({"kind": "correspondence" if what != "theorem-instance" else "file-theorem-instance", "site": "device-refusal", "device": dk}, {
            "broken": ("correspondence Sched/Model.v + Sched/DevFile.v (IO/FileWire.v) <-> isobar Timeline + %s on this history: the file theorems of "
                       "Props/C17.v no longer speak about this code" % ("MidiFileOutputDevice" if dk == "file" else "MidiOutputDevice"))
            if what != "theorem-instance" else "the hypotheses of C17_file_same_as_without_refused (uncoupled, hist_wf, all_ticks_ok, own_clean) on this history",
            "scenario": plan.fin[case[dk]], "refused call (number among note_on/control/program_change, tick)": [case.get("j"), case.get("strikes")],
            "observed": results[case[dk]].get(dk), "term": dterms[j][:3000],
            "python": "PYTHONPATH=/repo /venv/bin/python /verif/harness/impl/c17_impl.py <<< '{\"scenarios\": [<scenario>]}'"}, found_input=False)
    run.cov["rule"] = ("one case = one faulty run judged by the oracle: a C07-style joint scenario (1-6 tracks, distinct channels) with a fault "
                       "injected at a (failing track, event index) of the base scenario - a failing pattern expression of the catalogue (22 "
                       "expressions, 15 exception classes) evaluated inside next(event_stream), an event dict Event() rejects, the j-th device "
                       "call raising, an action callback raising an Exception of some class / StopIteration, a StopIteration subclass from the "
                       "pattern, two faults - in one tolerance set-up (the constructor argument alone, or the attribute assigned on the existing "
                       "Timeline once or several times), through tick() or run(); non-trivial = the fault is reached and at least one other track "
                       "is scheduled; distinct by scenario text")


def replay(run, doc):
    fsc = doc["scenario"]
    out = run.impl("c17_impl", {"scenarios": [fsc]})["results"][0]
    print("observed:", json.dumps(out.get("obs", out))[:1800])
    print("times:", out.get("times", [])[:40])
    if "run" in out:
        print("run():", json.dumps(out["run"])[:800])
        return 0
    print("escaped:", out.get("escaped", [])[:10])
    bad = r_model_disagreements(run, [fsc], [out]) if "driver_error" not in out else [0]
    print("replay: implementation/model agree:", not bad)
    if bad:
        print("model:", r_model_trace(run, fsc)[:1500])
    print("see 'observed' / 'reference_scenarios' in the replay file for the oracle's verdict")
    return 1 if bad else 0

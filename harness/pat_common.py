"""Engine P: the generic correspondence runner shared by the pattern properties (C04 C08 C09 C10 C11 C12).

  * expression trees (`E`, `Infix`, `Unary`) with
      to_source(expr)  Python source text of the expression (`iso.PStutter(iso.PSequence([1, 2], 1), 2)`),
      to_python(expr)  the real isobar objects (eval of that text: a fresh object per node),
      to_coq(expr)     the Coq term of type pexpr (Pat/Syntax.v),
      to_json / from_json for the trip to the implementation driver;
  * operation scripts (next / nextn / all / len / reset / copy / for) executed by
    harness/impl/pat_impl.py on the implementation and by Pat/Script.v on the model; the implementation's
    observations are embedded as a literal and compared INSIDE Coq with typed equality (`run_cases`);
  * a typed, mostly-valid random generator of expressions (`Gen`) driven by a per-class registry
    (`REGISTRY`, checked against inspect.signature of the live classes), with depth control,
    finiteness tracking, per-class coverage floors and distribution counters;
  * shrinking of a disagreeing case (`shrink`).

Values: None, bool, int, float (small dyadic rationals only: the model's arithmetic on them is exact),
str, tuple, list, dict with str keys.  Observations are typed: 1, 1.0 and True differ.
"""
import json, math, os, subprocess, sys
from fractions import Fraction
from common import *

SYS_MAXSIZE = 9223372036854775807


class Unrepresentable(Exception):
    """the value / expression has no image in the model's value domain: the case is discarded"""


# ------------------------------------------------------------------------------------------------
# expression trees
# ------------------------------------------------------------------------------------------------
class E:
    """constructor call: E("PStutter", child, 2)"""
    __slots__ = ("cls", "args")

    def __init__(self, cls, *args):
        self.cls = cls
        self.args = list(args)

    def __repr__(self):
        return to_source(self)


class Infix:
    """expression written with a Python operator: Infix("-", 2, E(...)); at least one side is a pattern"""
    __slots__ = ("op", "lhs", "rhs")

    def __init__(self, op, lhs, rhs):
        self.op, self.lhs, self.rhs = op, lhs, rhs

    def __repr__(self):
        return to_source(self)


class Unary:
    """-p or abs(p)"""
    __slots__ = ("op", "x")

    def __init__(self, op, x):
        assert op in ("neg", "abs")
        self.op, self.x = op, x

    def __repr__(self):
        return to_source(self)


def is_pat(x):
    return isinstance(x, (E, Infix, Unary))


BINOPS = {  # class name -> (python symbol, Coq op)
    "PAdd": ("+", "OAdd"), "PSub": ("-", "OSub"), "PMul": ("*", "OMul"), "PDiv": ("/", "ODiv"),
    "PFloorDiv": ("//", "OFloorDiv"), "PMod": ("%", "OMod"), "PPow": ("**", "OPow"),
    "PLShift": ("<<", "OLShift"), "PRShift": (">>", "ORShift"), "PEqual": ("==", "OEq"),
    "PNotEqual": ("!=", "ONe"), "PGreaterThan": (">", "OGt"), "PGreaterThanOrEqual": (">=", "OGe"),
    "PLessThan": ("<", "OLt"), "PLessThanOrEqual": ("<=", "OLe"),
}
SYM2OP = {sym: "(SOp %s)" % coq for (sym, coq) in BINOPS.values()}
SYM2OP["&"] = "SAnd"

COQ_CLS = {name: "(CBinOp %s)" % coq for name, (_, coq) in BINOPS.items()}
COQ_CLS.update({
    "PAnd": "CAnd", "PConstant": "CConstant", "PRef": "CRef", "PConcatenate": "CConcatenate", "PAbs": "CAbs",
    "PInt": "CInt", "PSequence": "CSequence", "PSeries": "CSeries", "PRange": "CRange", "PGeom": "CGeom",
    "PImpulse": "CImpulse", "PLoop": "CLoop", "PPingPong": "CPingPong", "PStutter": "CStutter",
    "PSubsequence": "CSubsequence", "PReverse": "CReverse", "PReset": "CReset", "PCounter": "CCounter",
    "PCollapse": "CCollapse", "PNoRepeats": "CNoRepeats", "PPad": "CPad", "PPadToMultiple": "CPadToMultiple",
    "PChanged": "CChanged", "PDiff": "CDiff", "PSkipIf": "CSkipIf", "PRound": "CRound", "PWrap": "CWrap",
    "PIndexOf": "CIndexOf", "PArrayIndex": "CArrayIndex", "PDict": "CDict", "PDictKey": "CDictKey",
})

# parameters of each modelled class as the model's `construct` expects them (name, default); a class whose
# live signature differs is reported (the registry is what `to_coq` uses to fill in defaults).
NODEFAULT = "<required>"
VARARGS = "<*args>"
REGISTRY = {
    "PConstant": [("constant", NODEFAULT)], "PRef": [("pattern", NODEFAULT)], "PConcatenate": [("inputs", NODEFAULT)],
    "PAbs": [("input", NODEFAULT)], "PInt": [("input", NODEFAULT)],
    "PArrayIndex": [("list", NODEFAULT), ("index", NODEFAULT)], "PDict": [("value", None)],
    "PDictKey": [("dict", NODEFAULT), ("key", NODEFAULT)],
    "PSequence": [("sequence", None), ("repeats", SYS_MAXSIZE)],
    "PSeries": [("start", 0), ("step", 1), ("length", SYS_MAXSIZE)],
    "PRange": [("start", 0), ("end", 128), ("step", 1)],
    "PGeom": [("start", 1), ("multiply", 2), ("length", SYS_MAXSIZE)],
    "PImpulse": [("period", NODEFAULT)], "PLoop": [("pattern", NODEFAULT), ("count", SYS_MAXSIZE)],
    "PPingPong": [("pattern", NODEFAULT), ("count", 1)], "PStutter": [("pattern", NODEFAULT), ("count", 2)],
    "PSubsequence": [("pattern", NODEFAULT), ("offset", NODEFAULT), ("length", NODEFAULT)],
    "PReverse": [("input", NODEFAULT)], "PReset": [("pattern", NODEFAULT), ("trigger", NODEFAULT)],
    "PCounter": [("trigger", NODEFAULT)], "PCollapse": [("input", NODEFAULT)], "PNoRepeats": [("input", NODEFAULT)],
    "PPad": [("pattern", NODEFAULT), ("length", NODEFAULT)],
    "PPadToMultiple": [("pattern", NODEFAULT), ("multiple", NODEFAULT), ("minimum_pad", 0)],
    "PChanged": [("source", NODEFAULT)], "PDiff": [("source", NODEFAULT)],
    "PSkipIf": [("pattern", NODEFAULT), ("skip", NODEFAULT)],
    "PRound": [("input", NODEFAULT), ("args", VARARGS)],
    "PWrap": [("pattern", NODEFAULT), ("min", 40), ("max", 80)],
    "PIndexOf": [("list", NODEFAULT), ("item", NODEFAULT)],
}
for _n in list(BINOPS) + ["PAnd"]:
    REGISTRY[_n] = [("a", NODEFAULT), ("b", NODEFAULT)]


def full_args(e):
    """argument list of a constructor call with the registry's defaults filled in"""
    params = REGISTRY[e.cls]
    args = list(e.args)
    if params and params[-1][1] == VARARGS:
        fixed = params[:-1]
        if len(args) < len([p for p in fixed if p[1] == NODEFAULT]):
            raise Unrepresentable("too few arguments for %s" % e.cls)
        return args
    if len(args) > len(params):
        raise Unrepresentable("too many arguments for %s" % e.cls)
    for name, d in params[len(args):]:
        if d == NODEFAULT:
            raise Unrepresentable("missing argument %s of %s" % (name, e.cls))
        args.append(d)
    return args


# ---- Python source text ------------------------------------------------------------------------------
def scalar_source(v):
    if v is None or isinstance(v, (bool, str)):
        return repr(v)
    if isinstance(v, int):
        return "(%r)" % v if v < 0 else repr(v)          # -3 ** p is -(3 ** p)
    if isinstance(v, float):
        if v != v or v in (float("inf"), float("-inf")):
            return "float(%r)" % repr(v)
        return "(%r)" % v if math.copysign(1.0, v) < 0 else repr(v)
    raise TypeError("scalar_source: %r" % (v,))


def to_source(x):
    if isinstance(x, E):
        return "iso.%s(%s)" % (x.cls, ", ".join(to_source(a) for a in x.args))
    if isinstance(x, Infix):
        return "(%s %s %s)" % (to_source(x.lhs), x.op, to_source(x.rhs))
    if isinstance(x, Unary):
        return "(-%s)" % to_source(x.x) if x.op == "neg" else "abs(%s)" % to_source(x.x)
    if isinstance(x, tuple):
        return "(" + ", ".join(to_source(a) for a in x) + ("," if len(x) == 1 else "") + ")"
    if isinstance(x, list):
        return "[" + ", ".join(to_source(a) for a in x) + "]"
    if isinstance(x, dict):
        return "{" + ", ".join("%r: %s" % (k, to_source(v)) for k, v in x.items()) + "}"
    return scalar_source(x)


def to_python(x, iso=None):
    if iso is None:
        import isobar as iso
    return eval(to_source(x), {"iso": iso})


# ---- JSON ---------------------------------------------------------------------------------------------
def to_json(x):
    if isinstance(x, E):
        return {"c": x.cls, "a": [to_json(a) for a in x.args]}
    if isinstance(x, Infix):
        return {"i": x.op, "l": to_json(x.lhs), "r": to_json(x.rhs)}
    if isinstance(x, Unary):
        return {"u": x.op, "x": to_json(x.x)}
    if isinstance(x, tuple):
        return {"t": [to_json(a) for a in x]}
    if isinstance(x, list):
        return {"l": [to_json(a) for a in x]}
    if isinstance(x, dict):
        return {"d": [[k, to_json(v)] for k, v in x.items()]}
    if isinstance(x, float):
        return {"f": list(x.as_integer_ratio())} if math.isfinite(x) else {"f": repr(x)}
    return x


def from_json(j):
    if isinstance(j, dict):
        if "c" in j:
            return E(j["c"], *[from_json(a) for a in j["a"]])
        if "i" in j:
            return Infix(j["i"], from_json(j["l"]), from_json(j["r"]))
        if "u" in j:
            return Unary(j["u"], from_json(j["x"]))
        if "t" in j:
            return tuple(from_json(a) for a in j["t"])
        if "l" in j:
            return [from_json(a) for a in j["l"]]
        if "d" in j:
            return {k: from_json(v) for k, v in j["d"]}
        if "f" in j:
            return j["f"][0] / j["f"][1] if isinstance(j["f"], list) else float(j["f"])
        if "o" in j:
            return Opaque(j["o"])
        raise ValueError("from_json: %r" % (j,))
    return j


class Opaque:
    """a value the implementation returned that has no image in `val` (an object, inf, nan ...)"""

    def __init__(self, what):
        self.what = what

    def __repr__(self):
        return "<%s>" % self.what


def value_to_json(v, depth=0):
    """implementation values -> JSON (used by the driver)"""
    if v is None or isinstance(v, (bool, str)):
        return v
    if isinstance(v, int):
        return v if v.bit_length() <= 4096 else {"o": "huge-int"}
    if isinstance(v, float):
        return {"f": list(v.as_integer_ratio())} if math.isfinite(v) else {"o": "float:" + repr(v)}
    if depth > 6:
        return {"o": "deep"}
    if isinstance(v, tuple):
        return {"t": [value_to_json(a, depth + 1) for a in v]}
    if isinstance(v, list):
        return {"l": [value_to_json(a, depth + 1) for a in v]}
    if isinstance(v, dict):
        if not all(isinstance(k, str) for k in v):
            return {"o": "dict-with-non-str-keys"}
        return {"d": [[k, value_to_json(a, depth + 1)] for k, a in v.items()]}
    return {"o": type(v).__name__}


# ---- Coq terms ----------------------------------------------------------------------------------------
def dyadic_ok(fr):
    d = fr.denominator
    return d & (d - 1) == 0 and abs(fr.numerator) < (1 << 53) and d <= (1 << 256)


def val_coq(v):
    if isinstance(v, Opaque):
        raise Unrepresentable(v.what)
    if v is None:
        return "VNone"
    if isinstance(v, bool):
        return "(VBool %s)" % blit(v)
    if isinstance(v, int):
        return "(VInt %s)" % zlit(v)
    if isinstance(v, float):
        if not math.isfinite(v):
            raise Unrepresentable("non-finite float")
        fr = Fraction(v)
        if not dyadic_ok(fr):
            raise Unrepresentable("float outside the exact range")
        return "(VFlt (%s # %d))" % (zlit(fr.numerator), fr.denominator)
    if isinstance(v, str):
        try:
            return "(VStr %s)" % slit(v)
        except TypeError:
            raise Unrepresentable("non-ASCII str")
    if isinstance(v, tuple):
        return "(VTup %s)" % lst([val_coq(a) for a in v])
    if isinstance(v, list):
        return "(VList %s)" % lst([val_coq(a) for a in v])
    if isinstance(v, dict):
        return "(VDict %s)" % lst(["(%s, %s)" % (key_coq(k), val_coq(a)) for k, a in v.items()])
    raise Unrepresentable("value %r" % (v,))


def key_coq(k):
    if not isinstance(k, str):
        raise Unrepresentable("non-str dict key")
    try:
        return slit(k)
    except TypeError:
        raise Unrepresentable("non-ASCII key")


def earg_coq(x):
    if is_pat(x):
        return "(EP %s)" % to_coq(x)
    if isinstance(x, tuple):
        return "(ET %s)" % lst([earg_coq(a) for a in x])
    if isinstance(x, list):
        return "(EL %s)" % lst([earg_coq(a) for a in x])
    if isinstance(x, dict):
        return "(ED %s)" % lst(["(%s, %s)" % (key_coq(k), earg_coq(a)) for k, a in x.items()])
    return "(EV %s)" % val_coq(x)


def to_coq(x):
    """Coq term of type pexpr"""
    if isinstance(x, E):
        if x.cls not in COQ_CLS:
            raise Unrepresentable("class %s is not modelled" % x.cls)
        return "(ECall %s %s)" % (COQ_CLS[x.cls], lst([earg_coq(a) for a in full_args(x)]))
    if isinstance(x, Infix):
        return "(dunder %s %s %s)" % (SYM2OP[x.op], earg_coq(x.lhs), earg_coq(x.rhs))
    if isinstance(x, Unary):
        return "(dunder_%s %s)" % (x.op, earg_coq(x.x))
    raise TypeError("to_coq: %r" % (x,))


EXN = {"TypeError", "ZeroDivisionError", "IndexError", "KeyError", "ValueError", "OverflowError", "AttributeError",
       "RuntimeError"}


def obs_coq(o):
    """observation (as produced by the driver, decoded) -> Coq term of type outcome val"""
    if o == "stop":
        return "Stop"
    if isinstance(o, dict) and "r" in o:
        return "(Raise %s)" % (o["r"] if o["r"] in EXN else "OtherError")
    if isinstance(o, dict) and "y" in o:
        return "(Yield %s)" % val_coq(from_json(o["y"]))
    raise Unrepresentable("observation %r" % (o,))


def op_coq(op):
    k = op[0]
    if k == "next":
        return "(SNext %d)" % op[1]
    if k == "nextn":
        return "(SNextN %d %d)" % (op[1], op[2])
    if k == "for":
        return "(SFor %d %d)" % (op[1], op[2])
    if k == "all":
        return "(SAll %d %s)" % (op[1], "LMAX" if op[2] is None else "%d" % op[2])
    if k == "len":
        return "(SLen %d)" % op[1]
    if k == "reset":
        return "(SReset %d)" % op[1]
    if k == "copy":
        return "(SCopy %d)" % op[1]
    raise ValueError(op)


def op_source(op, names=None):
    h = "p%d" % op[1]
    k = op[0]
    if k == "next":
        return "next(%s)" % h
    if k == "nextn":
        return "%s.nextn(%d)" % (h, op[2])
    if k == "for":
        return "[x for x, _ in zip(%s, range(%d))]  # for-loop, %d values" % (h, op[2], op[2])
    if k == "all":
        return "%s.all(%s)" % (h, "" if op[2] is None else op[2])
    if k == "len":
        return "len(%s)" % h
    if k == "reset":
        return "%s.reset()" % h
    if k == "copy":
        return "%s.copy()" % h
    raise ValueError(op)


HEADER = """From Isobar Require Import Base.Prelude Pat.Val Pat.Syntax Pat.Step Pat.Dunder Pat.Script Generated.TablesPat.
From Coq Require Import String QArith.
Open Scope Z_scope.
Definition LMAX : nat := Z.to_nat LENGTH_MAX.
Definition FUEL : nat := Z.to_nat 150000.
Definition cmpr := check_trace Val.binop LMAX FUEL.
Definition trc := trace Val.binop LMAX FUEL.
"""
CHUNK_TIMEOUT = 25
TERM_TIMEOUT = 6
EXTRA_TARGETS = ["Generated/TablesPat.vo", "Pat/Script.vo"]
EXTRA_GENERATORS = ["gen_tables_pat.py"]


def replay_snippet(expr, ops):
    lines = ["import isobar as iso", "p0 = %s" % to_source(expr)]
    n = 1
    for op in ops:
        if op[0] == "copy":
            lines.append("p%d = %s" % (n, op_source(op)))
            n += 1
        elif op[0] == "reset":
            lines.append(op_source(op))
        else:
            lines.append("print(%s)" % op_source(op))
    return "\n".join(lines)


# ------------------------------------------------------------------------------------------------
# running cases on both sides
# ------------------------------------------------------------------------------------------------
class Case:
    __slots__ = ("expr", "ops", "tag", "obs", "verdict", "status", "meta")

    def __init__(self, expr, ops, tag="", meta=None):
        self.expr, self.ops, self.tag = expr, ops, tag
        self.obs = None          # implementation observations (JSON form)
        self.verdict = None      # "agree" | "disagree" | "discard"
        self.status = None       # why discarded
        self.meta = meta or {}

    def describe(self):
        return {"expr": to_source(self.expr), "ops": [list(o) for o in self.ops]}

    def obs_pretty(self):
        return [pretty_obs(o) for o in (self.obs or [])]


def pretty_obs(o):
    if o == "stop":
        return "StopIteration"
    if isinstance(o, dict) and "r" in o:
        return "raise " + o["r"]
    if isinstance(o, dict) and "y" in o:
        return repr(from_json(o["y"]))
    return repr(o)


def run_impl(run, cases, shards=12, script="pat_impl"):
    """fill in case.obs for every case"""
    if not cases:
        return
    parts = [cases[i::shards] for i in range(shards) if cases[i::shards]]
    payloads = [{"cases": [{"expr": to_json(c.expr), "ops": [list(o) for o in c.ops]} for c in part]} for part in parts]
    outs = run.impl_parallel(script, payloads)
    for part, out in zip(parts, outs):
        for c, r in zip(part, out["cases"]):
            c.obs = r["obs"]
            c.status = r.get("status")


def run_model(run, cases, chunk=150):
    """compare inside Coq; sets case.verdict"""
    terms, idx = [], []
    for c in cases:
        if c.status:                                  # timeout / too long on the implementation side
            c.verdict = "discard"
            continue
        try:
            t = "cmpr %s %s %s" % (to_coq(c.expr), lst([op_coq(o) for o in c.ops]), lst([obs_coq(o) for o in c.obs]))
        except Unrepresentable as e:
            c.verdict, c.status = "discard", "unrepresentable: %s" % e
            continue
        terms.append(t)
        idx.append(c)
    if not terms:
        return
    chunks = [(i, terms[i:i + chunk]) for i in range(0, len(terms), chunk)]

    def coqc(name, ts, timeout):
        """verdict codes of the terms, or None when coqc did not finish within `timeout` seconds"""
        src = HEADER + "\nDefinition results : list verdict := [\n" + ";\n".join(ts) + "\n].\n" \
            "Eval vm_compute in (map verdict_code results).\n"
        run._coq_counter += 1
        path = os.path.join(run.work, "W%s_%s_%d.v" % (run.prop, name, run._coq_counter))
        with open(path, "w") as f:
            f.write(src)
        r = subprocess.run(["timeout", str(timeout), "coqc", "-Q", COQDIR, "Isobar", path],
                           capture_output=True, text=True, cwd=run.work)
        if r.returncode == 124:
            return None
        if r.returncode != 0:
            raise CheckError("coqc failed on %s:\n%s" % (path, (r.stdout + r.stderr)[-3000:]))
        return parse_nat_list(r.stdout)

    def one(ic):
        # the model is quadratic where Python is linear (list append / indexing): a chunk that does not finish
        # is re-run term by term and the terms that are too slow for the model are discarded (code 3)
        i0, ts = ic
        r = coqc("pat%d" % i0, ts, CHUNK_TIMEOUT)
        if r is not None:
            return r
        groups = [(j, ts[j:j + 10]) for j in range(0, len(ts), 10)]

        def small(jg):
            j, g = jg
            r1 = coqc("pat%d_%d" % (i0, j), g, TERM_TIMEOUT)
            if r1 is not None:
                return r1
            res = []
            for k, t in enumerate(g):
                r2 = coqc("pat%d_%d_%d" % (i0, j, k), [t], TERM_TIMEOUT)
                res.append(3 if r2 is None else r2[0])
            return res
        with ThreadPoolExecutor(max_workers=8) as ex2:
            return [c for r1 in ex2.map(small, groups) for c in r1]
    codes = []
    with ThreadPoolExecutor(max_workers=12) as ex:
        for r in ex.map(one, chunks):
            codes.extend(r)
    if len(codes) != len(terms):
        raise CheckError("model returned %d verdicts for %d cases" % (len(codes), len(terms)))
    for c, k in zip(idx, codes):
        c.verdict = ("agree", "disagree", "discard", "discard")[k]
        if k == 2:
            c.status = "model: Inexact/OutOfFuel"
        elif k == 3:
            c.status = "model-too-slow"


def model_trace(run, case):
    """the model's observation list for a case, as printed by Coq (diagnostics / replays)"""
    try:
        return run.coq_eval(HEADER, "trc %s %s" % (to_coq(case.expr), lst([op_coq(o) for o in case.ops])))
    except Unrepresentable as e:
        return "unrepresentable: %s" % e


def run_cases(run, cases):
    run_impl(run, cases)
    run_model(run, cases)
    for c in cases:
        if c.verdict == "discard":
            run.discard((c.status or "?").split(":")[0])
    return [c for c in cases if c.verdict == "disagree"]


# ------------------------------------------------------------------------------------------------
# shrinking
# ------------------------------------------------------------------------------------------------
def subst(x, path, new):
    """copy of x with the node at `path` replaced"""
    if not path:
        return new
    k, rest = path[0], path[1:]
    if isinstance(x, E):
        a = list(x.args); a[k] = subst(a[k], rest, new); return E(x.cls, *a)
    if isinstance(x, Infix):
        return Infix(x.op, subst(x.lhs, rest, new), x.rhs) if k == 0 else Infix(x.op, x.lhs, subst(x.rhs, rest, new))
    if isinstance(x, Unary):
        return Unary(x.op, subst(x.x, rest, new))
    if isinstance(x, tuple):
        a = list(x); a[k] = subst(a[k], rest, new); return tuple(a)
    if isinstance(x, list):
        a = list(x); a[k] = subst(a[k], rest, new); return a
    if isinstance(x, dict):
        a = dict(x); a[k] = subst(a[k], rest, new); return a
    raise ValueError


def nodes(x, path=()):
    yield path, x
    if isinstance(x, E):
        for i, a in enumerate(x.args):
            yield from nodes(a, path + (i,))
    elif isinstance(x, Infix):
        yield from nodes(x.lhs, path + (0,)); yield from nodes(x.rhs, path + (1,))
    elif isinstance(x, Unary):
        yield from nodes(x.x, path + (0,))
    elif isinstance(x, (tuple, list)):
        for i, a in enumerate(x):
            yield from nodes(a, path + (i,))
    elif isinstance(x, dict):
        for k, a in x.items():
            yield from nodes(a, path + (k,))


def size(x):
    return sum(1 for _ in nodes(x))


def reductions(case):
    """one-step smaller variants of a case"""
    out = []
    ops = case.ops
    # drop ops (never a copy that a later op refers to)
    for i in reversed(range(len(ops))):
        if ops[i][0] == "copy":
            if i != len(ops) - 1:
                continue
        out.append(Case(case.expr, ops[:i] + ops[i + 1:], case.tag))
    for i, op in enumerate(ops):
        if op[0] in ("nextn", "for", "all") and isinstance(op[2], int) and op[2] > 1:
            out.append(Case(case.expr, ops[:i] + [(op[0], op[1], op[2] // 2)] + ops[i + 1:], case.tag))
    # expression: replace sub-patterns by their own children / constants, shorten lists
    for path, n in nodes(case.expr):
        if is_pat(n) and path:
            kids = [a for a in (n.args if isinstance(n, E) else [n.lhs, n.rhs] if isinstance(n, Infix) else [n.x]) if is_pat(a)]
            for k in kids:
                out.append(Case(subst(case.expr, path, k), ops, case.tag))
            out.append(Case(subst(case.expr, path, E("PSequence", [1, 2], 1)), ops, case.tag))
            out.append(Case(subst(case.expr, path, 1), ops, case.tag))
        elif is_pat(n) and not path:
            for k in [a for a in (n.args if isinstance(n, E) else [n.lhs, n.rhs] if isinstance(n, Infix) else [n.x]) if is_pat(a)]:
                out.append(Case(k, ops, case.tag))
        elif isinstance(n, list) and len(n) > 0:
            for i in range(len(n)):
                out.append(Case(subst(case.expr, path, n[:i] + n[i + 1:]), ops, case.tag))
        elif isinstance(n, (int, float)) and not isinstance(n, bool) and n not in (0, 1) and abs(n) < 1000:
            out.append(Case(subst(case.expr, path, 1 if isinstance(n, int) else 1.0), ops, case.tag))
    return out[:80]


def shrink(run, case, still_bad=None, rounds=10):
    """greedy shrinking; `still_bad(case)` decides on an evaluated candidate (default: model/impl disagree)"""
    if still_bad is None:
        still_bad = lambda c: c.verdict == "disagree"
    best = case
    for _ in range(rounds):
        cands = reductions(best)
        if not cands:
            break
        try:
            run_impl(run, cands)
            run_model(run, cands)
        except CheckError:
            break
        good = [c for c in cands if still_bad(c)]
        if not good:
            break
        best = min(good, key=lambda c: (size(c.expr) + len(c.ops)))
    return best


# ------------------------------------------------------------------------------------------------
# random generation
# ------------------------------------------------------------------------------------------------
class Gen:
    """Typed, mostly-valid generator of pattern expressions.

    gen(depth, fin): a pattern producing a stream of numbers / rests; `fin=True` asks for a pattern that
    is known to end (needed under PReverse, PPingPong, PCollapse, PNoRepeats, for all()/len()).
    Every generated node is annotated in self.fin_of[id(node)] with whether it is known to be finite."""

    FINITE_CAPABLE = None

    def __init__(self, rng, run=None, classes=None, float_p=0.25, none_p=0.12):
        self.rng = rng
        self.run = run
        self.float_p = float_p
        self.none_p = none_p
        self.fin = {}
        self.classes = classes or list(GENERATORS)
        self.count = {}

    # -- scalars
    def num(self, lo=-6, hi=12, allow_none=False, allow_float=True, allow_bool=True):
        r = self.rng
        x = r.random()
        if allow_none and x < self.none_p:
            return None
        if allow_bool and x > 0.97:
            return r.random() < 0.5
        if allow_float and r.random() < self.float_p:
            return r.randint(lo * 4, hi * 4) / 4.0
        return r.randint(lo, hi)

    def small(self, lo=0, hi=4):
        return self.rng.randint(lo, hi)

    def numlist(self, lo=0, hi=5, allow_none=True, **kw):
        return [self.num(allow_none=allow_none, **kw) for _ in range(self.rng.randint(lo, hi))]

    def known_finite(self, x):
        return self.fin.get(id(x), False)

    def mark(self, node, finite):
        self.fin[id(node)] = bool(finite)
        return node

    def note(self, cls):
        self.count[cls] = self.count.get(cls, 0) + 1
        if self.run is not None:
            self.run.dist("class." + cls)

    # -- patterns
    def leaf(self, fin):
        r = self.rng
        k = r.random()
        if fin or k < 0.6:
            return self.make("PSequence", 0, fin)
        if k < 0.75:
            return self.make("PSeries", 0, fin)
        if k < 0.85:
            return self.make("PConstant", 0, fin)
        if k < 0.93:
            return self.make("PRange", 0, fin)
        return self.make("PImpulse", 0, fin)

    def gen(self, depth, fin=False, cls=None):
        if cls is None:
            if depth <= 0:
                return self.leaf(fin)
            pool = self.classes
            for _ in range(20):
                cls = self.rng.choice(pool)
                if not fin or GENERATORS[cls][1]:
                    break
            else:
                return self.leaf(fin)
        return self.make(cls, depth, fin)

    def make(self, cls, depth, fin):
        f, can_fin = GENERATORS[cls]
        if fin and not can_fin:
            return self.leaf(fin)
        self.note(cls)
        node, finite = f(self, depth - 1, fin)
        return self.mark(node, finite)

    def arg(self, depth, scalar, p_pat=0.3, fin=False):
        """a parameter that accepts a scalar or a pattern: `scalar()` gives the scalar"""
        if depth >= 0 and self.rng.random() < p_pat:
            return self.gen(min(depth, 1), fin)
        return scalar()

    def trigger(self, depth, fin):
        r = self.rng
        if r.random() < 0.4:
            return self.mark(E("PImpulse", r.randint(1, 4)), False) if not fin else \
                self.mark(E("PSequence", [r.choice([0, 1, 1, 0, -1]) for _ in range(r.randint(1, 6))], 1), True)
        xs = [r.choice([0, 1, 0, 1, -1, 2, 0.5]) for _ in range(r.randint(1, 6))]
        if r.random() < 0.2:
            xs[r.randrange(len(xs))] = None
        rep = r.randint(1, 3) if (fin or r.random() < 0.6) else None
        node = E("PSequence", xs, rep) if rep is not None else E("PSequence", xs)
        return self.mark(node, rep is not None)


def _finite_rep(g, fin):
    """repeats argument: a small int (finite) or absent (endless)"""
    if fin or g.rng.random() < 0.7:
        return g.rng.randint(0, 3) if g.rng.random() < 0.15 else g.rng.randint(1, 3)
    return None


def g_constant(g, d, fin):
    return E("PConstant", g.num(allow_none=True)), False


def g_sequence(g, d, fin):
    r = g.rng
    xs = g.numlist(0 if r.random() < 0.08 else 1, 6)
    if d >= 0 and xs and r.random() < 0.15:                 # a pattern or a tuple as an element
        i = r.randrange(len(xs))
        xs[i] = g.gen(min(d, 1), fin) if r.random() < 0.6 else (g.num(), g.num())
    rep = _finite_rep(g, fin)
    if rep is None:
        inner_fin = False
        return E("PSequence", xs), inner_fin
    if d >= 0 and r.random() < 0.1:
        return E("PSequence", xs, g.mark(E("PSequence", [r.randint(1, 3) for _ in range(r.randint(1, 3))]), False)), (not xs)
    return E("PSequence", xs, rep), True


def g_series(g, d, fin):
    r = g.rng
    start = g.num()
    step = g.arg(d, lambda: g.num(-3, 4), 0.2)
    if fin or r.random() < 0.6:
        length = g.arg(d, lambda: g.small(0, 7), 0.1)
        return E("PSeries", start, step, length), not is_pat(length)
    if r.random() < 0.5:
        return E("PSeries", start, step), False
    return E("PSeries", start), False


def g_range(g, d, fin):
    r = g.rng
    start = g.num(allow_bool=False)
    step = g.num(-3, 4, allow_bool=False)
    if step == 0:
        step = 1
    span = r.randint(0, 6) * abs(step)
    end = start + span if step > 0 else start - span
    if r.random() < 0.1:
        end = start - span if step > 0 else start + span          # wrong direction: ends immediately
    if d >= 0 and r.random() < 0.15 and not fin:
        return E("PRange", start, g.gen(min(d, 1), False), step), False
    return E("PRange", start, end, step), True


def g_geom(g, d, fin):
    r = g.rng
    start = g.num(-3, 4)
    mult = g.arg(d, lambda: g.num(-2, 3), 0.2)
    if fin or r.random() < 0.7:
        return E("PGeom", start, mult, g.small(0, 6)), True
    return E("PGeom", start, mult), False


def g_impulse(g, d, fin):
    return E("PImpulse", g.arg(d, lambda: g.rng.randint(0, 5), 0.2)), False


def g_unary(name):
    def f(g, d, fin):
        x = g.gen(d, fin)
        return E(name, x), g.known_finite(x)
    return f


def g_binop(name):
    def f(g, d, fin):
        r = g.rng
        k = r.random()
        small = name in ("PPow", "PLShift", "PRShift")
        sc = (lambda: g.num(0, 4, allow_float=(name == "PPow"))) if small else (lambda: g.num(allow_none=(r.random() < 0.1)))
        if k < 0.5:
            a, b = g.gen(d, fin), g.gen(d, False)
            if r.random() < 0.5:
                a, b = b, a
        elif k < 0.75:
            a, b = g.gen(d, fin), sc()
        else:
            a, b = sc(), g.gen(d, fin)
        return E(name, a, b), (g.known_finite(a) or g.known_finite(b))
    return f


def g_concatenate(g, d, fin):
    n = g.rng.randint(0 if g.rng.random() < 0.05 else 1, 3)
    xs = [g.gen(d, fin) for _ in range(n)]
    return E("PConcatenate", xs), all(g.known_finite(x) for x in xs)


def g_ref(g, d, fin):
    x = g.gen(d, fin)
    return E("PRef", x), g.known_finite(x)


def g_loop(g, d, fin):
    x = g.gen(d, True)
    if fin or g.rng.random() < 0.7:
        return E("PLoop", x, g.small(0, 3)), True
    return E("PLoop", x), False


def g_pingpong(g, d, fin):
    x = g.gen(d, True)
    return (E("PPingPong", x, g.small(0, 3)) if g.rng.random() < 0.8 else E("PPingPong", x)), True


def g_stutter(g, d, fin):
    x = g.gen(d, fin) if (fin or g.rng.random() < 0.93) else g.num()      # a scalar is wrapped: an endless constant
    if g.rng.random() < 0.8:
        return E("PStutter", x, g.arg(d, lambda: g.small(0, 3), 0.3)), g.known_finite(x)
    return E("PStutter", x), g.known_finite(x)


def g_subsequence(g, d, fin):
    x = g.gen(d, False)
    return E("PSubsequence", x, g.arg(d, lambda: g.small(0, 4), 0.15), g.arg(d, lambda: g.small(0, 5), 0.1 if not fin else 0)), True


def g_reverse(g, d, fin):
    return E("PReverse", g.gen(d, True)), True


def g_reset(g, d, fin):
    x = g.gen(d, fin)
    t = g.trigger(d, False)
    return E("PReset", x, t), g.known_finite(t)


def g_counter(g, d, fin):
    t = g.trigger(d, fin)
    return E("PCounter", t), g.known_finite(t)


def g_collapse(g, d, fin):
    x = g.gen(d, True)
    return E("PCollapse", x), True


def g_norepeats(g, d, fin):
    x = g.gen(d, True)
    return E("PNoRepeats", x), True


def g_pad(g, d, fin):
    return E("PPad", g.gen(d, True), g.small(0, 8)), True


def g_padtomultiple(g, d, fin):
    x = g.gen(d, True)
    if g.rng.random() < 0.5:
        return E("PPadToMultiple", x, g.rng.randint(1, 5)), True
    return E("PPadToMultiple", x, g.rng.randint(1, 5), g.small(0, 3)), True


def g_changed(g, d, fin):
    x = g.gen(d, fin)
    return E("PChanged", x), g.known_finite(x)


def g_diff(g, d, fin):
    x = g.gen(d, fin)
    return E("PDiff", x), g.known_finite(x)


def g_skipif(g, d, fin):
    x = g.gen(d, fin)
    s = g.arg(d, lambda: g.rng.choice([0, 1, True, False, None]), 0.6)
    return E("PSkipIf", x, s), g.known_finite(x) or g.known_finite(s)


def g_round(g, d, fin):
    x = g.gen(d, fin)
    k = g.rng.random()
    if k < 0.5:
        return E("PRound", x), g.known_finite(x)
    return E("PRound", x, g.rng.choice([0, 0, 1, 2, -1])), g.known_finite(x)


def g_wrap(g, d, fin):
    x = g.gen(d, fin)
    lo = g.rng.randint(-4, 4)
    return E("PWrap", x, lo, lo + g.rng.randint(1, 6)), g.known_finite(x)


def g_indexof(g, d, fin):
    xs = g.numlist(1, 6, allow_none=False)
    item = g.arg(d, lambda: g.num(allow_none=True), 0.85, fin)
    return E("PIndexOf", xs, item), g.known_finite(item)


def g_arrayindex(g, d, fin):
    r = g.rng
    xs = g.numlist(1, 5)
    if d >= 0 and r.random() < 0.3:
        xs[r.randrange(len(xs))] = g.gen(min(d, 1), False)
    n = len(xs)
    idx = g.mark(E("PSequence", [r.choice([r.randint(-n, n - 1), r.randint(-n - 1, n), None, float(r.randint(0, n - 1))])
                                 if r.random() < 0.25 else r.randint(0, n - 1) for _ in range(r.randint(1, 5))],
                   r.randint(1, 2)), True) if r.random() < 0.8 else r.randint(0, n - 1)
    return E("PArrayIndex", xs, idx), is_pat(idx)


def g_dictkey(g, d, fin):
    r = g.rng
    keys = ["note", "amp", "dur"][:r.randint(1, 3)]
    if r.random() < 0.5:
        dct = E("PDict", {k: (g.gen(min(d, 1), fin) if r.random() < 0.7 else g.num()) for k in keys})
        finite = any(g.known_finite(v) for v in dct.args[0].values())
    else:
        n = r.randint(0, 4)
        dct = E("PDict", [{k: g.num(allow_none=True) for k in keys} for _ in range(n)])
        finite = n > 0
    g.mark(dct, finite)
    g.note("PDict")
    key = r.choice(keys) if r.random() < 0.9 else "missing"
    if r.random() < 0.2:
        key = g.mark(E("PSequence", [r.choice(keys) for _ in range(3)], 2), True)
    return E("PDictKey", dct, key), finite or is_pat(key)


GENERATORS = {  # class -> (generator, can be asked for a finite instance)
    "PConstant": (g_constant, False), "PSequence": (g_sequence, True), "PSeries": (g_series, True),
    "PRange": (g_range, True), "PGeom": (g_geom, True), "PImpulse": (g_impulse, False),
    "PAbs": (g_unary("PAbs"), True), "PInt": (g_unary("PInt"), True), "PAnd": (g_binop("PAnd"), True),
    "PConcatenate": (g_concatenate, True), "PRef": (g_ref, True), "PLoop": (g_loop, True), "PPingPong": (g_pingpong, True),
    "PStutter": (g_stutter, True), "PSubsequence": (g_subsequence, True), "PReverse": (g_reverse, True),
    "PReset": (g_reset, False), "PCounter": (g_counter, True), "PCollapse": (g_collapse, True),
    "PNoRepeats": (g_norepeats, True), "PPad": (g_pad, True), "PPadToMultiple": (g_padtomultiple, True),
    "PChanged": (g_changed, True), "PDiff": (g_diff, True), "PSkipIf": (g_skipif, True), "PRound": (g_round, True),
    "PWrap": (g_wrap, True), "PIndexOf": (g_indexof, True), "PArrayIndex": (g_arrayindex, True),
    "PDictKey": (g_dictkey, True),
}
for _n in BINOPS:
    GENERATORS[_n] = (g_binop(_n), True)


def gen_ops(rng, finite, n_ops=None, copies=True, resets=True, helpers=True):
    """a random operation script; `finite`: all()/len() without a bound are allowed"""
    ops, handles = [], 1
    for _ in range(n_ops or rng.randint(3, 10)):
        h = rng.randrange(handles)
        k = rng.random()
        if k < 0.5:
            ops.append(("next", h))
        elif k < 0.62 and helpers:
            ops.append(("nextn", h, rng.randint(0, 6)))
        elif k < 0.70 and helpers:
            ops.append(("all", h, rng.randint(0, 8)) if (not finite or rng.random() < 0.6) else ("all", h, None))
        elif k < 0.75 and helpers and finite:
            ops.append(("len", h))
        elif k < 0.85 and resets:
            ops.append(("reset", h))
        elif k < 0.92 and copies and handles < 4:
            ops.append(("copy", h)); handles += 1
        elif k < 0.96 and helpers:
            ops.append(("for", h, rng.randint(0, 5)))
        else:
            ops.append(("next", h))
    return ops


def check_registry(run, sigs, prop_site="registry"):
    """compare REGISTRY with the live signatures returned by the driver ({"cls": [[name, default_json, kind]...]})"""
    bad = []
    for cls, params in REGISTRY.items():
        live = sigs.get(cls)
        if live is None:
            bad.append((cls, "class missing")); continue
        want = [(n, "<*args>" if d == VARARGS else "<required>" if d == NODEFAULT else d) for n, d in params]
        got = [(n, d) for n, d in live]
        if [tuple(x) for x in got] != want:
            bad.append((cls, "signature %r, the model's constructor assumes %r" % (got, want)))
    return bad

"""C07, stratum "string shorthand": tracks whose event values (note, duration, amplitude) are written as notation STRINGS with
nested groups and reach the scheduler through Pattern.pattern / parse_notation (plain dict, PDict(dict), PSequence(str)); the same
strings are used by several tracks of one timeline, by a track scheduled again later, and on further timelines of the same process.
Model: coq/Sched/NotationTracks.v (parser model Notation/Parser.v + PSequence tree Notation/PSeq.v + scheduler Sched/Model.v);
theorems C07_notation_objects_independent, C07_notation_fresh, C07_notation_same_string, C07_notation_stream_own_channel,
C07_notation_merge.  Driver: harness/impl/c07_impl.py (kind "notation").
Oracle (plain Python, from the property text and the documented meaning of the shorthand - a nested group yields one of its elements
per cycle of its parent; exact Fractions): every track, in every round, produces what it produces alone: event k has the k-th value of
EACH of its own strings' sequences, is due sum(durations before it) after its start, and is released duration*gate later - whatever
other tracks were built from the same strings before or meanwhile."""
from common import *
import sched_common as S
from fractions import Fraction as F

HEADER = ("From Isobar Require Import Base.Prelude Sched.Model Sched.Obs Notation.Lexer Notation.Parser Notation.PSeq Sched.NotationTracks.\n"
          "Definition uw0 (c : Z) : bool := false.\n"
          "Definition nstr (U chan gn gd : Z) (N : nat) (sn sd sa : str) : stream := stream_or_empty (notation_stream uw0 U chan gn gd N sn sd sa).\n")


# ---- trees and their strings --------------------------------------------------------------------------------------
def gen_tree(rng, leaves, depth=0):
    """a list whose items are leaves (strings as they are written) or nested lists; no empty group"""
    n = rng.randint(2, 4) if depth == 0 else rng.randint(1, 3)
    out = []
    for _ in range(n):
        if depth < 2 and rng.random() < (0.45 if depth == 0 else 0.3):
            out.append(gen_tree(rng, leaves, depth + 1))
        else:
            out.append(rng.choice(leaves))
    if depth == 0 and not any(isinstance(x, list) for x in out):
        out[rng.randrange(len(out))] = gen_tree(rng, leaves, 1)         # at least one nested group
    return out


def render(rng, tree, top=True):
    parts = []
    for x in tree:
        parts.append("[" + render(rng, x, False) + "]" if isinstance(x, list) else x)
    s = parts[0]
    for a, b in zip(parts, parts[1:]):
        tight = (a.endswith("]") or a.endswith("[") or b.startswith("[") or b.startswith("]")) and rng.random() < 0.3
        s += ("" if tight else " " * rng.choice([1, 1, 1, 2])) + b
    return s


def kth(tree, k):
    """the k-th value the sequence yields: position k mod n, on its (k div n)-th visit"""
    x = tree[k % len(tree)]
    return kth(x, k // len(tree)) if isinstance(x, list) else x


def gen_program(rng):
    tpb = rng.choice([4, 4, 8])
    durs = ["1", "0.5", "0.25", "2"] if tpb == 4 else ["1", "0.5", "0.25", "0.125", "0.75"]
    notes = [str(n) for n in range(36, 96)]
    amps = ["64", "100", "32", "127", "1"]
    ticks = rng.choice([24, 32, 40])
    nspec = rng.randint(1, 2)
    specs = []
    for _ in range(nspec):
        tn = gen_tree(rng, rng.sample(notes, 5))
        td = gen_tree(rng, durs) if rng.random() < 0.5 else [rng.choice(durs)]
        ta = gen_tree(rng, amps) if rng.random() < 0.4 else [rng.choice(amps)]
        specs.append({"tn": tn, "td": td, "ta": ta, "note": render(rng, tn), "dur": render(rng, td), "amp": render(rng, ta)})
    ntr = rng.randint(2, 4)
    chans = rng.sample(range(16), ntr)
    tracks = []
    for j in range(ntr):
        sp = specs[0] if j < 2 else rng.choice(specs)           # at least two tracks are written with the same strings
        d = rng.choice([None, None, F(1, tpb), F(2, tpb), F(1, 2), F(3, tpb)])
        tracks.append(dict(sp, chan=chans[j], delay=None if d is None else [d.numerator, d.denominator],
                           count=rng.choice([None, None, None, 5, 9]), form=rng.choice(["dict", "dict", "pdict", "pseq"])))
    # round 0: the tracks together (some scheduled later, while the others are in mid-cycle); then, on new timelines of the same
    # process: one of them alone, and the whole set again
    late = rng.choice([0, 0, 3, 5, tpb + 1])
    first = [["schedule", j] for j in range(ntr) if j != ntr - 1 or late == 0]
    r0 = first + ([["tick", late], ["schedule", ntr - 1], ["tick", ticks - late]] if late else [["tick", ticks]])
    rounds = [r0]
    solo = rng.randrange(ntr)
    rounds.append([["schedule", solo], ["tick", ticks]])
    if rng.random() < 0.5:
        order = list(range(ntr)); rng.shuffle(order)
        rounds.append([["schedule", j] for j in order] + [["tick", ticks]])
    return {"kind": "notation", "tpb": tpb, "gate": rng.choice([[1, 2], [1, 2], [1, 1], [1, 4]]), "tracks": tracks, "rounds": rounds, "ticks": ticks}


def payload(p):
    q = dict(p)
    q["tracks"] = [{k: t[k] for k in ("note", "dur", "amp", "chan", "delay", "count", "form")} for t in p["tracks"]]
    return q


# ---- oracle -----------------------------------------------------------------------------------------------------------
def expected_round(p, ops):
    """calls per tick (sorted), from the strings alone"""
    tpb = p["tpb"]
    tick = F(1, tpb)
    gate = F(*p["gate"])
    calls = {}
    now = 0
    total = sum(o[1] for o in ops if o[0] == "tick")
    for o in ops:
        if o[0] == "tick":
            now += o[1]; continue
        t = p["tracks"][o[1]]
        start = now + (int(F(*t["delay"]) / tick) if t["delay"] else 0)
        N, k = F(0), 0
        while t["count"] is None or k < t["count"]:
            onset = start + N / tick
            assert onset.denominator == 1
            onset = int(onset)
            if onset >= total:
                break
            note, dur, amp = int(kth(t["tn"], k)), F(kth(t["td"], k)), int(kth(t["ta"], k))
            off = onset + max(1, -((-dur * gate) // tick))
            calls.setdefault(onset, []).append(["on", note, amp, t["chan"]])
            calls.setdefault(int(off), []).append(["off", note, t["chan"]])
            N += dur; k += 1
    return calls, total


def oracle(p, r):
    bad = []
    for ri, (ops, obs) in enumerate(zip(p["rounds"], r["rounds"])):
        exp, total = expected_round(p, ops)
        got = {}
        t = 0
        index_tick = {}
        i = 0
        for o in ops:
            for _ in range(o[1] if o[0] == "tick" else 1):
                if o[0] == "tick":
                    index_tick[i] = t; t += 1
                i += 1
        for idx, calls, res, ids in obs:
            if res != "ok":
                bad.append(("notation-raised", "round %d: operation %d ended with %r" % (ri, idx, res))); break
            if idx in index_tick and calls:
                got[index_tick[idx]] = calls
        for t in range(total):
            g = sorted(got.get(t, []), key=lambda c: (c[-1], c[0], c[1]))
            e = sorted(exp.get(t, []), key=lambda c: (c[-1], c[0], c[1]))
            if g != e:
                ch = next((c[-1] for c in g + e if (c in g) != (c in e)), None)
                tr = next((x for x in p["tracks"] if x["chan"] == ch), None)
                bad.append(("notation-track-not-independent",
                            "round %d (%s), tick %d: calls %r, every track alone produces %r; first difference on channel %r = track written as note %r / "
                            "duration %r / amplitude %r, whose own sequence gives the notes %r ... (strings shared with %d other track(s) of this program)"
                            % (ri, "first timeline" if ri == 0 else "a new timeline in the same process", t, g, e, ch, tr and tr["note"], tr and tr["dur"],
                               tr and tr["amp"], tr and [int(kth(tr["tn"], k)) for k in range(8)],
                               sum(1 for x in p["tracks"] if tr and x["note"] == tr["note"]) - 1)))
                break
        if bad:
            break
    return bad


# ---- Coq ------------------------------------------------------------------------------------------------------------------
def codes(s):
    return "[" + ";".join(str(ord(c)) for c in s) + "]"


def round_term(p, ops, obs):
    tpb = p["tpb"]
    U = 8 * tpb                                   # every duration * gate (quarters of a sixteenth) is a whole number of units
    N = p["ticks"] + 2
    hist = []
    for o in ops:
        if o[0] == "tick":
            hist.append("hop OTick %d" % o[1]); continue
        t = p["tracks"][o[1]]
        d = "None" if t["delay"] is None else "(Some %d)" % int(F(*t["delay"]) * U)
        hist.append("hop (OSchedule (nstr %d %d %d %d %d%%nat %s %s %s) None %s %s true None true) 1" % (
            U, t["chan"], p["gate"][0], p["gate"][1], N, codes(t["note"]), codes(t["dur"]), codes(t["amp"]), d, optlit(t["count"], zlit)))
    cfg = "(mkConfig %d [] 0 0 false false None %s)" % (U // tpb, natlit(S.FUEL))
    return "agrees %s %s %s" % (cfg, lst(hist), S.coq_expected(obs))


def notation_part(run, n):
    rng = run.rng
    progs = [gen_program(rng) for _ in range(n)]
    parts = [progs[i::6] for i in range(6) if progs[i::6]]
    outs = run.impl_parallel("c07_impl", [{"programs": [payload(q) for q in part]} for part in parts])
    results = [None] * len(progs)
    for si, out in enumerate(outs):
        for j, r in enumerate(out["results"]):
            results[si + j * 6] = r
    terms, where = [], []
    for pi, (p, r) in enumerate(zip(progs, results)):
        run.count(len(p["rounds"]))
        run.dist("notation.programs"); run.dist("notation.rounds", len(p["rounds"]))
        for t in p["tracks"]:
            run.dist("notation.form." + t["form"])
        shared = len(p["tracks"]) - len(set(t["note"] for t in p["tracks"]))
        run.dist("notation.tracks-sharing-a-string-with-an-earlier-track", shared)
        if any(p["rounds"][0][i][0] == "tick" and any(o[0] == "schedule" for o in p["rounds"][0][i:]) for i in range(len(p["rounds"][0]))):
            run.dist("notation.scheduled-later-with-the-same-string")
        if "driver_error" in r:
            run.violation({"kind": "driver-error", "site": "notation tracks"}, {"part": "notation", "program": payload(p), "observed": r}, found_input=True)
            continue
        bad = oracle(p, r)
        run.cov["oracle_evaluations"] += len(p["rounds"])
        run.nontrivial(json.dumps(payload(p), sort_keys=True))
        seen = set()
        for kind_, detail in bad:
            if kind_ in seen:
                continue
            seen.add(kind_)
            run.violation({"kind": kind_, "site": "tracks written in string shorthand"}, {
                "part": "notation", "program": p, "observed": detail,
                "oracle": "every track, on every timeline of the process, produces what it produces alone: the k-th event carries the k-th value of each of ITS "
                          "strings' sequences (a nested group yields one element per cycle of its parent)",
                "python": "import isobar as iso\nfrom isobar.pattern import Pattern\n"
                          "a = Pattern.pattern('60 [62 64] 67'); b = Pattern.pattern('60 [62 64] 67')\n"
                          "print([next(a), next(b), next(a), next(b), next(a), next(b), next(a), next(b), next(a), next(b)])   # 60 60 62 62 67 67 60 60 64 64\n"
                          "# or: PYTHONPATH=/repo /venv/bin/python /verif/harness/impl/c07_impl.py <<< '{\"programs\": [<program>]}'"})
        if bad:
            continue
        for ri, (ops, obs) in enumerate(zip(p["rounds"], r["rounds"])):
            if S.obs_well_typed(obs):
                terms.append(round_term(p, ops, obs))
            else:
                terms.append("false")
            where.append((pi, ri))
        if pi % 40 == 0:
            run.sample({"family": "string shorthand", "tracks": [(t["note"], t["dur"], t["amp"], t["chan"], t["form"]) for t in p["tracks"]],
                        "rounds": p["rounds"], "first_observations": r["rounds"][0][:4]})
    badi = run.coq_failing(HEADER, terms, chunk=40)
    run.cov["notation_rounds_validated_against_model"] = len(terms) - len(badi)
    run.cov["traces_validated_against_impl"] += len(terms) - len(badi)
    for b in badi[:2]:
        pi, ri = where[b]
        run.violation({"kind": "correspondence", "site": "Sched/NotationTracks.v"}, {
            "part": "notation", "broken": "correspondence Sched/NotationTracks.v (parse_notation + PSequence tree + scheduler) <-> isobar on tracks written in string "
                                          "shorthand: C07_notation_* no longer describe this code",
            "program": payload(progs[pi]), "round": ri, "observed": results[pi]["rounds"][ri][:40]}, found_input=False)


def replay_notation(run, doc):
    p = doc["program"]
    r = run.impl("c07_impl", {"programs": [payload(p)]})["results"][0]
    if "rounds" not in r:
        print("driver:", r); return 1
    if "tn" not in p["tracks"][0]:
        print(json.dumps(r)[:2000]); print("replay: the program carries no trees (correspondence report); compare by hand"); return 1
    bad = oracle(p, r)
    print("replay: oracle verdict:", bad or "ok")
    if not bad:
        m = run.coq_failing(HEADER, [round_term(p, ops, obs) for ops, obs in zip(p["rounds"], r["rounds"])])
        print("model agrees:", not m)
        return 1 if m else 0
    return 1

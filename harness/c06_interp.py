"""C06, stratum I: lifecycle operations applied to INTERPOLATING tracks (control tracks scheduled with interpolate =
linear | cosine).  Model: coq/Sched/InterpLife.v (mute flag / unschedule / deferred start around the track machine of
Sched/Interp.v); theorems C06_interp_* in coq/Props/C06.v.  Implementation driver: harness/impl/c06_impl.py.
Oracle (plain Python, from the property text and the closed form of the curve, exact Fractions): a muted, unscheduled,
stopped or cleared track emits nothing; every other tick of its life carries the value of ITS place on the curve
(muting does not delay the curve); the track leaves the timeline on the tick after its last point whether muted or not;
a stop-when-done timeline stops exactly when nothing is left."""
from common import *
import math
from fractions import Fraction as F

HEADER = """From Isobar Require Import Base.Prelude Sched.Interp Sched.InterpCheck Sched.InterpLife.
From Coq Require Import QArith String Uint63.
Local Open Scope Z_scope.
Definition kc := "control"%string.
Definition kv := "value"%string.
Definition kh := "channel"%string.
Definition cev (c v h : fval) (d : Q) : event := mkEvent true d [(kc, c); (kv, v); (kh, h)].
Definition wait_of (n : nat) (tpb : Z) (d : Q) : nat :=
  match start_tick (S n) tpb 0 0 d with Some t0 => Z.to_nat t0 | None => n end.
Definition life_ok (exact : bool) (model : list outcome) (impl : list obs) : bool := trace_ok exact model impl.
Definition life_diff (exact : bool) (model : list outcome) (impl : list obs) := first_bad exact (stamp 0 model) impl.
"""

NS = [2, 4, 8, 10, 24, 96]
OPS = ["mute", "mute", "mute", "unmute", "unschedule", "stop", "clear"]
TOL = F(1, 10 ** 9)


def dec(e):
    if e[0] == "i":
        return e[1]
    if e[0] == "f":
        return float.fromhex(e[1])
    return None


def mk(v):
    """int / finite float -> (m, k): |v| = m * 2^e exactly, k = 2 * (e + 1100) + sign (Sched/InterpCheck.v dq)"""
    if type(v) is int:
        m, e = abs(v), 0
    else:
        fm, e = math.frexp(abs(v))
        m, e = int(fm * 2 ** 53), e - 53
        if m == 0:
            e = 0
    if m >= 2 ** 62 or not -1099 <= e <= 1000:
        raise ValueError("number out of the literal range: %r" % (v,))
    return m, 2 * (e + 1100) + (1 if v < 0 else 0)


def ilist(xs):
    return "[" + ";".join("%d" % x for x in xs) + "]%uint63"


def cos_rows(ds):
    rows = []
    for d in sorted(ds):
        flat = []
        for j in range(d + 1):
            flat.extend(mk(math.cos(math.pi * j / d)))
        rows.append("crow %d %s" % (d, ilist(flat)))
    return "Definition ctab : cos_table := [\n" + ";\n".join(rows) + "].\nDefinition cosf := cospi_tab ctab.\n"


def divisors(n):
    return [d for d in range(1, n + 1) if n % d == 0]


# ---- generation --------------------------------------------------------------------------------------------
def gen_case(rng, k):
    N = NS[k % len(NS)] if k < 2 * len(NS) else rng.choice(NS)
    mode = ["linear", "cosine"][(k // len(NS)) % 2] if k < 2 * len(NS) else rng.choice(["linear", "cosine"])
    npts = rng.randint(2, 5)
    kind = rng.choice(["int", "int", "eighth"])
    vals, Ds = [], []
    for i in range(npts):
        v = rng.randint(0, 127) if kind == "int" else rng.randint(0, 1016) / 8
        if vals and rng.random() < 0.1:
            v = vals[-1]
        vals.append(v)
        Ds.append(rng.choice([1, 2, 3, 5, 7, N, N, 2 * N]))
    count = rng.choice([None, None, None, 0, 2, 3, npts, npts + 2])
    if count == 2 and npts > 2 and rng.random() < 0.5:
        pass
    delay = rng.choice([None, None, None, 1, 2, N])
    eff = npts if not count else min(count, npts)
    t0 = delay or 0
    t_last = t0 + sum(Ds[:eff - 1])
    comp = None
    if rng.random() < 0.45:
        Dc = rng.choice([2, 4, N, 2 * N])
        comp = {"n": rng.randint(1, 4), "D": Dc, "G": max(1, Dc // 2), "chan": 9, "first": rng.random() < 0.5}
    ops = []
    span = t_last + 3
    nops = rng.choice([1, 2, 2, 3, 4])
    for _ in range(nops):
        name = rng.choice(OPS)
        t = rng.choice([0, t0, t0 + 1, rng.randint(0, span), rng.randint(0, span), t_last, t_last + 1])
        ops.append([t, name])
        if name == "mute" and rng.random() < 0.55:
            ops.append([t + rng.choice([0, 1, 2, rng.randint(1, max(1, span - t))]), "unmute"])
    ops.sort(key=lambda o: o[0])      # stable: calls made before the same tick keep their order
    last = max([t_last + 1] + [o[0] for o in ops])
    if comp:
        last = max(last, comp["n"] * comp["D"] + comp["G"])
    return {"N": N, "mode": mode, "control": rng.randint(0, 119), "channel": rng.randint(0, 8), "values": vals, "D": Ds,
            "form": rng.choice(["dict", "seq"]), "count": count, "delay_ticks": delay, "rwd": rng.random() < 0.8,
            "swd": rng.random() < 0.5, "companion": comp, "ops": ops, "nticks": last + 4}


def beats(D, N):
    return D // N if D % N == 0 else D / N


def payload_of(c):
    N = c["N"]
    p = {k: c[k] for k in ("N", "mode", "control", "channel", "values", "form", "count", "rwd", "swd", "ops", "nticks")}
    p["durs"] = [beats(D, N) for D in c["D"]]
    p["delay"] = None if c["delay_ticks"] is None else beats(c["delay_ticks"], N)
    comp = c["companion"]
    p["companion"] = None if comp is None else {"n": comp["n"], "dur": beats(comp["D"], N), "gate": comp["G"] / comp["D"],
                                                "chan": comp["chan"], "first": comp["first"]}
    return p


def snippet(c):
    p = payload_of(c)
    kw = "".join(", %s=%r" % (k, v) for k, v in (("count", p["count"]), ("delay", p["delay"])) if v is not None)
    return ("import isobar as iso\n"
            "class Rec(iso.OutputDevice):\n"
            "    now = 0\n"
            "    def control(self, control=0, value=0, channel=0): print(self.now, 'control', control, value, channel)\n"
            "dev = Rec(); tl = iso.Timeline(120, output_device=dev, clock_source=iso.DummyClock(ticks_per_beat=%d))\n"
            "tr = tl.schedule({'control': %r, 'channel': %r, 'value': iso.PSequence(%r, 1), 'duration': iso.PSequence(%r, 1)}, interpolate=%r%s)\n"
            "ops = %r   # [tick, call] applied before that tick: tr.mute() / tr.unmute() / tl.unschedule(tr) / tr.stop() / tl.clear()\n"
            "for t in range(%d):\n"
            "    dev.now = t\n"
            "    for when, name in ops:\n"
            "        if when == t: {'mute': tr.mute, 'unmute': tr.unmute, 'unschedule': lambda: tl.unschedule(tr), 'stop': tr.stop, 'clear': tl.clear}[name]()\n"
            "    tl.tick()\n" % (c["N"], p["control"], p["channel"], p["values"], p["durs"], p["mode"], kw, p["ops"], p["nticks"]))


# ---- oracle ------------------------------------------------------------------------------------------------
def is_double(fr):
    d = fr.denominator
    return d & (d - 1) == 0 and d <= 2 ** 40 and abs(fr.numerator) < 2 ** 50


def expectation(c):
    """from the property text: (control calls {tick: exact/approx value}, op results, per-tick (present, result))"""
    N = c["N"]
    npts = len(c["values"])
    eff = npts if not c["count"] else min(c["count"], npts)
    t0 = c["delay_ticks"] or 0
    T = [t0]
    for D in c["D"][:eff - 1]:
        T.append(T[-1] + D)
    t_last = T[-1]
    t_fin = t_last + 1                 # the tick on which the stream is found exhausted: the track is finished (no note sounds)
    comp = c["companion"]
    # lifecycle flags tick by tick
    muted, gone = False, None          # gone: tick index from which the track takes no turn
    comp_gone = None
    opres = []
    ops = list(c["ops"])
    k = 0
    ctl = {}
    ticks = []
    notes = []                          # (on, off, alive-as-track-note) of the companion
    stopped = False
    for t in range(c["nticks"]):
        while k < len(ops) and ops[k][0] <= t:
            name = ops[k][1]; k += 1
            left = gone is not None or (c["rwd"] and t > t_fin)      # unscheduled earlier, or finished and removed on tick t_fin
            if name == "mute":
                muted = True; opres.append("ok")
            elif name == "unmute":
                muted = False; opres.append("ok")
            elif name in ("unschedule", "stop"):
                if left:
                    opres.append("notfound")
                else:
                    gone = t; opres.append("ok")
            elif name == "clear":
                if not left:
                    gone = t
                if comp_gone is None:
                    comp_gone = t
                opres.append("ok")
        running = gone is None and t0 <= t <= t_last
        if running and not muted and not stopped:
            ctl[t] = curve(c, T, eff, t)
        present = gone is None and not (c["rwd"] and t >= t_fin)
        # companion: note j at tick j * D, released G ticks later (also after clear: the timeline takes the release over)
        comp_present = False
        if comp:
            nD = comp["n"] * comp["D"]
            if not stopped and (comp_gone is None or t < comp_gone) and t < nD and t % comp["D"] == 0:
                notes.append((t, t + comp["G"]))
            comp_present = (comp_gone is None or t < comp_gone) and t < nD
        pending = any(on <= t < off for on, off in notes) or (gone is not None and c["delay_ticks"] and t < t0)
        ntracks = (1 if present else 0) + (1 if comp_present else 0)
        if stopped:
            ticks.append(("stop", present, ntracks))
            continue
        if c["swd"] and ntracks == 0 and not pending:
            stopped = True
            ticks.append(("stop", present, ntracks))
        else:
            ticks.append(("ok", present, ntracks))
    return ctl, opres, ticks, notes


def curve(c, T, eff, t):
    vals = c["values"]
    at = [i for i in range(eff) if T[i] == t]
    if at:
        return ("exact", [F(vals[i]) for i in at])
    i = max(k for k in range(eff - 1) if T[k] < t)
    a, b, D, j = vals[i], vals[i + 1], c["D"][i], t - T[i]
    if c["mode"] == "linear":
        return ("linear", F(a) + (F(b) - F(a)) * F(j, D))
    return ("cosine", a + (b - a) * 0.5 * (1.0 - math.cos(math.pi * j / D)))


def value_ok(exp, v):
    kind, x = exp
    if kind == "exact":
        return any(F(v) == e for e in x)
    if kind == "linear":
        return F(v) == x if is_double(x) else abs(F(v) - x) <= TOL
    return abs(v - x) <= 1e-9


def oracle(c, r):
    bad = []
    ctl, opres, ticks, notes = expectation(c)
    got = {}
    for call in r["calls"]:
        t, kind = call[0], call[1]
        if kind == "ctl":
            got.setdefault(t, []).append(call)
        elif kind == "pgm":
            bad.append(("foreign-call", "tick %d: program_change from a control track" % t))
    first_muted = None
    for t in range(c["nticks"]):
        g = got.get(t, [])
        if t in ctl:
            if len(g) != 1:
                bad.append(("interp-missing" if not g else "interp-duplicate",
                            "tick %d: %d control calls, expected exactly one (the track is scheduled, started, unmuted and on its curve)" % (t, len(g))))
                break
            _, _, ce, ve, he = g[0]
            v = dec(ve)
            if dec(ce) != c["control"] or dec(he) != c["channel"]:
                bad.append(("interp-passthrough", "tick %d: control(%r, ., %r), the track's control / channel are %r / %r"
                            % (t, dec(ce), dec(he), c["control"], c["channel"])))
                break
            if v is None or not value_ok(ctl[t], v):
                bad.append(("interp-curve-shifted", "tick %d: value %r, its place on the curve asks for %s (a muted stretch must not delay or "
                            "shift the curve; ops %r)" % (t, v, ctl[t][1] if ctl[t][0] != "exact" else [float(x) for x in ctl[t][1]], c["ops"])))
                break
        elif g:
            why = "muted / unscheduled / stopped / cleared / not started / past its last point"
            bad.append(("interp-event-while-silenced", "tick %d: control call %r although the track is %s at that tick (ops %r, first point on tick %d)"
                        % (t, [dec(g[0][2]), dec(g[0][3]), dec(g[0][4])], why, c["ops"], c["delay_ticks"] or 0)))
            break
    if r["ops"] != opres:
        bad.append(("interp-op-result", "results of the lifecycle calls %r: %r, expected %r" % (c["ops"], r["ops"], opres)))
    for t, (res, present, ntracks) in enumerate(ticks):
        ores, opresent, ontracks = r["ticks"][t]
        if opresent != present:
            bad.append(("interp-removal", "after tick %d the interpolating track is %s the timeline, expected %s (it leaves on the tick after its last "
                        "point - muted or not - or when unscheduled; remove_when_done=%r)" % (t, "in" if opresent else "not in", "in" if present else "out", c["rwd"])))
            break
        if ores != res:
            bad.append(("interp-stop", "tick %d returned %r, expected %r (stop_when_done=%r, tracks left %d)" % (t, ores, res, c["swd"], ntracks)))
            break
        if ontracks != ntracks:
            bad.append(("interp-track-count", "after tick %d: %d tracks, expected %d" % (t, ontracks, ntracks)))
            break
    # the plain note track next to it plays its notes, whatever happens to the control track
    comp = c["companion"]
    if comp:
        ons = sorted(call[0] for call in r["calls"] if call[1] == "on")
        offs = sorted(call[0] for call in r["calls"] if call[1] == "off")
        exp_offs = sorted(n[1] for n in notes if n[1] < c["nticks"])
        if True:
            if ons != sorted(n[0] for n in notes) or offs != exp_offs:
                bad.append(("interp-companion", "note track next to the control track: note-ons on ticks %r / note-offs on %r, expected %r / %r"
                            % (ons, offs, sorted(n[0] for n in notes), exp_offs)))
    return bad


# ---- Coq side ------------------------------------------------------------------------------------------------
def history_of(c):
    h, k, ops = [], 0, c["ops"]
    for t in range(c["nticks"]):
        while k < len(ops) and ops[k][0] <= t:
            h.append({"mute": "LMute", "unmute": "LUnmute", "unschedule": "LUnschedule", "stop": "LUnschedule", "clear": "LUnschedule"}[ops[k][1]])
            k += 1
        h.append("LTick")
    return h


def fv(v):
    return "(VNum %s)" % qlit(v)


def model_term(c, r, fn="life_ok"):
    N = c["N"]
    evs = ["cev %s %s %s %s" % (fv(c["control"]), fv(v), fv(c["channel"]), qlit(beats(D, N))) for v, D in zip(c["values"], c["D"])]
    delay = qlit(0) if c["delay_ticks"] is None else qlit(beats(c["delay_ticks"], N))
    model = "(ltrace cosf %d %s %s %s (life_init (wait_of (Z.to_nat %d) %d %s) [%s]))" % (
        N, "Linear" if c["mode"] == "linear" else "Cosine", optlit(c["count"], zlit), "[" + "; ".join(history_of(c)) + "]",
        c["nticks"], N, delay, "; ".join(evs))
    calls = [x for x in r["calls"] if x[1] == "ctl"]
    if any(x[1] == "pgm" for x in r["calls"]) or any(res.startswith("exc") for res, _, _ in r["ticks"]):
        return "false"
    rows = []
    for t, _, ce, ve, he in calls:
        if any(dec(e) is None or (isinstance(dec(e), float) and not math.isfinite(dec(e))) for e in (ce, ve, he)):
            return "false"
        rows.append("(%d, 0, %s, %s, %s)" % (t, fv(dec(ce)), fv(dec(ve)), fv(dec(he))))
    return "%s %s %s [%s]" % (fn, blit(c["mode"] == "linear"), model, "; ".join(rows))


def needed_rows(c):
    if c["mode"] != "cosine":
        return set()
    ds = set()
    for D in c["D"]:
        ds.update(divisors(D))
    return ds


def coq_compare(run, cases, results):
    from concurrent.futures import ThreadPoolExecutor
    order = sorted(range(len(cases)), key=lambda i: cases[i]["N"])
    chunks = [order[i:i + 20] for i in range(0, len(order), 20)]

    def one(ci):
        k, idx = ci
        rows = set()
        for i in idx:
            rows |= needed_rows(cases[i])
        src = HEADER + cos_rows(rows) + "Definition results : list bool := [\n" + \
            ";\n".join(model_term(cases[i], results[i]) for i in idx) + "\n].\nEval vm_compute in failing results.\n"
        return [idx[j] for j in parse_nat_list(run.coqc_text("interp%d" % k, src))]
    bad = []
    with ThreadPoolExecutor(max_workers=10) as ex:
        for r in ex.map(one, list(enumerate(chunks))):
            bad.extend(r)
    return sorted(bad)


def coq_diff(run, c, r):
    try:
        return run.coq_eval(HEADER + cos_rows(needed_rows(c)), model_term(c, r, fn="life_diff"))[:1200]
    except CheckError as e:
        return "coq evaluation failed: %s" % str(e)[-300:]


# ---- the stratum -----------------------------------------------------------------------------------------------
def run_cases(run, cases):
    shards = [list(range(i, len(cases), 8)) for i in range(8) if i < len(cases)]
    outs = run.impl_parallel("c06_impl", [{"cases": [payload_of(cases[i]) for i in sh]} for sh in shards])
    results = [None] * len(cases)
    for sh, out in zip(shards, outs):
        for i, r in zip(sh, out["cases"]):
            results[i] = r
    return results


def interp_part(run, n):
    rng = run.rng
    cases = [gen_case(rng, k) for k in range(n)]
    results = run_cases(run, cases)
    explained = set()
    for i, (c, r) in enumerate(zip(cases, results)):
        run.count()
        run.dist("family.I")
        run.dist("I.mode." + c["mode"]); run.dist("I.tpb.%d" % c["N"])
        for _, name in c["ops"]:
            run.dist("I.op." + name)
        if c["companion"]: run.dist("I.with-note-track")
        if c["delay_ticks"]: run.dist("I.deferred-start")
        if c["count"]: run.dist("I.count")
        if not c["rwd"]: run.dist("I.kept-when-done")
        if c["swd"]: run.dist("I.stop_when_done")
        if "driver_error" in r:
            explained.add(i)
            run.violation({"kind": "driver-error", "site": "interpolated-track"}, {"case": c, "observed": r, "python": snippet(c)})
            continue
        ctl, _, _, _ = expectation(c)
        eff = len(c["values"]) if not c["count"] else min(c["count"], len(c["values"]))
        t0 = c["delay_ticks"] or 0
        on_curve = range(t0, t0 + sum(c["D"][:eff - 1]) + 1)
        run.dist("I.ticks-with-a-call-expected", len(ctl))
        if any(t not in ctl for t in on_curve):
            run.dist("I.silenced-on-its-curve")
            if any(t in ctl and t - 1 not in ctl for t in on_curve if t > t0):
                run.dist("I.audible-again-after-silence")
        bad = oracle(c, r)
        run.cov["oracle_evaluations"] += 1
        if r["calls"]:
            run.nontrivial(json.dumps(payload_of(c), sort_keys=True))
        seen = set()
        for kind, detail in bad:
            if kind in seen:
                continue
            seen.add(kind); explained.add(i)
            run.violation({"kind": kind, "site": "interpolated-track"}, {
                "part": "interp", "case": c, "observed": detail,
                "oracle": "a muted / unscheduled / stopped / cleared / not yet started interpolating track makes no device call; an audible tick carries "
                          "the value of its place on the closed-form curve; the track leaves on the tick after its last point",
                "control_calls": [[x[0], dec(x[2]), dec(x[3]), dec(x[4])] for x in r["calls"] if x[1] == "ctl"][:60],
                "python": snippet(c)})
        if i % 60 == 0:
            run.sample({"family": "I", "N": c["N"], "mode": c["mode"], "values": c["values"], "D": c["D"], "ops": c["ops"],
                        "n_control_calls": sum(1 for x in r["calls"] if x[1] == "ctl")})
    ok_idx = [i for i in range(len(cases)) if "driver_error" not in results[i]]
    failing = coq_compare(run, [cases[i] for i in ok_idx], [results[i] for i in ok_idx])
    run.cov["traces_validated_against_impl"] += len(ok_idx) - len(failing)
    run.cov["interp_lifecycles_validated_against_model"] = len(ok_idx) - len(failing)
    for j in [x for x in failing if ok_idx[x] not in explained][:2]:
        i = ok_idx[j]
        c, r = cases[i], results[i]
        run.violation({"kind": "correspondence", "site": "interpolated-track"}, {
            "part": "interp", "broken": "correspondence Sched/InterpLife.v (ltrace) <-> Track.tick (interpolating branch) / mute / unschedule: the theorems "
                                        "C06_interp_* no longer describe this code",
            "case": c, "first_difference (model, implementation) as (tick, code, control, value, channel)": coq_diff(run, c, r),
            "python": snippet(c)}, found_input=False)


def replay_case(run, doc):
    c = doc["case"]
    r = run_cases(run, [c])[0]
    if "driver_error" in r:
        print("driver error:", r); return 1
    bad = oracle(c, r)
    for b in bad:
        print("REPLAY-FAILS:", b)
    m = coq_compare(run, [c], [r])
    if m:
        print("REPLAY-FAILS: model/implementation differ first at", coq_diff(run, c, r))
    print("replay:", "violation reproduced" if (bad or m) else "the case passes")
    return 1 if (bad or m) else 0

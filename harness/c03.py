"""C03 — event dictionaries resolve to the documented device messages.
Theorems: coq/Props/C03.v about the model coq/Sched/Event.v (Event.__init__, EventDefaults, Track.perform_event and
the one-track part of Timeline.tick) and its extension coq/Sched/EventCfg.v (the timeline's defaults object as part of the
state: assignments between ticks, one pull per pattern-valued default and event), with the parameter list and the library defaults regenerated from the source
(coq/Generated/TablesC03.v).  Correspondence: Event(dict, defaults) attributes and the per-tick device calls of a
one-track timeline of the repository against the model, inside Coq (vm_compute).  Oracle: a direct Python rendering
of docs/events/*.md (closed pitch formula, precedence list, synonym table, default chain) judges every
implementation result on the documented domain."""
from common import *
import math

PROP = "C03"
EXTRA_GENERATORS = ["gen_tables_c03.py"]
META = {
 "engine": "S-scheduler",
 "text": "Coq theorems (Props/C03.v, closed under the global context) about an executable model of Event.__init__ / EventDefaults / Track.perform_event (Sched/Event.v, transcribed branch by branch over a small Python-value type; parameter names, ALL_EVENT_PARAMETERS and the library defaults are regenerated from the source on every run): every chord voice of a degree event plays tonic + scale[floor(d) mod n] + octave_size*floor(floor(d)/n) + 12*octave + transpose (negative degrees descend), a note event plays note + 12*octave + transpose; amplitude/gate/channel/duration come from the event (dur, amp, velocity folded), else the timeline defaults' current value, else the generated library default, and a default never overrides an explicit value; the event type is the first present of action > patch > control > program_change > osc_address > synth > note|degree for all 2^7 subsets; control/program-change/OSC/synth/action events emit exactly the matching call; an unknown key, note with degree, or no type key raises and emits no call. The model is tied to the repository on every run: ~4000 (quick) / ~60000 (thorough) generated dictionaries are run through Event(dict, defaults) and through a one-track Timeline with a recording OutputDevice, and the Event attributes, every device call with its tick and arguments, and the escaping exception class are compared with the model inside Coq (vm_compute); an independent oracle written from docs/events judges every implementation result on the documented domain and supplies the failing input. Streams of several dictionaries are judged dictionary by dictionary on the documented time grid (a malformed dictionary at ANY position of a stream must raise and play nothing; theorems C03_reject_*_anywhere), and the timeline's defaults are re-assigned between two events of a running track (the defaults in force when a dictionary is due complete it; model Sched/EventCfg.v with the defaults object in its state, theorems C03_current_defaults_complete_the_event, C03_reassigned_default, C03_stream_without_reassignment). Keys given as objects that are HELD and re-tuned in place between two events of the stream (key.tonic =, key.scale =, key.scale.semitones = / replaced or re-ordered in place, two keys on one Scale object; the key named by every dictionary, by some, or only by timeline.defaults.key; the stream scheduled as a pattern of dictionaries or as one dictionary of patterns): model Sched/EventHeld.v (references into the store of Key and Scale objects of Tonal/Held.v, the store in the state, every dictionary read in the store of the moment it is due), theorems C03_held_key_current, C03_held_key_pitch, C03_held_key_pitch_chord, C03_held_reject_unknown_key_anywhere, C03_held_without_retuning; the stream oracle judges every event against the key as it is when the event is due. Keys given BY NAME are looked up in the registry of scale names of the same store (Sched/EventHeld.v key_of_name_reg; C03_key_name_library: in the freshly imported library this is Sched/Event.v's key_of_name); stream 'named-key' constructs scales, weighted scales (named like the scales in use, or unnamed = 'major'), edited copies of the named scales and keys built from names earlier in the process and between two events whose key is a name (library or user-registered, in the dictionary or as timeline.defaults.key): what a registered name denotes must not change (theorems C03_named_key_pitch, C03_named_key_pitch_chord, C03_key_name_stable). Which keys are KNOWN is decided by the documentation: coq/Sched/EventKeys.v lists the 33 documented event keys by hand (not from isobar/constants.py); Props/C03Keys.v proves that the regenerated ALL_EVENT_PARAMETERS table has exactly these members (C03_parameter_table_is_documented, C03_known_iff_documented, C03_reject_undocumented_key) - a source whose whitelist grows or shrinks breaks that obligation -, the oracle reads the documented list, and the stray key of an unknown-key dictionary is drawn from every string constant of constants.py that is not a documented key (type names, interpolation modes), from near-misses of documented keys and from nonsense words.",
 "note": "Trusted: Coq kernel + VM; gen_tables.py / gen_tables_c03.py; the Python harness (case encoding, the recording device, first-value substitution for pattern-valued dictionary entries); CPython int semantics (//, % = Z.div/Z.modulo; int(float) truncates). Modelled, not verified: floats are exact rationals in the model (the harness only generates dyadic rationals on the 1/256 grid, where isobar's round(x, 8) comparisons are exact); SignalFlow patch events are classified but not dispatched; the generic-event ('event' method) device path, on_event callbacks, interpolation and str-typed numbers are outside the model (Unmodelled outcome, such cases are discarded and counted).",
}

HEADER = """From Isobar Require Import Base.Prelude Tonal.Key Tonal.Held Generated.Tables Generated.TablesC03 Sched.Event Sched.EventCfg Sched.EventHeld.
From Coq Require Import String QArith.
Local Open Scope Z_scope.
Definition bscale (name : string) : scale :=
  match find (fun ns => String.eqb (fst ns) name) builtin_scales with Some (_, s) => s | None => mkScale [] 0 end.
Definition ob (o : option bool) : bool := match o with Some b => b | None => true end.
Definition md (o : option bool) : bool := match o with Some _ => true | None => false end.
Definition ovr (l : list (string * val)) : dict := fold_left (fun d kv => dset d (fst kv) (snd kv)) l lib_defaults.
Definition Vs := VStr.
Definition Vi := VInt.
Definition C (t : Z) (m : string) (a : list val) : Z * call := (t, Call m a).
Definition CH (t : Z) (kvs : list (string * val)) : Z * list (string * val) := (t, kvs).
Definition MU (t : Z) (ops : list hop) : Z * list hop := (t, ops).
Definition HK (slot : Z) : val := VObj "heldkey" slot [].
(* Event(dict, defaults): the exception class, or Event.type (the other attributes are compared through the device calls) *)
Definition event_agrees (defs d : dict) (exp_exn : option string) (exp_type : val) : option bool :=
  match resolve defs d, exp_exn with
  | Unmodelled, _ => None
  | Raise c, Some c' => Some (String.eqb c c')
  | Ok e, None => Some (val_eqb (e_type e) exp_type)
  | _, _ => Some false
  end.
"""

TYPE_KEYS = ["action", "patch", "control", "program_change", "osc_address", "synth"]   # then note | degree
DEFAULT_NAMES = ["active", "channel", "duration", "gate", "amplitude", "octave", "transpose", "key", "quantize", "delay", "pitchbend"]


# ------------------------------------------------------------------------------------------------------
# encoded values (see harness/impl/c03_impl.py)
# ------------------------------------------------------------------------------------------------------
def F(x):
    fr = Fraction(x)
    return {"f": [fr.numerator, fr.denominator]}


def T(*xs):
    return {"t": list(xs)}


def L(*xs):
    return {"l": list(xs)}


def D(*kvs):
    return {"d": [list(kv) for kv in kvs]}


def P(*xs):
    return {"p": list(xs)}


def is_f(v):
    return isinstance(v, dict) and "f" in v


def num(v):
    """Fraction value of an encoded number, else None (bool counts as int, as in Python)"""
    if isinstance(v, bool):
        return Fraction(int(v))
    if isinstance(v, int):
        return Fraction(v)
    if is_f(v):
        return Fraction(v["f"][0], v["f"][1])
    return None


def const(v):
    """what a PDict hands to Event for this entry: every pattern replaced by its next value"""
    if isinstance(v, dict):
        if "p" in v:
            return const(v["p"][0])
        if "t" in v:
            return {"t": [const(x) for x in v["t"]]}
        if "d" in v:
            return {"d": [[k, const(x)] for k, x in v["d"]]}
    return v


def has_pattern(v):
    if isinstance(v, dict):
        if "p" in v:
            return True
        for k in ("t", "l"):
            if k in v:
                return any(has_pattern(x) for x in v[k])
        if "d" in v:
            return any(has_pattern(x) for _, x in v["d"])
    return False


def advance(v, i):
    """a pattern-valued default after i events"""
    if isinstance(v, dict) and "p" in v:
        return {"p": v["p"][i:]}
    return v


def vlit(v):
    if v is None:
        return "VNone"
    if isinstance(v, bool):
        return "(VBool %s)" % blit(v)
    if isinstance(v, int):
        return "(Vi %s)" % zlit(v)
    if isinstance(v, str):
        return "(Vs %s)" % slit(v)
    if "f" in v:
        return "(VFlt (%s # %d))" % (zlit(v["f"][0]), v["f"][1])
    if "t" in v:
        return "(VTup %s)" % lst([vlit(x) for x in v["t"]])
    if "l" in v:
        return "(VList %s)" % lst([vlit(x) for x in v["l"]])
    if "d" in v:
        return "(VDict %s)" % dlit(v["d"])
    if "k" in v:
        t, semis, osize = v["k"]
        if v.get("name") is not None:
            return "(VKey (mkKey %s (bscale %s)))" % (zlit(t), slit(v["name"]))
        return "(VKey (mkKey %s (mkScale %s %s)))" % (zlit(t), zlist(semis), zlit(osize))
    if "o" in v:
        kind, oid, ps = v["o"]
        return "(VObj %s %s %s)" % (slit(kind), zlit(oid), lst([slit(p) for p in ps]))
    if "hk" in v:
        return "(HK %d)" % v["hk"]
    if "p" in v:
        return "(VPat %s)" % lst([vlit(x) for x in v["p"]])
    return '(VObj "unencodable" 0 [])'


def dlit(kvs):
    return lst(["(%s, %s)" % (slit(k), vlit(x)) for k, x in kvs])


def defs_lit(overrides):
    if not overrides:
        return "lib_defaults"
    return "(ovr %s)" % dlit(overrides)


def trace_lit(tr):
    return lst(["C %s %s %s" % (zlit(t), slit(m), lst([vlit(a) for a in args])) for t, m, args in tr])


def pysrc(v):
    """Python source of an encoded value, for replay snippets"""
    if v is None or isinstance(v, (bool, int, str)):
        return repr(v)
    if "f" in v:
        return repr(v["f"][0] / v["f"][1])
    if "t" in v:
        return "(" + "".join(pysrc(x) + ", " for x in v["t"]) + ")"
    if "l" in v:
        return "[" + ", ".join(pysrc(x) for x in v["l"]) + "]"
    if "d" in v:
        return "{" + ", ".join("%r: %s" % (k, pysrc(x)) for k, x in v["d"]) + "}"
    if "k" in v:
        t, semis, osize = v["k"]
        if v.get("name") is not None:
            return "iso.Key(%d, iso.Scale.byname(%r))" % (t, v["name"])
        return "iso.Key(%d, iso.Scale(%r, 'user', octave_size=%d))" % (t, semis, osize)
    if "o" in v:
        kind, oid, ps = v["o"]
        if kind == "fun":
            return "(lambda %s: dev.calls.append(('action', locals())))" % ", ".join("%s=None" % p for p in ps)
        if kind == "class":
            return "type('PatchSpecClass', (), {})"
        if kind == "scale":
            return "iso.Scale.minor"
        return "object()"
    if "hk" in v:
        return "held%d" % v["hk"]
    if "p" in v:
        return "iso.PSequence([%s], 1)" % ", ".join(pysrc(x) for x in v["p"])
    return "None"


def snippet(case):
    lines = ["import isobar as iso",
             "class Rec(iso.OutputDevice):",
             "    def __init__(self): super().__init__(); self.calls = []",
             "    def __getattr__(self, m):",
             "        if m in ('note_on','note_off','control','program_change','send','create','pitch_bend'):",
             "            return lambda *a, **k: self.calls.append((m, a))",
             "        raise AttributeError(m)",
             "dev = Rec()",
             "for m in ('note_on','note_off','control','program_change'): setattr(Rec, m, (lambda m: lambda self, *a: self.calls.append((m, a)))(m))",
             "tl = iso.Timeline(output_device=dev, clock_source=iso.DummyClock(ticks_per_beat=%d))" % case["tpb"]]
    for slot, tonic, semis, osize, share in case.get("held") or []:
        sc = "held%d.scale" % share if share is not None else "iso.Scale(%r, 'held-scale-%d', octave_size=%d)" % (semis, slot, osize)
        lines.append("held%d = iso.Key(%d, %s)    # a Key object the user keeps and re-tunes while the track runs" % (slot, tonic, sc))
    for name, v in case["defaults"]:
        lines.append("tl.defaults.%s = %s" % (name, pysrc(v)))
    if case["mode"] == "pdict":
        lines.append("track = tl.schedule(%s, count=1)" % pysrc({"d": case["events"][0]}))
    elif case["mode"] == "pdictseq":
        ents = []
        for k, _v in case["events"][0]:
            col = [dict((kk, vv) for kk, vv in ev)[k] for ev in case["events"]]
            if all(isinstance(v, dict) and "hk" in v for v in col) and len(set(v["hk"] for v in col)) == 1:
                ents.append("%r: %s" % (k, pysrc(col[0])))
            else:
                ents.append("%r: iso.PSequence([%s], 1)" % (k, ", ".join(pysrc(v) for v in col)))
        lines.append("track = tl.schedule({%s})" % ", ".join(ents))
    else:
        lines.append("track = tl.schedule(iso.PSequence([%s], 1))" % ", ".join(pysrc({"d": e}) for e in case["events"]))
    if case.get("muted"):
        lines.append("track.mute()")
    def mut_stmts(ms):
        stm = []
        for m in ms:
            if m[0] == "newscale":
                nm, semis, osize, how = m[1], m[2], m[3], m[4]
                stm.append({"Scale": "iso.Scale(%r, %r, octave_size=%d)" % (semis, nm, osize),
                            "Scale-unnamed": "iso.Scale(%r, octave_size=%d)" % (semis, osize),
                            "fromnotes": "iso.Scale.fromnotes(%r, name=%r, octave_size=%d)" % (semis, nm, osize),
                            "WeightedScale": "iso.WeightedScale(%r, %r, %r, octave_size=%d)" % (semis, [1.0 / len(semis)] * len(semis), nm, osize),
                            "WeightedScale-unnamed": "iso.WeightedScale(%r, %r)" % (semis, [1.0 / len(semis)] * len(semis))}[how])
            elif m[0] == "copyedit":
                c = {"copy()": "iso.Scale.byname(%r).copy()", "copy.copy": "__import__('copy').copy(iso.Scale.byname(%r))",
                     "copy.deepcopy": "__import__('copy').deepcopy(iso.Scale.byname(%r))"}[m[3]] % m[1]
                stm.append("private = %s" % c + ("; private.semitones = %r" % (m[2],) if m[2] is not None else ""))
            elif m[0] == "keynamed":
                nn = NOTE_NAMES12[m[2]]
                stm.append("held%d = %s" % (m[1], {"Key(t,name)": "iso.Key(%d, %r)" % (m[2], m[3]), "Key(note,name)": "iso.Key(%r, %r)" % (nn, m[3]),
                                                    "Key('note name')": "iso.Key(%r)" % ("%s %s" % (nn, m[3]))}[m[4]]))
            elif m[0] == "tonic":
                stm.append("held%d.tonic = %d" % (m[1], m[2]))
            elif m[0] == "scale":
                stm.append("held%d.scale = iso.Scale(%r, 'another held scale', octave_size=%d)" % (m[1], m[2], m[3]))
            elif m[3] == "assign":
                stm.append("held%d.scale.semitones = %r" % (m[1], m[2]))
            elif m[3] == "inplace":
                stm.append("held%d.scale.semitones[:] = %r" % (m[1], m[2]))
            else:
                stm.append("(lambda l: l.__setitem__(slice(None), [l[%d] if i == %d else l[%d] if i == %d else x for i, x in enumerate(l)]))(held%d.scale.semitones)   # as Scale.change()"
                           % (m[4][1], m[4][0], m[4][0], m[4][1], m[1]))
        return stm
    changes = case.get("changes") or []
    muts = case.get("muts") or []
    for at, ms in muts:
        if at == -1:
            lines.extend(x + "    # earlier in the process, before the first tick" for x in mut_stmts(ms))
    for at, kvs in changes:
        if at == -1:
            for name, v in kvs:
                lines.append("tl.defaults.%s = %s    # after schedule(), before the first tick" % (name, pysrc(v)))
    lines.append("for t in range(%d):" % case["nticks"])
    lines.append("    n = len(dev.calls); tl.tick(); print(t, dev.calls[n:])")
    for at, ms in muts:
        if at >= 0:
            lines.append("    if t == %d: %s" % (at, "; ".join(mut_stmts(ms))))
    for at, kvs in changes:
        if at >= 0:
            lines.append("    if t == %d: %s" % (at, "; ".join("tl.defaults.%s = %s" % (name, pysrc(v)) for name, v in kvs)))
    return "\n".join(lines)


# ------------------------------------------------------------------------------------------------------
# the oracle: docs/events/*.md rendered directly (no reference to the model)
# ------------------------------------------------------------------------------------------------------
LIB_DEFAULTS = None        # filled at the start of check(): documented keys (coq/Sched/EventKeys.v), library default values
CONSTANT_STRINGS = []      # every string constant of isobar/constants.py (read through the driver)


def oracle(case, scales, note_names, _probe=False):
    """Expected observation of a one-event case by the documentation.
    Returns None when the documentation does not determine the result (outside the documented domain),
    ("reject",) when the dictionary must be rejected with an error and nothing played,
    ("calls", [[tick, method, [args]], ...], forbidden_methods) otherwise."""
    if len(case["events"]) != 1 or case.get("muted"):
        return None
    ev = dict((k, const(v)) for k, v in case["events"][0])
    keys = [k for k, _ in case["events"][0]]
    if any(k not in LIB_DEFAULTS["params"] for k in keys):
        return ("reject",)
    if "note" in ev and "degree" in ev:
        return ("reject",)
    present = [k for k in TYPE_KEYS if k in ev] + (["note"] if ("note" in ev or "degree" in ev) else [])
    if not present:
        return ("reject",)
    etype = present[0]                               # documented precedence: first of the list that is present
    tdef = dict((k, const(v)) for k, v in case["defaults"])

    def chain(name, synonyms=()):
        """event value (through its synonyms), else the timeline default, else the library default"""
        given = [k for k in (name,) + tuple(synonyms) if k in ev]
        if len(given) > 1:
            raise LookupError("several synonyms given")      # the documentation does not rank them
        if given:
            return ev[given[0]]
        if name in tdef:
            return tdef[name]
        return LIB_DEFAULTS["values"][name]

    try:
        active = chain("active")
        if active is None or active is False or active == 0:
            # an inactive event plays nothing - provided the same dictionary, were it active, is one the documentation
            # determines (a malformed dictionary may raise while being resolved, active or not: not judged)
            c2 = dict(case)
            c2["events"] = [[kv for kv in case["events"][0] if kv[0] != "active"] + [["active", True]]]
            c2["defaults"] = [kv for kv in case["defaults"] if kv[0] != "active"]
            probe = None if _probe else oracle(c2, scales, note_names, _probe=True)
            return ("calls", [], ()) if (probe is not None and probe[0] == "calls") else None
        if active is not True and active != 1:
            return None
        if etype == "patch":
            return ("calls", None, ("note_on", "control", "program_change", "send", "action"))
        if etype == "action":
            fn = ev["action"]
            if not (isinstance(fn, dict) and "o" in fn and fn["o"][0] == "fun"):
                return None
            args = ev.get("args", D())
            if not (isinstance(args, dict) and "d" in args):
                return None
            if any(k not in fn["o"][2] for k, _ in args["d"]):
                return None
            return ("calls", [[0, "action", [fn, args]]], ())
        if etype == "control":
            if "value" not in ev:
                return None
            return ("calls", [[0, "control", [ev["control"], ev["value"], chain("channel")]]], ())
        if etype == "program_change":
            return ("calls", [[0, "program_change", [ev["program_change"], chain("channel")]]], ())
        if etype == "osc_address":
            ps = ev.get("osc_params")
            if not (isinstance(ps, dict) and ("l" in ps or "t" in ps)):
                return None
            return ("calls", [[0, "send", [ev["osc_address"], {"l": list(ps.get("l", ps.get("t")))}]]], ())
        if etype == "synth":
            ps = ev.get("params")
            if not (isinstance(ps, dict) and "d" in ps):
                return None
            return ("calls", [[0, "create", [ev["synth"], ps]]], ())
        # ---- note events ---------------------------------------------------------------------------------
        octave, transpose = chain("octave"), chain("transpose")
        if type(octave) is not int or type(transpose) is not int:
            return None
        if chain("pitchbend") is not None:
            return None
        src = ev["degree"] if "degree" in ev else ev["note"]
        if src is None:
            return ("calls", [], ())                 # a rest
        chord = isinstance(src, dict) and ("t" in src or "l" in src)
        elems = (src.get("t", src.get("l")) if chord else [src])
        if chord and not elems:
            return None
        pitches = []
        if "degree" in ev:
            key = chain("key")
            if isinstance(key, str):
                parts = key.split(" ")
                if len(parts) > 2:
                    return None
                tonic = None
                for i, names in enumerate(note_names):
                    if parts[0].capitalize() in names:
                        tonic = i
                if tonic is None:
                    return None
                sname = parts[1] if len(parts) == 2 else "major"
                if sname not in scales:
                    return None
                semis, osize = scales[sname]
            elif isinstance(key, dict) and "k" in key:
                tonic, semis, osize = key["k"]
            else:
                return None
            if not semis:
                return None
            n = len(semis)
            for d in elems:
                if type(d) is int:
                    fl = d
                elif is_f(d) and num(d) >= 0:
                    fl = math.floor(num(d))
                else:
                    return None
                pitches.append(tonic + semis[fl % n] + osize * (fl // n) + 12 * octave + transpose)
        else:
            for x in elems:
                if type(x) is not int:
                    return None
                pitches.append(x + 12 * octave + transpose)
        amp, gate, chan = chain("amplitude", ("amp", "velocity")), chain("gate"), chain("channel")
        dur = num(chain("duration", ("dur",)))
        if dur is None or dur <= 0:
            return None
        ons, offs = [], []

        def per_voice(x, i):
            if isinstance(x, dict) and "t" in x:
                if len(x["t"]) != len(pitches):
                    raise LookupError("per-voice tuple of another length")
                return x["t"][i]
            return x
        for i, p in enumerate(pitches):
            a, g, c = per_voice(amp, i), per_voice(gate, i), per_voice(chan, i)
            if num(a) is None or num(g) is None or type(c) is not int or num(a) <= 0 or num(g) <= 0:
                return None
            ons.append([0, "note_on", [p, a, c]])
            offs.append([math.ceil(dur * num(g) * case["tpb"]), "note_off", [p, c]])
        offs = [o for o in sorted(offs, key=lambda o: o[0]) if o[0] < case["nticks"]]   # stable: voice order per tick
        return ("calls", ons + offs, ())
    except LookupError:
        return None


LIB_TABLE = []            # [[name, semitones, octave_size], ...] of the freshly imported library, in Scale.dict order (load_tables)
NOTE_TABLE = []           # util.note_names
NOTE_NAMES12 = ["C", "C#", "D", "Eb", "E", "F", "F#", "G", "Ab", "A", "Bb", "B"]


class HeldStore:
    """the Key objects a case holds ({"hk": slot}), the Scale objects they refer to and the names scales are registered under, as
    they are after the operations applied so far; also renders the operations as Coq terms (Tonal/Held.v hop) for the model,
    which keeps its own store.  A name denotes the scale FIRST registered under it: the library's scales keep their names."""
    def __init__(self, held):
        self.scales, self.keys, self.next_oid, self.init_ops = {}, {}, 100, []
        self.reg = {}                                      # name -> object number
        for i, (name, semis, osize) in enumerate(LIB_TABLE):
            self.scales[i] = [list(semis), osize]
            self.reg[name] = i
        self.user_names = set()
        for slot, tonic, semis, osize, share in held or []:
            if share is None:
                oid = self.new_scale(semis, osize, self.init_ops)
            else:
                oid = self.keys[share][1]
            self.keys[slot] = [tonic, oid]
            self.init_ops.append("HKey %d %s %d" % (slot, zlit(tonic), oid))

    def new_scale(self, semis, osize, out, name=None):
        oid = self.next_oid
        self.next_oid += 1
        self.scales[oid] = [list(semis), osize]
        name = name if name is not None else "held-scale-%d" % oid
        if name not in self.reg:
            self.reg[name] = oid
            self.user_names.add(name)
        out.append("HScale %d %s (mkScale %s %s)" % (oid, slit(name), zlist(semis), zlit(osize)))
        return oid

    def apply(self, m):
        """perform one operation; returns its Coq rendering"""
        out = []
        kind = m[0]
        if kind == "newscale":
            name, semis, osize, how = m[1], m[2], m[3], m[4]
            if how == "WeightedScale-unnamed":
                name, osize = "major", 12
            elif how == "Scale-unnamed":
                name = "unnamed scale"
            self.new_scale(semis, osize, out, name)
            return out
        if kind == "copyedit":
            src = self.reg[m[1]]
            oid = self.next_oid
            self.next_oid += 1
            self.scales[oid] = [list(self.scales[src][0]), self.scales[src][1]]
            out.append("HScaleCopy %d %d" % (oid, src))
            if m[2] is not None:
                self.scales[oid][0] = list(m[2])
                out.append("HSemis %d %s" % (oid, zlist(m[2])))
            return out
        if kind == "keynamed":
            self.keys[m[1]] = [m[2], self.reg[m[3]]]
            out.append("HKeyNamed %d %s %s" % (m[1], zlit(m[2]), slit(m[3])))
            return out
        slot = m[1]
        if kind == "tonic":
            self.keys[slot][0] = m[2]
            out.append("HTonic %d %s" % (slot, zlit(m[2])))
        elif kind == "scale":
            oid = self.new_scale(m[2], m[3], out)
            self.keys[slot][1] = oid
            out.append("HRescale %d %d" % (slot, oid))
        else:
            oid = self.keys[slot][1]
            self.scales[oid][0] = list(m[2])
            out.append("HSemis %d %s" % (oid, zlist(m[2])))
        return out

    def kdef(self, slot):
        t, oid = self.keys[slot]
        return {"k": [t, list(self.scales[oid][0]), self.scales[oid][1]]}

    def named(self, s):
        """a key given as a string whose scale name was registered by the USER: the key it denotes (the names of the library are
        left to the oracle, which knows the documented scales)"""
        parts = s.split(" ")
        if len(parts) == 2 and parts[1] in self.user_names:
            for i, names in enumerate(NOTE_TABLE):
                if parts[0].capitalize() in names:
                    oid = self.reg[parts[1]]
                    return {"k": [i, list(self.scales[oid][0]), self.scales[oid][1]]}
        return s

    def subst(self, v, is_key=False):
        """a value with every reference to a held key replaced by the key as it is now (and, for the `key` entry, a user-registered
        name by the key it denotes now)"""
        if isinstance(v, dict):
            if "hk" in v:
                return self.kdef(v["hk"])
            if "p" in v:
                return {"p": [self.subst(x, is_key) for x in v["p"]]}
        if is_key and isinstance(v, str):
            return self.named(v)
        return v

    def subst_kvs(self, kvs):
        return [[k, self.subst(v, k == "key")] for k, v in kvs]


def doc_param(ev, defaults, name, synonyms=()):
    """the documented value of a parameter: the event's (through its synonyms; undetermined when several are given),
    else the timeline default in force, else the library default.  Raises LookupError when undetermined."""
    e = dict((k, const(v)) for k, v in ev)
    given = [k for k in (name,) + tuple(synonyms) if k in e]
    if len(given) > 1:
        raise LookupError("several synonyms given")
    if given:
        return e[given[0]]
    td = dict((k, const(v)) for k, v in defaults)
    if name in td:
        return td[name]
    return LIB_DEFAULTS["values"][name]


def doc_duration(ev, defaults):
    """the documented duration of an event (beats, Fraction), None when the documentation does not determine it"""
    try:
        d = doc_param(ev, defaults, "duration", ("dur",))
    except LookupError:
        return None
    if isinstance(d, bool) or not (isinstance(d, int) or is_f(d)):
        return None
    d = num(d)
    return d if d > 0 else None


def stream_plan(case):
    """Which timeline defaults are in force for the i-th dictionary of the case's stream, what the Key objects it refers to are at
    that moment (third component: the dictionary with every held key replaced by its present definition), and at which tick it is due, by the
    documentation: event 0 is due at tick 0, event i+1 one documented duration after event i; an assignment
    'after tick a' is in force for every event due at a tick > a; a pattern-valued default yields one value per event
    since it was assigned.  Returns [(tick, defaults), ...], cut where the documentation stops determining the timing."""
    tpb = case["tpb"]
    changes = sorted(case.get("changes") or [], key=lambda c: c[0])
    muts = sorted(case.get("muts") or [], key=lambda c: c[0])
    store, mutated = HeldStore(case.get("held")), 0
    cur = [[n, v, 0] for n, v in case["defaults"]]        # name, value, values pulled since it was assigned
    plan, s, applied = [], Fraction(0), 0
    for i, ev in enumerate(case["events"]):
        while mutated < len(muts) and muts[mutated][0] < s:   # an in-place operation after tick a: in force for everything due later
            for m in muts[mutated][1]:
                store.apply(m)
            mutated += 1
        while applied < len(changes) and changes[applied][0] < s:
            for name, v in changes[applied][1]:
                hit = [c for c in cur if c[0] == name]
                if hit:
                    hit[0][1], hit[0][2] = v, 0
                else:
                    cur.append([name, v, 0])
            applied += 1
        dfl = [[n, store.subst(advance(v, k), n == "key")] for n, v, k in cur]       # a held key / a user-registered name: the key as it is at this moment
        if any(isinstance(v, dict) and "p" in v and not v["p"] for _n, v in dfl):
            break                                           # an exhausted pattern-valued default: not documented
        plan.append((int(s), dfl, store.subst_kvs(ev)))
        dur = doc_duration(ev, dfl)
        if dur is None or (dur * tpb).denominator != 1:
            break
        s += dur * tpb
        for c in cur:
            c[2] += 1
    return plan


def oracle_stream(case, scales, note_names):
    """Expected observation of a track that performs SEVERAL dictionaries (a pattern yielding dictionaries), possibly while
    timeline.defaults is re-assigned between two events: every dictionary is judged on its own by oracle(), against the
    defaults in force when it is due, and the messages are laid out on the documented time grid.
    Returns None, or (horizon, expected calls [[tick, method, args]], reject_tick | None): ticks below the horizon are
    determined by the documentation; when reject_tick is set the dictionary due at that tick must be rejected with an
    error and nothing of it (or of anything after it) may be played."""
    if case.get("muted") or case["mode"] not in ("pseq", "pdictseq"):
        return None
    plan = stream_plan(case)
    horizon, reject, exp = case["nticks"], None, []
    for i, ev in enumerate(case["events"]):
        if i >= len(plan):
            break
        s, dfl, ev = plan[i]
        if s >= case["nticks"]:
            break
        one = {"tpb": case["tpb"], "nticks": case["nticks"] - s, "muted": False, "mode": "pseq", "defaults": dfl, "events": [ev]}
        o = oracle(one, scales, note_names)
        if o is None or (o[0] == "calls" and o[1] is None):
            horizon = s
            break
        if o[0] == "calls" and doc_duration(ev, dfl) is None:
            horizon = s                                     # a dictionary whose duration is not a documented one: not judged
            break
        if o[0] == "reject":
            horizon, reject = s, s
            break
        exp.extend([[t + s, m, a] for t, m, a in o[1]])
        try:
            active = doc_param(ev, dfl, "active")
        except LookupError:
            active = None
        inactive = not (active is True or (type(active) is int and active == 1))
        if i + 1 < len(case["events"]) and (i + 1 >= len(plan) or inactive):
            horizon = s + 1                                 # when the next dictionary is due is not documented
            break
    exp = [x for x in exp if x[0] < horizon]
    return (horizon, exp, reject)


def by_tick(trace, horizon):
    """per tick: the calls other than note_off in order, and the note_offs as a sorted multiset (the documentation does
    not order the note-offs of one tick)"""
    out = {}
    for t, m, a in trace:
        if t < horizon:
            slot = out.setdefault(t, ([], []))
            if m == "note_off":
                slot[1].append(json.dumps(a, sort_keys=True))
            else:
                slot[0].append([t, m, a])
    for t in out:
        out[t][1].sort()
    return out


def judge_stream(case, res, exp):
    """(kind, why) when the observation contradicts the documented stream, else None"""
    horizon, calls, reject = exp
    raise_at = res.get("raise_at")
    if res["raise"] is not None and raise_at is not None and raise_at < horizon:
        return ("unexpected-exception", "%s escaped from tick %d, where every dictionary due so far is a documented one" % (res["raise"], raise_at))
    got, want = by_tick(res["trace"], horizon), by_tick(calls, horizon)
    for t in sorted(set(got) | set(want)):
        g, w = got.get(t, ([], [])), want.get(t, ([], []))
        if not trace_eq(g[0], w[0]):
            kind = "wrong-calls" if [x[1] for x in g[0]] == [x[1] for x in w[0]] else "wrong-method"
            return (kind, "tick %d: device calls %r differ from the documented ones %r" % (t, g[0], w[0]))
        if g[1] != w[1]:
            return ("wrong-calls", "tick %d: note_offs %r differ from the documented ones %r" % (t, g[1], w[1]))
    if reject is not None:
        played = [x for x in res["trace"] if x[0] >= reject and x[1] != "note_off"]
        if res["raise"] is None or played:
            return ("not-rejected", "the dictionary due at tick %d must be rejected with an error and nothing of it played; "
                                    "observed exception %r, calls from that tick on %r" % (reject, res["raise"], played))
    return None


def venc_eq(a, b):
    """equality of encoded values with Python's type distinctions (1, 1.0, True differ); floats by value"""
    if type(a) is not type(b):
        return False
    if isinstance(a, dict):
        if set(a.keys()) - {"name"} != set(b.keys()) - {"name"}:
            return False
        if "f" in a:
            return Fraction(*a["f"]) == Fraction(*b["f"])
        if "d" in a:
            return len(a["d"]) == len(b["d"]) and all(k == k2 and venc_eq(x, y) for (k, x), (k2, y) in zip(a["d"], b["d"]))
        if "o" in a:
            return a["o"][:2] == b["o"][:2]
        for k in ("t", "l", "p"):
            if k in a:
                return len(a[k]) == len(b[k]) and all(venc_eq(x, y) for x, y in zip(a[k], b[k]))
        if "k" in a:
            return a["k"] == b["k"]
        return a == b
    return a == b


def trace_eq(a, b):
    return len(a) == len(b) and all(x[0] == y[0] and x[1] == y[1] and len(x[2]) == len(y[2]) and
                                    all(venc_eq(p, q) for p, q in zip(x[2], y[2])) for x, y in zip(a, b))


# ------------------------------------------------------------------------------------------------------
# generators
# ------------------------------------------------------------------------------------------------------
class Gen:
    def __init__(self, rng, scales, note_names):
        self.rng = rng
        self.scales = scales                      # name -> (semis, osize)
        self.scale_names = sorted(scales)
        self.note_names = note_names
        self.next_id = 0
        self.last_stray = None

    def fresh(self):
        self.next_id += 1
        return self.next_id

    def pick(self, *xs):
        return self.rng.choice(xs)

    # ---- pieces -------------------------------------------------------------------------------------------
    def degree_scalar(self):
        r = self.rng
        k = r.random()
        if k < 0.30:
            return r.randint(-64, -1)
        if k < 0.55:
            return r.randint(0, 6)
        if k < 0.80:
            return r.randint(7, 64)
        if k < 0.97:
            return F(r.randint(0, 40) + r.choice([0, 0.25, 0.5, 0.75, 0.984375]))
        return r.choice([True, False])

    def key_value(self):
        r = self.rng
        k = r.random()
        if k < 0.35:
            name = r.choice(self.scale_names)
            semis, osize = self.scales[name]
            return {"k": [r.choice([0, 0, 1, 2, 5, 7, 11, -3, 14, r.randint(-12, 24)]), semis, osize], "name": name}
        if k < 0.60:
            o = r.randint(5, 24)
            n = r.randint(1, min(9, o))
            return {"k": [r.randint(-12, 24), sorted(r.sample(range(o), n)), o]}
        names = [nm for ns in self.note_names for nm in ns]
        nm = r.choice(names)
        nm = r.choice([nm, nm, nm.lower(), nm.upper()])
        if k < 0.70:
            return nm
        sn = r.choice([s for s in self.scale_names if " " not in s])
        return "%s %s" % (nm, sn)

    def dur_value(self):
        return self.pick(1, 1, 2, F(0.25), F(0.5), F(0.75), F(1.0), F(1.5), F(2.0), 3)

    def gate_value(self):
        return self.pick(F(1.0), F(0.5), F(0.25), F(1.5), F(2.0), 1, 2, F(0.125), F(0.75))

    def amp_value(self):
        return self.pick(64, 127, 1, 30, 100, F(80.0), F(0.5), 96, 10)

    def chan_value(self):
        return self.rng.randint(0, 15)

    def maybe_pattern(self, v, mk, p=0.12):
        """wrap a value into a pattern whose later values differ (so that pulling twice is visible)"""
        if self.rng.random() < p:
            return P(v, mk(), mk())
        return v

    def default_overrides(self, p_each=0.15):
        r = self.rng
        out = []
        mk = {"amplitude": self.amp_value, "gate": self.gate_value, "channel": self.chan_value,
              "duration": self.dur_value, "octave": lambda: r.randint(-1, 7), "transpose": lambda: r.randint(-12, 12),
              "key": lambda: self.key_value(), "active": lambda: r.choice([True, True, True, False, 1, 0]),
              "quantize": lambda: 0, "delay": lambda: 0, "pitchbend": lambda: None}
        for name in DEFAULT_NAMES:
            if name in ("quantize", "delay", "pitchbend"):
                continue
            if r.random() < p_each:
                v = mk[name]()
                if name == "amplitude" and r.random() < 0.15:
                    v = T(*[self.amp_value() for _ in range(r.randint(2, 4))])
                out.append([name, self.maybe_pattern(v, mk[name], 0.35)])
        return out

    def finish(self, events, defaults, mode="pdict", muted=False):
        """nticks long enough for every documented call of the case"""
        tpb = 4
        events = [dedupe(ev) for ev in events]
        for ev in events:
            for k, v in ev:
                if notation_like(v):
                    raise CheckError("generator emitted a string the notation parser would take: %r" % (v,))
        total = Fraction(0)
        longest = Fraction(0)
        for ev in events:
            e = dict((k, const(v)) for k, v in ev)
            td = dict((k, const(v)) for k, v in defaults)
            d = e.get("dur", e.get("duration", td.get("duration", 1)))
            dn = num(d)
            if dn is None or dn <= 0 or dn > 4:
                dn = Fraction(1)
            g = e.get("gate", td.get("gate", 1))
            gs = g["t"] if isinstance(g, dict) and "t" in g else [g]
            gm = max([num(x) for x in gs if num(x) is not None and 0 < num(x) <= 8] + [Fraction(1)])
            longest = max(longest, total + dn * gm)
            total += dn
        nticks = min(80, int(math.ceil(max(total, longest) * tpb)) + 2)
        if mode == "pdict":
            direct = [[k, const(v)] for k, v in events[0]]
        else:
            direct = events[0]
        return {"tpb": tpb, "nticks": nticks, "muted": muted, "mode": mode, "defaults": defaults,
                "events": events, "direct": direct}

    # ---- stream A: note events ----------------------------------------------------------------------------
    def note_event(self, want_pattern_entries=True):
        r = self.rng
        ev = []
        strata = []
        nv = r.choice([1, 1, 1, 2, 3, 3, 4])
        shape = r.choice(["scalar", "scalar", "tuple", "tuple", "list"])
        if shape == "scalar":
            nv = 1
        use_degree = r.random() < 0.72
        if use_degree:
            if r.random() < 0.06:
                src = None
                strata.append("degree.None")
            else:
                ds = [self.degree_scalar() for _ in range(nv)]
                for d in ds:
                    strata.append("degree." + ("float" if is_f(d) else "bool" if isinstance(d, bool) else "neg" if d < 0 else "0-6" if d < 7 else "beyond-octave"))
                src = ds[0] if shape == "scalar" else (T(*ds) if shape == "tuple" else L(*ds))
            ev.append(["degree", src])
            if r.random() < 0.75:
                kv = self.key_value()
                strata.append("key." + ("name" if isinstance(kv, str) else "builtin-object" if kv.get("name") else "user-scale-object"))
                ev.append(["key", kv])
            else:
                strata.append("key.default")
        else:
            if r.random() < 0.08:
                src = None
                strata.append("note.None")
            else:
                ns = [r.randint(0, 127) if r.random() < 0.85 else F(r.randint(20, 100) + r.choice([0.5, 0.25, 0.0])) for _ in range(nv)]
                strata.append("note." + ("float" if any(is_f(x) for x in ns) else "int"))
                src = ns[0] if shape == "scalar" else (T(*ns) if shape == "tuple" else L(*ns))
            ev.append(["note", src])
        strata.append("chord." + shape + (".%d" % nv if shape != "scalar" else ""))
        if r.random() < 0.6:
            o = r.choice([r.randint(-2, 8), r.randint(0, 6), r.randint(3, 5)])
            if r.random() < 0.08:
                o = F(o + r.choice([0.0, 0.5]))
            ev.append(["octave", o])
            strata.append("octave.given")
        if r.random() < 0.5:
            t = r.randint(-24, 24)
            if r.random() < 0.08:
                t = F(t + r.choice([0.0, 0.5]))
            ev.append(["transpose", t])
            strata.append("transpose.given")
        # amplitude through one of its three names (sometimes two of them at once)
        if r.random() < 0.6:
            names = [r.choice(["amplitude", "amplitude", "amp", "velocity"])]
            if r.random() < 0.12:
                names.append(r.choice([n for n in ("amplitude", "amp", "velocity") if n not in names]))
            for nm in names:
                if nv > 1 and r.random() < 0.45:
                    a = T(*[self.amp_value() if r.random() < 0.9 else r.choice([0, None]) for _ in range(nv)])
                    strata.append("amplitude.per-voice")
                else:
                    a = self.amp_value() if r.random() < 0.93 else r.choice([0, F(0.0), -5])
                ev.append([nm, a])
                strata.append("synonym." + nm)
        if r.random() < 0.5:
            if nv > 1 and r.random() < 0.45:
                g = T(*[self.gate_value() if r.random() < 0.92 else r.choice([0, None]) for _ in range(nv)])
                strata.append("gate.per-voice")
            else:
                g = self.gate_value() if r.random() < 0.94 else r.choice([0, None])
            ev.append(["gate", g])
        if r.random() < 0.5:
            if nv > 1 and r.random() < 0.45:
                c = T(*[self.chan_value() for _ in range(nv)])
                strata.append("channel.per-voice")
            else:
                c = self.chan_value()
            ev.append(["channel", c])
        if r.random() < 0.6:
            names = [r.choice(["duration", "duration", "dur"])]
            if r.random() < 0.1:
                names = ["duration", "dur"]
                r.shuffle(names)
            for nm in names:
                ev.append([nm, self.dur_value()])
                strata.append("synonym." + nm)
        if r.random() < 0.05:
            ev.append(["pitchbend", r.choice([0, 100, -8192, 4096])])
            strata.append("pitchbend")
        if r.random() < 0.06:
            ev.append(["active", r.choice([False, 0, True, 1, None])])
            strata.append("active.given")
        if r.random() < 0.04:
            ev.append(["scale", {"o": ["scale", self.fresh(), []]}])
            strata.append("scale-key")
        if r.random() < 0.04:
            ev.append([r.choice(["quantize", "delay", "time", "event"]), 0])
        if r.random() < 0.05:
            # a documented key of ANOTHER event type next to a note: accepted (it is a documented key) and without effect
            ev.append([r.choice(["value", "args", "params", "osc_params", "output", "trigger_name", "trigger_value"]), 0])
            strata.append("key-of-another-event-type")
        r.shuffle(ev)
        if want_pattern_entries:
            # some entries are patterns (resolved once per event by the track's PDict)
            mk = {"octave": lambda: r.randint(0, 6), "transpose": lambda: r.randint(-5, 5), "channel": self.chan_value,
                  "gate": self.gate_value, "amplitude": self.amp_value, "amp": self.amp_value, "velocity": self.amp_value,
                  "duration": self.dur_value, "dur": self.dur_value, "degree": lambda: r.randint(-20, 20),
                  "note": lambda: r.randint(0, 127), "key": self.key_value}
            for kv in ev:
                if kv[0] in mk and kv[1] is not None and not isinstance(kv[1], bool) and r.random() < 0.10:
                    kv[1] = P(kv[1], mk[kv[0]](), mk[kv[0]]())
                    strata.append("pattern-entry")
        return ev, strata

    def stray_key(self):
        """a key the documentation does not know, drawn from everything that is close to a real key: (a) every string that occurs as
        a constant in isobar/constants.py and is not a documented key (the names of the event TYPES, of the interpolation modes ...),
        (b) near-misses of documented keys (a component of a compound key - `osc` for `osc_address` -, singular / plural, a trailing
        underscore or blank, another case, a dropped or doubled letter, a key of the class `key2`), (c) plain nonsense"""
        r = self.rng
        doc = LIB_DEFAULTS["params"]
        for _ in range(50):
            u = r.random()
            if u < 0.40:
                pool = [c for c in CONSTANT_STRINGS if c not in doc]
                if not pool:
                    continue
                bad, how = r.choice(sorted(set(pool))), "constant-of-constants.py"
            elif u < 0.85:
                k = r.choice(doc)
                v = r.randrange(9)
                parts = k.split("_")
                if v == 0 and len(parts) > 1:
                    bad = r.choice(parts)
                elif v == 1:
                    bad = k[:-1] if k.endswith("s") else k + "s"
                elif v == 2:
                    bad = k + r.choice(["_", " ", "_legacy", "2"])
                elif v == 3:
                    bad = r.choice([k.capitalize(), k.upper(), k.title()])
                elif v == 4 and len(k) > 3:
                    i = r.randrange(len(k))
                    bad = k[:i] + k[i + 1:]
                elif v == 5:
                    i = r.randrange(len(k))
                    bad = k[:i] + k[i] + k[i:]
                elif v == 6:
                    bad = r.choice(["_", "event_", "EVENT_"]) + k
                elif v == 7 and len(k) > 4:
                    bad = k[:r.randint(2, len(k) - 1)]
                else:
                    bad = k.replace("_", r.choice(["", "-", "."])) if "_" in k else k + "_" + r.choice(doc)
                how = "near-miss-of-a-documented-key"
            else:
                bad, how = r.choice(["foo", "pitch", "vel", "length", "chan", "sustain", "", "freq", "midi", "oct"]), "nonsense"
            if bad not in doc and not any(ord(c) > 126 or ord(c) < 32 for c in bad):
                return bad, how
        return "foo", "nonsense"

    # ---- stream B: every subset of the type-selecting keys ------------------------------------------------------
    def typed_event(self, mask, seventh):
        r = self.rng
        ev = []
        if mask & 1:
            ps = r.choice([[], ["a"], ["a", "b"], ["x", "y", "z"]])
            ev.append(["action", {"o": ["fun", self.fresh(), ps]}])
            if r.random() < 0.6:
                given = [p for p in ps if r.random() < 0.7]
                args = [[p, self.maybe_pattern(r.choice([r.randint(0, 9), "v", F(0.5), None, T(1, 2)]), lambda: r.randint(10, 19), 0.3)] for p in given]
                if r.random() < 0.1:
                    args.insert(r.randint(0, len(args)), ["nope", 1])
                ev.append(["args", {"d": args}])
        if mask & 2:
            ev.append(["patch", {"o": [r.choice(["class", "class", "patch_trigger", "patch_set"]), self.fresh(), []]}])
        if mask & 4:
            ev.append(["control", self.maybe_pattern(r.randint(0, 127), lambda: r.randint(0, 127))])
            if r.random() < 0.93:
                ev.append(["value", self.maybe_pattern(r.choice([r.randint(0, 127), F(r.randint(0, 254) / 2)]), lambda: r.randint(0, 127), 0.3)])
        if mask & 8:
            ev.append(["program_change", self.maybe_pattern(r.randint(0, 127), lambda: r.randint(0, 127))])
        if mask & 16:
            ev.append(["osc_address", r.choice(["/x", "/synth/freq", "/a/b/c"])])
            if r.random() < 0.8:
                items = [self.maybe_pattern(r.choice([r.randint(0, 99), F(0.25), "s", None]), lambda: r.randint(100, 199), 0.25) for _ in range(r.randint(0, 3))]
                if any(has_pattern(x) for x in items) or r.random() < 0.5:
                    ev.append(["osc_params", T(*items)])
                else:
                    ev.append(["osc_params", L(*items)])
        if mask & 32:
            ev.append(["synth", r.choice(["foo", "sine", "pad"])])
        if (mask & 32 or mask & 2) and r.random() < 0.8:
            ev.append(["params", {"d": [[k, self.maybe_pattern(r.choice([r.randint(0, 9), F(1.5), "w"]), lambda: r.randint(10, 19), 0.3)]
                                        for k in r.sample(["buffer", "rate", "cutoff"], r.randint(0, 3))]}])
        if seventh in ("note", "both"):
            ev.append(["note", r.choice([r.randint(0, 127), T(60, 64), None])])
        if seventh in ("degree", "both"):
            ev.append(["degree", r.choice([r.randint(-10, 10), T(0, 2, 4), None])])
        if r.random() < 0.4:
            ev.append(["channel", self.chan_value()])
        if r.random() < 0.3:
            ev.append([r.choice(["duration", "dur"]), self.dur_value()])
        if r.random() < 0.2:
            ev.append([r.choice(["amplitude", "amp", "velocity"]), self.amp_value()])
        if r.random() < 0.1:
            ev.append(["octave", r.randint(0, 5)])
        r.shuffle(ev)
        return ev

    # ---- stream C: malformed dictionaries ---------------------------------------------------------------------
    def malformed(self):
        r = self.rng
        kind = r.choice(["unknown-key", "unknown-key", "unknown-key", "note+degree", "note+degree", "no-type", "no-type",
                         "bad-value", "bad-value", "bad-value"])
        if kind == "unknown-key":
            if r.random() < 0.6:
                ev, _ = self.note_event()
            else:
                ev = self.typed_event(r.randint(0, 63), r.choice(["none", "note", "degree"]))
            bad, how = self.stray_key()
            ev.insert(r.randint(0, len(ev)), [bad, r.choice([1, None, "bar", F(0.5)])])
            self.last_stray = how
            return ev, "unknown-key"
        if kind == "note+degree":
            ev, _ = self.note_event()
            ks = [k for k, _ in ev]
            if "note" in ks:
                ev.insert(r.randint(0, len(ev)), ["degree", r.choice([0, 3, None, T(0, 2)])])
            else:
                ev.insert(r.randint(0, len(ev)), ["note", r.choice([60, None, T(60, 64)])])
            return ev, "note+degree"
        if kind == "no-type":
            ev, _ = self.note_event()
            ev = [kv for kv in ev if kv[0] not in ("note", "degree")]
            if r.random() < 0.3:
                ev.append([r.choice(["value", "args", "params", "osc_params", "output", "trigger_name", "type"]), r.choice([1, D(), L()])])
            return ev, "no-type"
        # bad values inside otherwise well-formed dictionaries
        which = r.choice(["none-in-chord", "amp-none", "amp-list", "short-tuple", "key-none", "key-int", "unknown-scale",
                          "unknown-note", "three-words", "args-not-dict", "osc-params-int", "params-not-dict",
                          "duration-none", "control-no-value", "octave-none", "gate-list", "channel-short", "empty-chord",
                          "transpose-tuple", "degree-none-in-list", "amp-str"])
        ev = None
        if which == "none-in-chord":
            ev = [["note", T(60, None, 67)]]
        elif which == "degree-none-in-list":
            ev = [["degree", L(0, None)]]
        elif which == "amp-none":
            ev = [["note", 60], [r.choice(["amplitude", "amp", "velocity"]), None]]
        elif which == "amp-list":
            ev = [["note", T(60, 64)], ["amplitude", L(10, 20)]]
        elif which == "amp-str":
            ev = [["note", T(60, 64)], ["amplitude", T(10, "x")]]
        elif which == "short-tuple":
            ev = [["note", T(60, 64, 67)], ["amplitude", T(10, 20)], ["gate", F(0.5)]]
        elif which == "channel-short":
            ev = [["degree", T(0, 2, 4)], ["channel", T(1,)], ["octave", 5]]
        elif which == "gate-list":
            ev = [["note", T(60, 64)], ["gate", L(F(0.5), F(0.5))]]
        elif which == "key-none":
            ev = [["degree", r.choice([0, T(0, 1), T()])], ["key", None]]
        elif which == "key-int":
            ev = [["degree", 2], ["key", 5]]
        elif which == "unknown-scale":
            ev = [["degree", 2], ["key", r.choice(["C foo", "D ", "E Minor"])]]
        elif which == "unknown-note":
            ev = [["degree", 2], ["key", r.choice(["H minor", "X", " minor", "Cx major", "minor"])]]
        elif which == "three-words":
            ev = [["degree", 2], ["key", r.choice(["C augmented 2", "C  minor", "D minor "])]]
        elif which == "args-not-dict":
            ev = [["action", {"o": ["fun", self.fresh(), ["a"]]}], ["args", r.choice([None, L(1), 5, T(1, 2)])]]
        elif which == "osc-params-int":
            ev = [["osc_address", "/x"], ["osc_params", r.choice([5, None, F(0.5), True, D(["a", 1])])]]
        elif which == "params-not-dict":
            ev = [["synth", "foo"], ["params", r.choice([None, L(1, 2), 5, T(1,), "str"])]]
        elif which == "duration-none":
            ev = [["note", 60], [r.choice(["duration", "dur"]), r.choice([None, T(1, 2), L(1)])]]
        elif which == "control-no-value":
            ev = [["control", 7]]
        elif which == "octave-none":
            ev = [[r.choice(["note", "degree"]), r.choice([5, T(5, 6)])], ["octave", r.choice([None, T(1, 2), L(4)])]]
        elif which == "transpose-tuple":
            ev = [["note", r.choice([5, L(5, 6)])], ["transpose", r.choice([None, T(1, 2)])]]
        elif which == "empty-chord":
            ev = [[r.choice(["note", "degree"]), r.choice([T(), L()])], ["pitchbend", r.choice([None, 10])]]
        if r.random() < 0.4:
            ev.append(["channel", self.chan_value()])
        r.shuffle(ev)
        return ev, "bad-value." + which


    # ---- stream E: a stream of several dictionaries in which a LATER one is malformed -----------------------------
    def plain(self, ev):
        """a dictionary as a pattern of dictionaries yields it: entries are values, not patterns (action args excepted)"""
        return [[k, (v if k == "args" else const(v))] for k, v in ev]

    def valid_event(self, note_share=0.7):
        r = self.rng
        if r.random() < note_share:
            ev, _s = self.note_event(want_pattern_entries=False)
            return ev
        return self.plain(self.typed_event(r.choice([1, 4, 8, 16, 32, 5, 12]), "none"))

    def padded(self, defaults, n):
        """pattern-valued defaults long enough for n events"""
        return [[nm, (P(*(v["p"] + [v["p"][0]] * (n + 2))) if has_pattern(v) else v)] for nm, v in defaults]

    def late_malformed(self):
        r = self.rng
        before = r.choice([0, 1, 1, 1, 2, 2, 3])
        evs = [self.valid_event() for _ in range(before)]
        while True:
            bad, kind = self.malformed()
            if kind in ("unknown-key", "note+degree", "no-type"):
                break
        evs.append(self.plain(bad))
        after = r.choice([0, 0, 1])
        for _ in range(after):
            evs.append(self.valid_event())
        defaults = self.padded(self.default_overrides(0.2) if r.random() < 0.5 else [], len(evs))
        case = self.finish(evs, defaults, mode="pseq")
        return case, ["late-malformed." + kind, "late-malformed.position%d" % before, "late-malformed.followed-by%d" % after]

    # ---- stream F: timeline.defaults re-assigned while the track is running ---------------------------------------
    DEFAULTABLE = ("octave", "transpose", "key", "amplitude", "amp", "velocity", "gate", "channel")

    def reconfigured(self):
        r = self.rng
        tpb = 4
        mk = {"amplitude": self.amp_value, "gate": self.gate_value, "channel": self.chan_value,
              "duration": self.dur_value, "octave": lambda: r.randint(-1, 7), "transpose": lambda: r.randint(-12, 12),
              "key": lambda: self.key_value(), "active": lambda: r.choice([True, 1, False, 0])}
        k = r.choice([2, 2, 3, 3, 4])
        defaults = [[n, (const(v) if n == "duration" else v)] for n, v in self.default_overrides(0.25)]
        defaults = self.padded(defaults, 2 * k)
        cur_dur = dict((n, v) for n, v in defaults).get("duration", 1)
        evs, changes, strata = [], [], []

        def assignment(n_events_left):
            names = r.sample(["amplitude", "gate", "channel", "duration", "octave", "transpose", "key"], r.choice([1, 1, 2, 3]))
            if r.random() < 0.05:
                names.append("active")
            kvs = []
            for nm in names:
                v = mk[nm]()
                if nm == "amplitude" and r.random() < 0.1:
                    v = T(*[self.amp_value() for _ in range(r.randint(2, 3))])
                if nm not in ("duration", "active") and r.random() < 0.15:
                    v = P(v, *[mk[nm]() for _ in range(n_events_left + 2)])
                kvs.append([nm, v])
                strata.append("reconfigured." + nm + (".pattern" if has_pattern(v) else ".const"))
            return kvs
        if r.random() < 0.2:
            kvs = assignment(k)
            changes.append([-1, kvs])
            strata.append("reconfigured.after-schedule-before-first-tick")
            cur_dur = dict((n, v) for n, v in kvs).get("duration", cur_dur)
        base = []
        for j in range(k):
            ev = self.valid_event(0.75)
            # most parameters are left to the defaults, so that the defaults in force are what decides the message
            ev = [kv for kv in ev if kv[0] not in ("dur", "duration") and not (kv[0] in self.DEFAULTABLE and r.random() < 0.55)]
            if r.random() < 0.5:
                ev.append([r.choice(["duration", "duration", "dur"]), self.dur_value()])
            r.shuffle(ev)
            base.append(dedupe(ev))
        # sometimes the stream yields the SAME dictionary objects a second time (PSequence(dicts, 2)): the second pass is
        # completed by the defaults then in force, not by what the first pass found
        reps = 1
        if k <= 3 and r.random() < 0.25 and not any(has_pattern(v) for ev in base for _k, v in ev):
            reps = 2
            strata.append("reconfigured.replayed-dicts")
        evs = base * reps
        n = len(evs)
        forced_gap = r.randrange(n - 1)                     # at least one re-assignment falls between two events
        s = 0
        for j, ev in enumerate(evs):
            given = [v for kk, v in ev if kk in ("dur", "duration")]
            d = given[0] if given else cur_dur
            s_next = s + int(num(d) * tpb)
            if j < n - 1 and (j == forced_gap or r.random() < 0.3):
                at = r.randint(s, s_next - 1)
                kvs = assignment(n - 1 - j)
                changes.append([at, kvs])
                strata.append("reconfigured.between-events")
                if at > s:
                    strata.append("reconfigured.while-a-note-may-sound")
                cur_dur = dict((nm, v) for nm, v in kvs).get("duration", cur_dur)
            s = s_next
        evs = [dedupe(ev) for ev in evs]
        for ev in evs:
            for _k, v in ev:
                if notation_like(v):
                    raise CheckError("generator emitted a string the notation parser would take: %r" % (v,))
        case = {"tpb": tpb, "nticks": min(80, s + 8), "muted": False, "mode": "pseq", "defaults": defaults,
                "events": evs, "direct": evs[0], "changes": changes}
        if reps > 1:
            case["replay_period"] = k
        strata.append("reconfigured.events%d" % n)
        return case, strata


    # ---- stream G: the key of the events is ONE Key object the user holds and re-tunes in place while the track runs ----
    def held_key(self):
        r = self.rng
        tpb = 4
        strata = []

        def scale_def():
            if r.random() < 0.5:
                semis, osize = self.scales[r.choice(self.scale_names)]
                return list(semis), osize
            o = r.randint(5, 24)
            return sorted(r.sample(range(o), r.randint(2, min(9, o)))), o
        nheld = r.choice([1, 1, 2])
        held = []
        for slot in range(nheld):
            semis, osize = scale_def()
            share = 0 if (slot == 1 and r.random() < 0.35) else None       # two Key objects on one Scale object
            if share is not None:
                semis, osize = held[0][2], held[0][3]
                strata.append("held-key.two-keys-one-scale-object")
            held.append([slot, r.choice([0, 0, 2, 5, 7, 9, r.randint(-12, 24)]), semis, osize, share])
        store = HeldStore(held)
        pool = r.sample(range(-9, 17), r.randint(2, 4))                 # few degrees: each is asked again after a re-tuning
        k = r.randint(4, 8)
        placement = r.choice(["event"] * 4 + ["default", "mixed"])
        strata.append("held-key.key-in-" + placement)
        defaults = []
        if placement == "default":
            defaults.append(["key", {"hk": 0}])                          # timeline.defaults.key = the held object
        if r.random() < 0.3:
            defaults.append(["octave", r.randint(2, 6)])
        dur = r.choice([1, 1, F(0.5), 2])
        extras = [x for x in ("octave", "transpose", "channel", "amplitude") if r.random() < 0.4]
        fixed = {"octave": r.randint(0, 7), "transpose": r.randint(-7, 7), "channel": self.chan_value(), "amplitude": self.amp_value()}
        vary = set(x for x in extras if r.random() < 0.4)
        evs = []
        for j in range(k):
            dg = T(*[r.choice(pool) for _ in range(r.randint(2, 3))]) if r.random() < 0.25 else r.choice(pool)
            ev = [["degree", dg]]
            if placement == "event":
                ev.append(["key", {"hk": r.randrange(nheld)}])
            elif placement == "mixed":
                ev.append(["key", {"hk": r.randrange(nheld)} if r.random() < 0.65 else self.key_value()])
            for x in extras:
                ev.append([x, fixed[x] if x not in vary else {"octave": lambda: r.randint(0, 7), "transpose": lambda: r.randint(-7, 7),
                                                               "channel": self.chan_value, "amplitude": self.amp_value}[x]()])
            ev.append(["duration", dur])
            evs.append(ev)
        muts, s = [], 0
        forced_gap = r.randrange(k - 1)                                   # at least one operation falls between two events
        for j in range(k):
            s_next = s + int(num(dur) * tpb)
            if j < k - 1 and (j == forced_gap or r.random() < 0.45):
                at = r.randint(s, s_next - 1)
                ops = []
                for _ in range(r.choice([1, 1, 2])):
                    slot = r.randrange(nheld)
                    u = r.random()
                    semis, osize = store.scales[store.keys[slot][1]]
                    if u < 0.4:
                        m = ["tonic", slot, r.choice([t for t in [0, 1, 2, 4, 5, 7, 9, 11, r.randint(-12, 24)] if t != store.keys[slot][0]])]
                    elif u < 0.65:
                        ns, no = scale_def()
                        m = ["scale", slot, ns, no]
                    else:
                        v = r.random()
                        if v < 0.4 or len(semis) < 2:
                            m = ["semis", slot, sorted(r.sample(range(osize), r.randint(2, min(9, osize)))), "assign", None]
                        elif v < 0.65:
                            m = ["semis", slot, sorted(r.sample(range(osize), r.randint(2, min(9, osize)))), "inplace", None]
                        else:
                            i, j2 = r.sample(range(len(semis)), 2)
                            ns = list(semis)
                            ns[i], ns[j2] = ns[j2], ns[i]
                            m = ["semis", slot, ns, "swap", [i, j2]]
                    store.apply(m)
                    ops.append(m)
                    strata.append("held-key.retuned." + m[0] + ("." + m[3] if m[0] == "semis" else ""))
                muts.append([at, ops])
                if at > s:
                    strata.append("held-key.retuned-while-a-note-may-sound")
            s = s_next
        uniform = placement != "mixed"
        mode = "pdictseq" if uniform and r.random() < 0.45 else "pseq"
        strata.append("held-key.scheduled-as-" + ("one-dict-of-patterns" if mode == "pdictseq" else "pattern-of-dicts"))
        evs = [dedupe(ev) for ev in evs]
        for ev in evs:
            for _k, v in ev:
                if notation_like(v):
                    raise CheckError("generator emitted a string the notation parser would take: %r" % (v,))
        case = {"tpb": tpb, "nticks": min(80, s + 8), "muted": False, "mode": mode, "defaults": defaults,
                "events": evs, "direct": evs[0], "held": held, "muts": muts}
        strata.append("held-key.events%d" % k)
        return case, strata


    # ---- stream H: keys given BY NAME while scales / weighted scales / copies / keys are constructed in the same process ----
    def named_key(self):
        """the events name their key ("C minor", "D major", "E" = E major, "F <user scale>"), in the dictionary or through
        timeline.defaults.key; earlier in the process and between two events the program constructs other objects: scales and
        weighted scales called like the scales in use (or like nothing in use), unnamed weighted scales (their default name is
        "major"), copies of the named scales that are edited afterwards, keys built from names.  None of this may change what a
        name that is already registered denotes."""
        r = self.rng
        tpb = 4
        strata = []
        lib = [n for n in self.scale_names if " " not in n]
        notes = [names[0] for names in self.note_names]

        def scale_def(o=None):
            o = o or (12 if r.random() < 0.6 else r.randint(5, 24))
            return sorted(r.sample(range(o), r.randint(2, min(8, o)))), o
        used = [r.choice(["major", "minor", "major", r.choice(lib)])]
        if r.random() < 0.5:
            used.append(r.choice(lib))
        muts, changes, user = [], [], []
        store = HeldStore(None)
        pre = []
        if r.random() < 0.45:                       # a user scale registered before the track starts, reached by its name later
            nm = "verifN%d" % self.fresh()
            semis, o = scale_def(r.randint(5, 24))
            pre.append(["newscale", nm, semis, o, r.choice(["Scale", "WeightedScale", "fromnotes"])])
            store.apply(pre[-1])
            user.append(nm)
            strata.append("named-key.user-scale-registered-before")
        next_slot = [0]

        def construction(aim):
            """one unrelated construction; `aim` = a scale name the stream uses (or None)"""
            u = r.random()
            if u < 0.30:
                nm = aim if aim is not None and r.random() < 0.8 else r.choice(lib + user)
                semis, o = scale_def(12 if r.random() < 0.7 else None)
                how = r.choice(["Scale", "Scale", "WeightedScale", "fromnotes"])
                strata.append("named-key.constructed.same-name-as-%s.%s" % ("library" if nm in lib else "user", how))
                return ["newscale", nm, semis, o, how]
            if u < 0.45:
                strata.append("named-key.constructed.WeightedScale-unnamed")
                return ["newscale", None, sorted(r.sample(range(12), r.randint(2, 5))), 12, "WeightedScale-unnamed"]
            if u < 0.52:
                semis, o = scale_def()
                strata.append("named-key.constructed.Scale-unnamed")
                return ["newscale", None, semis, o, "Scale-unnamed"]
            if u < 0.82:
                nm = aim if aim is not None and r.random() < 0.8 else r.choice(lib + user)
                o = store.scales[store.reg[nm]][1]
                edit = sorted(r.sample(range(o), r.randint(2, min(8, o)))) if r.random() < 0.8 else None
                how = r.choice(["copy()", "copy()", "copy.copy", "copy.deepcopy"])
                strata.append("named-key.constructed.copy-of-%s.%s.%s" % ("library" if nm in lib else "user", how, "edited" if edit else "kept"))
                return ["copyedit", nm, edit, how]
            if u < 0.92:
                slot = next_slot[0]
                next_slot[0] += 1
                strata.append("named-key.constructed.Key-from-names")
                return ["keynamed", slot, r.randrange(12), r.choice(used + user + [r.choice(lib)]),
                        r.choice(["Key(t,name)", "Key(note,name)", "Key('note name')"])]
            nm = "verifN%d" % self.fresh()
            semis, o = scale_def()
            user.append(nm)
            strata.append("named-key.constructed.new-user-name")
            return ["newscale", nm, semis, o, r.choice(["Scale", "WeightedScale"])]
        if r.random() < 0.5:                        # state carried over from earlier, unrelated use of the library
            for _ in range(r.randint(1, 3)):
                pre.append(construction(r.choice(used)))
                store.apply(pre[-1])
            strata.append("named-key.constructions-before-the-track")
        if pre:
            muts.append([-1, pre])
        pool = r.sample(range(-9, 17), r.randint(2, 4))
        k = r.randint(4, 8)
        placement = r.choice(["event"] * 4 + ["default"] * 2)
        strata.append("named-key.key-in-" + placement)
        dur = r.choice([1, 1, F(0.5), 2])

        def key_string():
            nm = r.choice(used + used + user)
            tn = r.choice(notes)
            tn = r.choice([tn, tn, tn.lower()])
            strata.append("named-key.name." + ("user" if nm in user else "library"))
            if nm == "major" and r.random() < 0.3:
                return tn
            return "%s %s" % (tn, nm)
        keypool = [key_string() for _ in range(r.randint(1, 2))]
        defaults = []
        if placement == "default":
            defaults.append(["key", r.choice(keypool)])
        if r.random() < 0.3:
            defaults.append(["octave", r.randint(2, 6)])
        fixed_oct = r.choice([None, r.randint(0, 7)])
        evs, s = [], 0
        forced_gap = r.randrange(k - 1)
        for j in range(k):
            dg = T(*[r.choice(pool) for _ in range(r.randint(2, 3))]) if r.random() < 0.25 else r.choice(pool)
            ev = [["degree", dg]]
            if placement == "event":
                ev.append(["key", r.choice(keypool)])
            if fixed_oct is not None:
                ev.append(["octave", fixed_oct])
            ev.append(["duration", dur])
            evs.append(ev)
            s_next = s + int(num(dur) * tpb)
            if j < k - 1 and (j == forced_gap or r.random() < 0.45):
                at = r.randint(s, s_next - 1)
                aims = [x.split(" ")[1] if " " in x else "major" for x in keypool]
                ops = []
                for _ in range(r.randint(1, 3)):
                    ops.append(construction(r.choice(aims)))
                    store.apply(ops[-1])
                muts.append([at, ops])
                strata.append("named-key.constructions-between-events")
                built = [m for m in ops if m[0] == "keynamed"]
                if placement == "default" and (built or r.random() < 0.3):
                    # the timeline's default key is re-assigned: to a Key built from names just now, or to another name
                    v = {"hk": built[-1][1]} if built else key_string()
                    changes.append([at, [["key", v]]])
                    strata.append("named-key.default-key-reassigned." + ("Key-built-from-names" if built else "name"))
                if user and r.random() < 0.5 and len(keypool) < 3:
                    keypool.append("%s %s" % (r.choice(notes), user[-1]))      # a name registered along the way is used from now on
            s = s_next
        mode = "pdictseq" if r.random() < 0.4 else "pseq"
        strata.append("named-key.scheduled-as-" + ("one-dict-of-patterns" if mode == "pdictseq" else "pattern-of-dicts"))
        for ev in evs:
            for _k, v in ev:
                if notation_like(v):
                    raise CheckError("generator emitted a string the notation parser would take: %r" % (v,))
        case = {"tpb": tpb, "nticks": min(80, s + 8), "muted": False, "mode": mode, "defaults": defaults,
                "events": evs, "direct": evs[0], "muts": muts}
        if changes:
            case["changes"] = changes
        strata.append("named-key.events%d" % k)
        return case, strata


NOTATION = re.compile(r"^(\[|\]|-?[0-9]+(\.[0-9]+)?\b|[a-g]#?[0-9]\b)")


def notation_like(v):
    """a str entry of a scheduled dict is first offered to the shorthand-notation parser (property C20);
    the generator must not emit strings that parser accepts"""
    if isinstance(v, str):
        return bool(NOTATION.match(v))
    if isinstance(v, dict):
        for k in ("t", "l", "p"):
            if k in v:
                return any(notation_like(x) for x in v[k])
        if "d" in v:
            return any(notation_like(x) for _, x in v["d"])
    return False


def dedupe(ev):
    """a Python dict has each key once: keep the first occurrence"""
    seen, out = set(), []
    for k, v in ev:
        if k not in seen:
            seen.add(k)
            out.append([k, v])
    return out


def generate(run, scales, note_names, n_total):
    g = Gen(run.rng, scales, note_names)
    r = run.rng
    cases = []

    def add(case, stream, strata=()):
        case["stream"] = stream
        cases.append(case)
        run.dist("stream." + stream)
        for s in strata:
            run.dist(s)

    n_a = int(n_total * 0.56)
    n_c = int(n_total * 0.14)
    n_d = int(n_total * 0.08)
    n_b = n_total - n_a - n_c - n_d
    # A: note events
    for _ in range(n_a):
        ev, strata = g.note_event()
        defaults = g.default_overrides() if r.random() < 0.55 else []
        for name, v in defaults:
            strata.append("default-override." + name + (".pattern" if has_pattern(v) else ".const"))
        add(g.finish([ev], defaults, muted=(r.random() < 0.02)), "note", strata)
    # B: every subset of the six type keys x {none, note, degree, both}; repeated with other companions
    combos = [(m, s) for m in range(64) for s in ("none", "note", "degree", "both")]
    subsets_seen = set()
    i = 0
    while i < n_b:
        m, s = combos[i % len(combos)]
        ev = g.typed_event(m, s)
        defaults = g.default_overrides(0.1) if r.random() < 0.3 else []
        add(g.finish([ev], defaults), "type-subset", ["type-subset.size%d" % (bin(m).count("1") + (s != "none"))])
        subsets_seen.add((m, s))
        i += 1
    # C: malformed
    for _ in range(n_c):
        ev, kind = g.malformed()
        defaults = g.default_overrides(0.1) if r.random() < 0.25 else []
        add(g.finish([ev], defaults), "malformed", ["malformed." + kind] + (["malformed.unknown-key." + g.last_stray] if kind == "unknown-key" else []))
    # D: a pattern that generates 2-3 dictionaries; pattern-valued defaults advance once per event
    for _ in range(n_d):
        k = r.choice([1, 2, 2, 3])
        evs = []
        for _j in range(k):
            if r.random() < 0.7:
                ev, _s = g.note_event(want_pattern_entries=False)
            else:
                ev = [kv for kv in g.typed_event(r.choice([1, 4, 8, 16, 32, 5, 12]), "none")]
                ev = [[kk, (vv if kk == "args" else const(vv))] for kk, vv in ev]
            evs.append(ev)
        defaults = g.default_overrides(0.3)
        # replay: the stream yields the SAME dictionary objects again (PSequence(dicts, repeats) / PLoop): every pass must
        # perform the same documented messages - the dictionary the user wrote is not to be altered by playing it
        reps = 1
        if r.random() < 0.5 and not any(has_pattern(v) for ev in evs for _k, v in ev):
            reps = r.choice([2, 3])
        pad = 2 * max(1, k * reps)
        defaults = [[n_, (P(*(v["p"] + [v["p"][0]] * pad)) if has_pattern(v) else v)] for n_, v in defaults]
        case = g.finish(evs * reps, defaults, mode="pseq")
        if reps > 1:
            case["replay_period"] = k
        add(case, "sequence", ["sequence.%d" % k] + (["sequence.replayed-dicts.x%d" % reps] if reps > 1 else []))
    # E: a later dictionary of a stream is malformed (the rejection clause holds for every dictionary, not the first only)
    for _ in range(max(40, int(n_total * 0.03))):
        case, strata = g.late_malformed()
        add(case, "late-malformed", strata)
    # F: timeline.defaults re-assigned between two events of a running track (the defaults in force when a dictionary
    #    is due are the ones that complete it)
    for _ in range(max(40, int(n_total * 0.035))):
        case, strata = g.reconfigured()
        add(case, "reconfigured", strata)
    # G: the key of the events is a Key object that is held and re-tuned in place between two events (each event is resolved
    #    with the key as it is when the event is due)
    for _ in range(max(90, int(n_total * 0.03))):
        case, strata = g.held_key()
        add(case, "held-key", strata)
    # H: keys given by NAME while other scales / weighted scales / copies / keys are constructed in the process (what a
    #    registered name denotes must not change)
    for _ in range(max(90, int(n_total * 0.03))):
        case, strata = g.named_key()
        add(case, "named-key", strata)
    run.cov["type_key_subsets_reached"] = "%d of 128 subsets of {action, patch, control, program_change, osc_address, synth, note|degree}" % len({(m, s != "none") for m, s in subsets_seen})
    return cases


def model_events(case):
    """(defaults_i, dict_i) handed to the model for each event of the case"""
    out = []
    for i, ev in enumerate(case["events"]):
        if case["mode"] == "pdict":
            d = [[k, const(v)] for k, v in ev]
        else:
            d = ev
        out.append(([[n, advance(v, i)] for n, v in case["defaults"]], d))
    return out


def cfg_term(c, fn, tail=""):
    chs = lst(["CH %s %s" % (zlit(at), dlit(kvs)) for at, kvs in sorted(c["changes"], key=lambda x: x[0])])
    return "%s %d %s %s %s %s %s %s" % (fn, c["tpb"], blit(c["muted"]), natlit(c["nticks"]), defs_lit(c["defaults"]), chs,
                                        lst([dlit(ev) for ev in c["events"]]), tail)


def held_term(c, fn, tail=""):
    store = HeldStore(c.get("held"))
    init = lst(store.init_ops)
    ms = []
    for at, ops in sorted(c.get("muts") or [], key=lambda x: x[0]):
        hops = []
        for m in ops:
            hops += store.apply(m)
        ms.append("MU %s %s" % (zlit(at), lst(hops)))
    chs = lst(["CH %s %s" % (zlit(at), dlit(kvs)) for at, kvs in sorted(c.get("changes") or [], key=lambda x: x[0])])
    return "%s %d %s %s %s %s %s %s %s %s" % (fn, c["tpb"], blit(c["muted"]), natlit(c["nticks"]), defs_lit(c["defaults"]), chs,
                                              init, lst(ms), lst([dlit(ev) for ev in c["events"]]), tail)


def run_cases(run, cases, scales, note_names):
    shards = [cases[i::12] for i in range(12) if cases[i::12]]
    outs = run.impl_parallel("c03_impl", [{"cases": sh} for sh in shards])
    for sh, out in zip(shards, outs):
        for c, res in zip(sh, out["results"]):
            c["res"] = res
    terms, meta = [], []
    for ci, c in enumerate(cases):
        res = c["res"]
        if "driver_error" in res or "driver_error" in res.get("event", {}):
            raise CheckError("driver error on case %r: %r" % (c["events"], res))
        run.count(1)
        sig = json.dumps([c["events"], c["defaults"], c["mode"], c["muted"]], sort_keys=True)
        if res["trace"] or res["raise"]:
            run.nontrivial(sig)
        # ---- oracle --------------------------------------------------------------------------------------
        exp = oracle(c, scales, note_names)
        c["oracle_failed"] = False
        if exp is not None:
            run.cov["oracle_evaluations"] += 1
            why = None
            if exp[0] == "reject":
                if res["raise"] is None or res["trace"]:
                    why = "the dictionary must be rejected with an error and nothing played; observed exception %r, calls %r" % (res["raise"], res["trace"])
                elif "raise" not in res["event"]:
                    why = "Event(dict) must raise; it returned an event"
                kind = "not-rejected"
            elif exp[1] is None:
                bad = [x for x in res["trace"] if x[1] in exp[2]]
                if bad:
                    why = "a patch event made the device receive %r" % (bad,)
                kind = "wrong-type"
            else:
                if res["raise"] is not None:
                    why = "documented event raised %s" % res["raise"]
                    kind = "unexpected-exception"
                elif not trace_eq(res["trace"], exp[1]):
                    why = "device calls differ from the documented ones"
                    kind = "wrong-calls"
                    got_m = [x[1] for x in res["trace"] if x[1] != "note_off"]
                    exp_m = [x[1] for x in exp[1] if x[1] != "note_off"]
                    if got_m != exp_m:
                        kind = "wrong-method"
                elif c["mode"] == "pdict":
                    pulls = res["pulls"]
                    if any(p != 1 for p in pulls["event"]) or any(p > 1 for p in pulls["defaults"]):
                        why = "a pattern-valued entry was not resolved exactly once per event: pulls %r" % (pulls,)
                        kind = "resolved-more-than-once"
            if why:
                c["oracle_failed"] = True
                run.violation({"kind": kind, "site": "Event/perform_event", "stream": c["stream"]}, {
                    "case": {k: c[k] for k in ("tpb", "nticks", "muted", "mode", "defaults", "events", "direct")},
                    "expected": exp[1] if exp[0] == "calls" else "an exception and no device call",
                    "observed": {"trace": res["trace"], "raise": res["raise"], "event": res["event"]},
                    "why": why, "oracle": "docs/events rendering (closed pitch formula, precedence list, synonym table, default chain)",
                    "python": snippet(c)})
        # ---- oracle for streams of several dictionaries / re-configured timelines -----------------------------------
        if exp is None and c["mode"] in ("pseq", "pdictseq") and (len(c["events"]) > 1 or c.get("changes")):
            sexp = oracle_stream(c, scales, note_names)
            if sexp is not None and (sexp[0] > 0 or sexp[2] is not None):
                run.cov["oracle_evaluations"] += 1
                run.cov["stream_oracle_evaluations"] = run.cov.get("stream_oracle_evaluations", 0) + 1
                if sexp[2] is not None and sexp[2] > 0:
                    run.cov["later_dictionary_rejections_judged"] = run.cov.get("later_dictionary_rejections_judged", 0) + 1
                plan = stream_plan(c)
                if any(at >= 0 and any(at < s_ < sexp[0] + (1 if sexp[2] is not None else 0) for s_, _d, _e in plan) for at, _kvs in (c.get("changes") or [])):
                    run.cov["events_judged_after_reassigned_defaults"] = run.cov.get("events_judged_after_reassigned_defaults", 0) + 1
                n_after = sum(1 for s_, _d, _e in plan if s_ < sexp[0] and any(at < s_ for at, _m in (c.get("muts") or [])))
                if n_after:
                    run.cov["events_judged_after_a_held_key_was_retuned"] = run.cov.get("events_judged_after_a_held_key_was_retuned", 0) + n_after
                verdict = judge_stream(c, res, sexp)
                if verdict:
                    c["oracle_failed"] = True
                    run.violation({"kind": verdict[0], "site": "Event/perform_event", "stream": c["stream"]}, {
                        "case": {k: c[k] for k in ("tpb", "nticks", "muted", "mode", "defaults", "events", "direct", "changes", "replay_period", "held", "muts") if k in c},
                        "expected": {"documented_until_tick": sexp[0], "calls": sexp[1],
                                     "rejected_at_tick": sexp[2]},
                        "observed": {"trace": res["trace"], "raise": res["raise"], "raise_at": res.get("raise_at")},
                        "why": verdict[1], "oracle": "docs/events rendering applied to every dictionary of the stream with the timeline defaults in force "
                                                     "when it is due, laid out on the documented time grid",
                        "python": snippet(c)})
        # ---- oracle for replayed dictionaries: every pass over the same dictionary objects performs the same messages ----
        if c.get("replay_period") and res["raise"] is None and c["nticks"] < 80 and not c.get("changes") \
                and not any(has_pattern(v) for _n, v in c["defaults"]):
            run.cov["oracle_evaluations"] += 1
            reps = len(c["events"]) // c["replay_period"]
            L = [(x[1], json.dumps(x[2], sort_keys=True)) for x in res["trace"] if x[1] != "note_off"]
            per = len(L) // reps if reps else 0
            if len(L) % reps != 0 or any(L[i] != L[i % per] for i in range(len(L))):
                c["oracle_failed"] = True
                run.violation({"kind": "replayed-dict-differs", "site": "Event/perform_event", "stream": c["stream"]}, {
                    "case": {k: c[k] for k in ("tpb", "nticks", "muted", "mode", "defaults", "events", "direct", "replay_period")},
                    "expected": "the same device messages on each of the %d passes over the same %d dictionaries" % (reps, c["replay_period"]),
                    "observed": {"trace": res["trace"], "raise": res["raise"]},
                    "why": "an event dictionary yielded a second time did not resolve to the same messages (was it modified by being played?)",
                    "oracle": "periodicity of the message list over passes", "python": snippet(c)})
        # ---- correspondence terms ------------------------------------------------------------------------
        me = model_events(c)
        d0 = me[0][1] if c["mode"] == "pdict" else c["direct"]
        if c.get("held"):
            # Event(dict, defaults) on its own: the held keys are what they were built as
            store0 = HeldStore(c["held"])
            d0 = store0.subst_kvs(d0)
            me = [(store0.subst_kvs(me[0][0]), me[0][1])] + me[1:]
        evr = res["event"]
        t1 = "event_agrees %s %s %s %s" % (defs_lit(me[0][0]), dlit(d0), optlit(evr.get("raise"), slit),
                                           vlit(evr["view"]["t"][0]) if "view" in evr else "VNone")
        evs = lst(["(%s, %s)" % (defs_lit(dfl), dlit(d)) for dfl, d in me])
        t2 = "track_agrees %d %s %s %s %s %s" % (c["tpb"], blit(c["muted"]), natlit(c["nticks"]), evs,
                                                 optlit(res["raise"], slit), trace_lit(res["trace"]))
        if c.get("changes"):
            # the timeline is re-configured while the track runs: the model keeps the defaults object in its state and
            # works out itself which dictionary is due under which defaults (Sched/EventCfg.v)
            t2 = cfg_term(c, "cfg_agrees", "%s %s" % (optlit(res["raise"], slit), trace_lit(res["trace"])))
        if c.get("held") or c.get("muts"):
            # the key of the events is a held object that is re-tuned in place while the track runs: the model keeps the store of
            # Key and Scale objects in its state and asks the object as it is when a dictionary is due (Sched/EventHeld.v)
            t2 = held_term(c, "held_agrees", "%s %s" % (optlit(res["raise"], slit), trace_lit(res["trace"])))
        for t, what in ((t1, "Event"), (t2, "timeline")):
            terms.append("ob (%s)" % t)
            meta.append((ci, what, "agree"))
            terms.append("md (%s)" % t)
            meta.append((ci, what, "modelled"))
        run.sample({"events": c["events"], "defaults": c["defaults"], "observed": res["trace"][:6], "raise": res["raise"]}, limit=4)
    failing = run.coq_failing(HEADER, terms, chunk=300)
    unmodelled = set()
    for i in failing:
        ci, what, q = meta[i]
        if q == "modelled":
            unmodelled.add((ci, what))
    for (ci, what) in unmodelled:
        run.discard("unmodelled-by-the-model (%s)" % what)
    if os.environ.get("C03_DEBUG"):
        for i in failing:
            if meta[i][2] == "agree":
                c = cases[meta[i][0]]
                sys.stderr.write("DISAGREE %s %s\n  events=%r\n  defaults=%r\n  observed=%r\n" % (meta[i][1], c["stream"], c["events"], c["defaults"], c["res"]))
    for i in failing:
        ci, what, q = meta[i]
        if q != "agree":
            continue
        c = cases[ci]
        if c["oracle_failed"]:
            continue           # already reported with the documented expectation
        res = c["res"]
        run.violation({"kind": "correspondence", "site": what, "stream": c["stream"]}, {
            "broken": "correspondence model/implementation on %s (the theorems of Props/C03.v speak about Sched/Event.v, which no longer "
                      "describes this code on the input below; the input is outside the domain the documentation-oracle judges)" % what,
            "case": {k: c[k] for k in ("tpb", "nticks", "muted", "mode", "defaults", "events", "direct", "changes", "replay_period", "held", "muts") if k in c},
            "observed": {"trace": res["trace"], "raise": res["raise"], "event": res["event"]},
            "coq_term": terms[i][:3000], "python": snippet(c)}, found_input=False)
    agree_terms = sum(1 for m in meta if m[2] == "agree")
    bad_agree = sum(1 for i in failing if meta[i][2] == "agree")
    run.cov["traces_validated_against_impl"] += agree_terms - bad_agree - len(unmodelled)


def load_tables(run):
    global LIB_DEFAULTS
    info = run.impl("c03_impl", {"list": True})
    scales = dict((n, (s, o)) for n, s, o in info["scales"])
    c13 = run.impl("c13_impl", {"list": True})
    note_names = c13["note_names"]
    global LIB_TABLE, NOTE_TABLE
    LIB_TABLE, NOTE_TABLE = [list(x) for x in info["scales"]], note_names
    # the oracle's library defaults and parameter list: read from the generated Coq table's source of truth (the
    # repository constants), through the driver-independent generator output
    txt = open(os.path.join(COQDIR, "Generated", "TablesC03.v")).read()
    params = re.findall(r'^  "([^"]*)"%string;?$', txt.split("all_event_parameters")[1].split("].")[0], re.M)
    vals = {}
    for m in re.finditer(r'^  \("([a-z_]+)"%string, (.*?)\);?$', txt.split("library_defaults")[1], re.M):
        name, rawv = m.group(1), m.group(2).strip("()")
        if rawv == "RNone":
            v = None
        elif rawv.startswith("RBool"):
            v = rawv.endswith("true")
        elif rawv.startswith("RInt"):
            v = int(rawv.split()[1].strip("()"))
        elif rawv.startswith("RFlt"):
            _, n_, d_ = rawv.replace("(", "").replace(")", "").split()
            v = {"f": [int(n_), int(d_)]}
        elif rawv.startswith("RKey"):
            mm = re.match(r"RKey (\(?-?\d+\)?) \[(.*?)\] (\d+)", rawv)
            v = {"k": [int(mm.group(1).strip("()")), [int(x.strip("() ")) for x in mm.group(2).split(";") if x.strip()], int(mm.group(3))]}
        else:
            raise CheckError("cannot read library default %r" % rawv)
        vals[name] = v
    if not params or set(vals) != set(DEFAULT_NAMES):
        raise CheckError("cannot read Generated/TablesC03.v")
    # the keys the oracle accepts are the DOCUMENTED ones: the hand-written list of coq/Sched/EventKeys.v (from docs/events,
    # docs/devices, the property text) - never the source's ALL_EVENT_PARAMETERS, which is only compared with it
    ktxt = open(os.path.join(COQDIR, "Sched", "EventKeys.v")).read()
    body = ktxt.split("Definition documented_event_keys")[1].split(":=")[1].split("].")[0]
    documented = re.findall(r'"([^"]*)"', body)
    if len(documented) != 33 or len(set(documented)) != 33:
        raise CheckError("cannot read coq/Sched/EventKeys.v")
    global CONSTANT_STRINGS
    CONSTANT_STRINGS = [v for _n, v in info.get("constant_strings", [])]
    LIB_DEFAULTS = {"params": documented, "source_params": params, "values": vals}
    return scales, note_names


def check(run):
    scales, note_names = load_tables(run)
    doc, src = set(LIB_DEFAULTS["params"]), set(LIB_DEFAULTS["source_params"])
    run.cov["documented_event_keys"] = len(doc)
    if doc != src:
        # Props/C03Keys.v (C03_parameter_table_is_documented) no longer compiles either; the generator below looks for a dictionary
        # that the implementation now treats differently from the documentation
        run.violation({"kind": "parameter-table", "site": "constants.ALL_EVENT_PARAMETERS"}, {
            "broken": "ALL_EVENT_PARAMETERS of the source is not the documented list of event keys (coq/Sched/EventKeys.v; theorem "
                      "C03_parameter_table_is_documented of Props/C03Keys.v)",
            "accepted_by_the_source_but_not_documented": sorted(src - doc),
            "documented_but_not_accepted_by_the_source": sorted(doc - src),
            "python": "from isobar.constants import ALL_EVENT_PARAMETERS; print(sorted(set(ALL_EVENT_PARAMETERS)))"}, found_input=False)
    n_total = 4000 if run.tier == "quick" else 60000
    cases = generate(run, scales, note_names, n_total)
    for i in range(0, len(cases), 6000):
        run_cases(run, cases[i:i + 6000], scales, note_names)
    run.cov["exhaustive"] = False
    run.cov["rule"] = ("one case = one track of 1-3 event dictionaries with timeline-default overrides, run through Event(dict, defaults) "
                       "and through a one-track Timeline (4 ticks per beat) with a recording OutputDevice; streams: note events (product of "
                       "degree/note x key x octave x transpose x chord shape x per-voice tuples x synonyms x default overrides x pattern entries), "
                       "every subset of the six type keys x {none, note, degree, both}, malformed dictionaries, sequences of 2-3 dictionaries, "
                       "streams whose k-th dictionary (k = 0..3) is malformed, streams of 2-6 dictionaries during which timeline.defaults.<name> is "
                       "re-assigned between two ticks (also between schedule() and the first tick, constants and patterns, replayed dictionary objects), "
                       "streams of 4-8 degree events whose key is a held Key object that is re-tuned in place between two events, "
                       "streams of 4-8 degree events whose key is a NAME while same-named scales / unnamed weighted scales / edited copies / keys are constructed in between; "
                       "distinct by the encoded case; non-trivial = the device received at least one call or an exception escaped")


def replay(run, doc):
    case = doc.get("case")
    if not case or "events" not in case:
        print("replay: re-running the whole check")
        if run.build((), EXTRA_GENERATORS):
            check(run)
        return run.finish()
    scales, note_names = load_tables(run)
    case = dict(case)
    case.setdefault("stream", "replay")
    res = run.impl("c03_impl", {"cases": [case]})["results"][0]
    exp = oracle(case, scales, note_names)
    print("observed:", json.dumps(res))
    print("documented:", json.dumps(exp))
    me = model_events(case)
    evs = lst(["(%s, %s)" % (defs_lit(dfl), dlit(d)) for dfl, d in me])
    if case.get("held") or case.get("muts"):
        print("documented (stream):", json.dumps(oracle_stream(case, scales, note_names)))
        print("model:", run.coq_eval(HEADER, held_term(case, "run_held")))
    elif case.get("changes"):
        print("documented (stream):", json.dumps(oracle_stream(case, scales, note_names)))
        print("model:", run.coq_eval(HEADER, cfg_term(case, "run_cfg")))
    else:
        if case["mode"] == "pseq":
            print("documented (stream):", json.dumps(oracle_stream(case, scales, note_names)))
        print("model:", run.coq_eval(HEADER, "run_track %d %s %s %s" % (case["tpb"], blit(case["muted"]), natlit(case["nticks"]), evs)))
    before = len(run.violations)
    run_cases(run, [case], scales, note_names)
    return 1 if len(run.violations) > before else 0

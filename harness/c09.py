"""C09 — patterns obey the iterator protocol; helpers agree; copies are independent.

Theorems: coq/Props/C09.v (StopIteration is sticky: once a finite pattern of the fragment has stopped it never
yields again; nextn / all / len are the repeated-next lists; copy).
Correspondence: random scripts (next / nextn / all / len / for / copy on up to 4 handles, calls after the end)
on random expressions over every modelled class, implementation vs Coq model (Pat/Script.v), compared inside Coq.
Oracle (implementation only, from the property text): after the first StopIteration every later next() raises
StopIteration again; the helpers return what repeated next() on a fresh instance returns from the same position;
a copy continues from the position of the original, and advancing one handle never moves another."""
from pat_common import *

PROP = "C09"
META = {
 "engine": "P-pattern-algebra",
 "text": "Coq theorems (Props/C09.v, closed under the global context) prove on the executable model of the pattern classes (Pat/Step.v, transcribed from core.py / sequence.py / scalar.py): once a pattern of the sticky fragment (constants, sequences, series, ranges, geometric series, operators, abs/int, references, stutter, pad, pad-to-multiple, loop, reverse, ping-pong, skip-if, changed/diff, index-of ... with scalar terminating parameters, nested to any depth) has raised StopIteration, no later next() yields a value (an invariant closed under step, by induction on the nesting); nextn(n) is the list of the first min(n, remaining) results of repeated next and leaves the object where those calls leave it, all(m) likewise followed by reset(), len is the length of all(); copy() is the identity on the tree model, so a copy continues with exactly the outputs of the original. The model is tied to the repository on every run by scripts interleaving next/nextn/all/len/for/copy on up to four handles, compared inside Coq; an implementation-only oracle checks stickiness, helper results against repeated next() of a fresh instance, and independence of copies.",
 "note": "Trusted: Coq kernel + VM; the harness; copy.deepcopy separating the object graph (independence of copies is true by construction in the tree model; it is the correspondence with interleavings that validates it against the implementation). Revival by design is excluded from the stickiness oracle and theorems: PReset (re-arms its input), terminating parameters given as varying patterns (re-read at every step, C12), PArrayIndex over a list containing patterns. Classes outside the model (PPermut, PArpeggiator, stochastic, PFade*) are judged by the oracle only.",
}

REFN = 40          # calls of next() recorded for the reference run
AFTER = 6          # further calls after the first StopIteration
NOT_STICKY = {"PReset"}
ORACLE_ONLY = ("PPermut",)


# ---- oracle ----------------------------------------------------------------------------------------------
def canon_obs(o):
    if o == "stop":
        return "stop"
    if "r" in o:
        return "raise " + o["r"]
    return "value " + json.dumps(o["y"], sort_keys=True)


def revives_by_design(x):
    """None, or why stickiness is not demanded of this expression"""
    for _, n in nodes(x):
        if isinstance(n, Infix) or isinstance(n, Unary) or not isinstance(n, E):
            continue
        a = n.args
        if n.cls in NOT_STICKY:
            return n.cls
        if n.cls == "PSequence" and len(a) > 1 and is_pat(a[1]):
            return "PSequence.repeats is a pattern"
        if n.cls == "PSeries" and len(a) > 2 and is_pat(a[2]):
            return "PSeries.length is a pattern"
        if n.cls == "PRange" and any(is_pat(v) for v in a[1:]):
            return "PRange.end/step is a pattern"
        if n.cls == "PSubsequence" and any(is_pat(v) for v in a[1:]):
            return "PSubsequence.offset/length is a pattern"
        if n.cls == "PArrayIndex" and isinstance(a[0], list) and any(is_pat(v) for v in a[0]):
            return "PArrayIndex over a list containing patterns"
        if n.cls == "PDictKey" and len(a) > 1 and is_pat(a[1]):
            return "PDictKey.key is a pattern"
    return None


def judge_sticky(obs):
    """obs: constructor + next()s.  Returns None | dict(index, observed)"""
    seen_stop = None
    for i, o in enumerate(obs[1:]):
        c = canon_obs(o)
        if seen_stop is None:
            if c == "stop":
                seen_stop = i
        elif c != "stop":
            return {"first_stop": seen_stop, "index": i, "observed": c}
    return None


class CannotJudge(Exception):
    pass


def simulate(ref, ops, length_max):
    """expected observations of a script, from the outcomes `ref` of repeated next() on a fresh instance.
    The state of a pattern is a function of the number of next() calls made on it (and of nothing else)."""
    pos, out = {0: 0}, []

    def call(h):
        if pos[h] >= len(ref):
            raise CannotJudge("reference run too short")
        o = ref[pos[h]]
        pos[h] += 1
        return o

    def take(h, n):
        vals = []
        while n is None or len(vals) < n:
            o = call(h)
            if o == "stop":
                break
            if "r" in o:
                raise CannotJudge("exception inside a helper")
            vals.append(o["y"])
        return vals
    for op in ops:
        k, h = op[0], op[1]
        if k == "next":
            out.append(call(h))
        elif k in ("nextn", "for"):
            out.append({"y": {"l": take(h, op[2])}})
        elif k == "all":
            out.append({"y": {"l": take(h, op[2])}})
            break                                    # the object is reset: what follows is C04's business
        elif k == "len":
            out.append({"y": len(take(h, None))})
            break
        elif k == "reset":
            break
        elif k == "copy":
            pos[len(pos)] = pos[h]
            out.append({"y": None})
    return out


def gen_script(rng, finite):
    ops, handles, calls = [], 1, 0
    n = rng.randint(3, 12)
    for i in range(n):
        h = rng.randrange(handles)
        k = rng.random()
        last = i == n - 1
        if k < 0.45:
            ops.append(("next", h)); calls += 1
        elif k < 0.6:
            m = rng.randint(0, 6); ops.append(("nextn", h, m)); calls += m + 1
        elif k < 0.7:
            m = rng.randint(0, 5); ops.append(("for", h, m)); calls += m + 1
        elif k < 0.88 and handles < 4:
            ops.append(("copy", h)); handles += 1
        elif last or k > 0.95:
            if finite and rng.random() < 0.5:
                ops.append(("len", h) if rng.random() < 0.5 else ("all", h, None))
            else:
                ops.append(("all", h, rng.randint(0, 8)))
            break
        else:
            ops.append(("next", h)); calls += 1
        if calls > REFN - 10:
            break
    return ops


def root_cls(x):
    return x.cls if isinstance(x, E) else ("PBinOp" if isinstance(x, Infix) else "Unary")


def sub_patterns(x):
    seen, out = set(), []
    for path, n in nodes(x):
        if path and is_pat(n):
            s = to_source(n)
            if s not in seen:
                seen.add(s); out.append(n)
    return out


def check(run):
    rng = run.rng
    thorough = run.tier == "thorough"
    sigs = run.impl("pat_impl", {"signatures": list(REGISTRY)})["signatures"]
    stale = {cls for cls, _ in check_registry(run, sigs)}
    run.cov["registry_mismatches"] = sorted(stale)
    length_max = None
    gen = Gen(rng, run)
    classes = list(GENERATORS)

    def expr(i, fin):
        depth = 1 + (i % 3) if rng.random() >= 0.05 else 5
        cls = classes[i % len(classes)] if rng.random() < 0.7 else None
        e = gen.gen(depth, fin, cls)
        if rng.random() < 0.04:                          # classes outside the model: oracle only
            inner = gen.gen(min(depth, 2), True)
            e = gen.mark(E("PPermut", inner, rng.randint(1, 3)), True)
            if rng.random() < 0.4:
                e = gen.mark(E("PAdd", e, rng.randint(0, 3)), True)
        return e

    sticky, scripts = [], []
    for i in range(30000 if thorough else 1300):
        e = expr(i, True)
        sticky.append(Case(e, [("next", 0)] * REFN, "sticky"))
    for i in range(30000 if thorough else 1500):
        e = expr(i, rng.random() < 0.7)
        fin = gen.known_finite(e)
        scripts.append(Case(e, gen_script(rng, fin), "script", {"finite": fin}))
    refs = {}
    for c in scripts:
        refs.setdefault(to_source(c.expr), Case(c.expr, [("next", 0)] * REFN, "ref"))
    run_impl(run, sticky + scripts + list(refs.values()))

    reported = [0]

    def culprit_of(case, bad):
        """smallest sub-pattern that itself fails `bad` (a predicate on an evaluated case)"""
        best = case
        if reported[0] > 4:
            return best
        subs = [Case(n, case.ops, case.tag) for n in sub_patterns(case.expr)]
        if subs:
            run_impl(run, subs, shards=4)
            failing = [s for s in subs if not s.status and bad(s)]
            if failing:
                best = min(failing, key=lambda s: size(s.expr))
        return best

    # ---- stickiness
    for c in sticky:
        run.count(); run.dist("stream.sticky"); run.dist("root." + root_cls(c.expr))
        if c.status:
            run.discard("impl-" + c.status); continue
        run.cov["oracle_evaluations"] += len(c.obs)
        why = revives_by_design(c.expr)
        dev = judge_sticky(c.obs)
        stops = [i for i, o in enumerate(c.obs[1:]) if o == "stop"]
        if stops and stops[0] > 0 and len(c.obs) - 1 - stops[0] >= AFTER:
            run.nontrivial("sticky " + to_source(c.expr))
        elif not stops:
            run.discard("sticky: no StopIteration within %d calls" % REFN)
        if dev is None:
            continue
        if why:
            run.discard("sticky: revives by design"); run.dist("revives." + why.split(" ")[0]); continue
        if dev["observed"].startswith("raise"):
            # an exception after the end is the operands' business if some operand raises on its own
            subs = [Case(n, c.ops, "sub") for n in sub_patterns(c.expr)]
            run_impl(run, subs, shards=2)
            if any(s.status or any(isinstance(o, dict) and "r" in o for o in s.obs) for s in subs):
                run.discard("sticky: operand raises on its own"); continue
        reported[0] += 1
        if reported[0] > 6:
            continue
        bad = lambda s: judge_sticky(s.obs) is not None and not revives_by_design(s.expr)
        small = culprit_of(c, bad)
        d = judge_sticky(small.obs)
        run.violation({"kind": "sticky", "class": root_cls(small.expr), "after": "raise" if d["observed"].startswith("raise") else "value"}, {
            "case": {"expr": to_source(small.expr), "expr_json": to_json(small.expr), "ops": [list(o) for o in small.ops]},
            "expected": "StopIteration on every next() after call %d (the first StopIteration)" % d["first_stop"],
            "observed": "call %d: %s" % (d["index"], d["observed"]), "observed_outputs": small.obs_pretty(),
            "python": replay_snippet(small.expr, small.ops[:d["index"] + 1])})

    # ---- helpers and copies against repeated next() on a fresh instance
    def judge_script(c):
        r = refs[to_source(c.expr)] if to_source(c.expr) in refs else None
        if r is None or r.status or not r.obs or canon_obs(r.obs[0]) != "value null":
            raise CannotJudge("no reference run")
        want = simulate(r.obs[1:], c.ops, length_max)
        got = c.obs[1:]
        for i, w in enumerate(want):
            if i >= len(got) or canon_obs(got[i]) != canon_obs(w):
                return {"op": i, "opname": c.ops[i][0], "expected": canon_obs(w), "observed": canon_obs(got[i]) if i < len(got) else "nothing"}
        return None
    for c in scripts:
        run.count(); run.dist("stream.script"); run.dist("root." + root_cls(c.expr))
        for op in c.ops:
            run.dist("op." + op[0])
        if c.status:
            run.discard("impl-" + c.status); continue
        if len(c.obs) == 1:
            run.discard("script: constructor raised"); continue
        try:
            dev = judge_script(c)
        except CannotJudge as e:
            run.discard("script: " + str(e)); continue
        run.cov["oracle_evaluations"] += len(c.obs)
        if any(o[0] in ("nextn", "all", "len", "for", "copy") for o in c.ops):
            run.nontrivial("script " + to_source(c.expr) + repr(c.ops))
        if dev is None:
            continue
        reported[0] += 1
        if reported[0] > 6:
            continue
        kind = "copy" if any(o[0] == "copy" for o in c.ops[:dev["op"] + 1]) and dev["opname"] == "next" else "helper"
        run.violation({"kind": kind, "op": dev["opname"], "class": root_cls(c.expr)}, {
            "case": {"expr": to_source(c.expr), "expr_json": to_json(c.expr), "ops": [list(o) for o in c.ops]},
            "expected": "operation %d (%s): %s  [from repeated next() on a fresh instance]" % (dev["op"], dev["opname"], dev["expected"]),
            "observed": dev["observed"], "observed_outputs": c.obs_pretty(),
            "reference_next_outputs": refs[to_source(c.expr)].obs_pretty(),
            "python": replay_snippet(c.expr, c.ops[:dev["op"] + 1])})

    # ---- model
    allc = [c for c in sticky + scripts if not (stale and any(isinstance(n, E) and n.cls in stale for _, n in nodes(c.expr)))]
    run_model(run, allc)
    for c in allc:
        if c.verdict == "discard":
            run.discard((c.status or "?").split(":")[0])
        elif c.verdict == "agree":
            run.cov["traces_validated_against_impl"] += 1
    bad = [c for c in allc if c.verdict == "disagree"]
    seen = set()
    for c in bad[:2]:
        small = shrink(run, c, rounds=4)
        sig = {"kind": "correspondence", "class": root_cls(small.expr)}
        if json.dumps(sig) in seen:
            continue
        seen.add(json.dumps(sig))
        run.violation(sig, {
            "broken": "correspondence Pat/Step.v / Pat/Script.v vs the implementation on %s: the theorems of Props/C09.v no longer speak about this code" % root_cls(small.expr),
            "case": {"expr": to_source(small.expr), "expr_json": to_json(small.expr), "ops": [list(o) for o in small.ops]},
            "observed": small.obs_pretty(), "model": model_trace(run, small),
            "python": replay_snippet(small.expr, small.ops)}, found_input=False)
    run.sample({"expr": to_source(scripts[0].expr), "ops": [list(o) for o in scripts[0].ops], "observed": scripts[0].obs_pretty()})
    run.cov["rule"] = ("one case = one expression + one script; non-trivial sticky case = at least one value before the first "
                       "StopIteration and >= %d calls after it; non-trivial script = contains a helper or a copy" % AFTER)


def replay(run, doc):
    case = doc.get("case", {})
    if "expr_json" not in case:
        print("replay: no concrete case recorded (%s)" % doc.get("broken", "?"))
        return 1
    c = Case(from_json(case["expr_json"]), [tuple(o) for o in case["ops"]])
    r = Case(c.expr, [("next", 0)] * REFN, "ref")
    run_impl(run, [c, r], shards=1)
    print("expression:", to_source(c.expr))
    print("observed:  ", c.obs_pretty())
    kind = doc.get("signature", {}).get("kind")
    bad = None
    if kind == "sticky":
        bad = judge_sticky(c.obs)
    else:
        try:
            want = simulate(r.obs[1:], c.ops, None)
            for i, w in enumerate(want):
                if i + 1 >= len(c.obs) or canon_obs(c.obs[i + 1]) != canon_obs(w):
                    bad = {"op": i, "expected": canon_obs(w)}
                    break
        except CannotJudge as e:
            print("replay: cannot judge (%s)" % e)
            return 2
    if bad:
        print("REPLAY-FAILS:", bad)
        print("VIOLATION property=C09 replay=(replayed)")
        return 1
    print("replay: the property holds on this case")
    return 0

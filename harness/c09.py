"""C09 — patterns obey the iterator protocol; helpers agree; copies are independent.

Theorems: coq/Props/C09.v (StopIteration is sticky: once a finite pattern of the fragment has stopped it never
yields again; nextn / all / len are the repeated-next lists; copy).
Correspondence: random scripts (next / nextn / all / len / for / copy on up to 4 handles, calls after the end)
on random expressions over every modelled class, implementation vs Coq model (Pat/Script.v), compared inside Coq.
Oracle (implementation only, from the property text): after the first StopIteration every later next() raises
StopIteration again; the helpers return what repeated next() on a fresh instance returns from the same position;
a copy continues from the position of the original, and advancing one handle never moves another."""
from pat_common import *
import re
from fractions import Fraction

PROP = "C09"
META = {
 "engine": "P-pattern-algebra",
 "text": "Coq theorems (Props/C09.v, closed under the global context) prove on the executable model of the pattern classes (Pat/Step.v, transcribed from core.py / sequence.py / scalar.py): once a pattern of the sticky fragment fpat (constants, sequences of scalars, series, ranges, geometric series, reverse, ping-pong with scalar terminating parameters; the 15 operators, &, abs, int, skip-if, references, stutter, counter, pad, pad-to-multiple, collapse, no-repeats, changed, diff, round, wrap, loop, subsequence, index-of, dict-key, array-index, concatenate over them, nested to any depth; closed under next(): C09_fragment_closed) has raised StopIteration, no later next() yields a value (C09_sticky, C09_sticky_transformers: per-class invariants, induction on the nesting; still open, C09_sticky_remaining_classes_partial: PDict, PArrayIndex over a literal list and pattern items, covered by the correspondence and the oracle only); nextn(n) is the list of the first min(n, remaining) results of repeated next and leaves the object where those calls leave it, all(m) likewise followed by reset(), len is the length of all(); copy() is the identity on the tree model, so a copy continues with exactly the outputs of the original; for pattern GRAPHS with shared sub-pattern objects (Pat/Dag.v: heap of cells, operator expressions and PDict roots over addresses, copy = deepcopy with one memo) every script of next/nextn/copy on any number of handles observes what the original alone produces at the handle's position - continuation and independence for all DAGs (C09_dag_copy_interleavings), tied to the repository by generated DAG programs with copy-heavy scripts, judged against a fresh build and compared with the model inside Coq; several instances of one class and their copies alive together, each rewound at different moments (Pat/Instances.v, generic over objects whose methods are functions of the object alone; Pat/LSystem.v for PLSystem, whose bracket stack is per-object state): every object observes what it observes alone (C09_instances_independent, C09_instances_copy, C09_lsystem_instances_independent, C09_lsystem_sticky), tied to the repository by the instances stream (PLSystem with bracketed rules, engine-P expressions, seeded stochastic patterns; positions per handle, a rewind puts that handle back to 0 and no other). The model is tied to the repository on every run by scripts interleaving next/nextn/all/len/for/copy on up to four handles, compared inside Coq; an implementation-only oracle checks stickiness, helper results against repeated next() of a fresh instance, and independence of copies. For 'a drained track stays drained' Pat/Drained.v models Timeline.tick/Track.tick for a note track over any stream (in particular the stochastic machines of Pat/Chance.v, generator as data): once the stream is dead the re-polling track plays nothing more and finishes when its last note-off is due (C09_drained_track_stays_drained); PShuffle and PWhite are sticky in any state for any generator (C09_pshuffle_sticky, C09_pwhite_sticky); tied to the code by comparing, inside Coq, ticks-until-removal and notes of real tracks with gate > 1 and the StopIteration shape of PShuffle/PWhite. A library stream (oracle only) runs every Pattern subclass of isobar.pattern (list read from the live package, fail closed; seeded stochastic classes, nestings over them) through >= 6 polls after the first StopIteration, helper/copy scripts around and after the end, and a Track whose last note outlasts the stream.",
 "note": "Trusted: Coq kernel + VM; the harness; copy.deepcopy itself (modelled as copy_root: one memo, every reachable cell copied once; the correspondence with interleavings validates it against the implementation). Sharing below classes other than the operators and PDict (PSequence items, PConcatenate inputs, PStutter count ...) is judged by the oracle only; stickiness and reset() of graphs are not judged. Revival by design is excluded from the stickiness oracle and theorems: PReset (re-arms its input), terminating parameters given as varying patterns (re-read at every step, C12). PArrayIndex over a list containing patterns with a pattern index used to revive (repaired: C09-parrayindex-revives); it is generated by its own stratum and judged like every other class. Classes outside the model (PPermut, PArpeggiator, stochastic, PFade*, tonal, PMap* ...) are judged by the oracle only (library stream); classes drawing from the process-wide random module (PExplorer, PFadeNotewiseRandom, PLSystem '?') for stickiness and track end only; PW*, PLFO, PMIDIControl, PMonomeArcControl are excluded (need a running timeline / hardware); PStaticPattern (clock-dependent) is polled from a stub / hand-ticked timeline over histories of clock advances past its end (Pat/Clocked.v, Props/C09Clocked.v: sticky for every history whose clock does not run backwards). The drained-track model covers constant duration and gate on the quarter-tick grid. Known findings: PFadeNotewise/PFadeNotewiseRandom revive, PPatternGeneratorAction raises TypeError after its StopIteration.",
}

REFN = 40          # calls of next() recorded for the reference run
AFTER = 6          # further calls after the first StopIteration
NOT_STICKY = {"PReset"}
ORACLE_ONLY = ("PPermut",)


# ---- oracle ----------------------------------------------------------------------------------------------
def canon_obs(o):
    if o == "stop":
        return "stop"
    if "r" in o:
        return "raise " + o["r"]
    return "value " + json.dumps(o["y"], sort_keys=True)


def revives_by_design(x):
    """None, or why stickiness is not demanded of this expression"""
    for _, n in nodes(x):
        if isinstance(n, Infix) or isinstance(n, Unary) or not isinstance(n, E):
            continue
        a = n.args
        if n.cls in NOT_STICKY:
            return n.cls
        if n.cls == "PSequence" and len(a) > 1 and is_pat(a[1]):
            return "PSequence.repeats is a pattern"
        if n.cls == "PSeries" and len(a) > 2 and is_pat(a[2]):
            return "PSeries.length is a pattern"
        if n.cls == "PRange" and any(is_pat(v) for v in a[1:]):
            return "PRange.end/step is a pattern"
        if n.cls == "PSubsequence" and any(is_pat(v) for v in a[1:]):
            return "PSubsequence.offset/length is a pattern"
        if n.cls == "PDictKey" and len(a) > 1 and is_pat(a[1]):
            return "PDictKey.key is a pattern"
    return None


def judge_sticky(obs):
    """obs: constructor + next()s.  Returns None | dict(index, observed)"""
    seen_stop = None
    for i, o in enumerate(obs[1:]):
        c = canon_obs(o)
        if seen_stop is None:
            if c == "stop":
                seen_stop = i
        elif c != "stop":
            return {"first_stop": seen_stop, "index": i, "observed": c}
    return None


class CannotJudge(Exception):
    pass


def simulate(ref, ops, length_max):
    """expected observations of a script, from the outcomes `ref` of repeated next() on a fresh instance.
    The state of a pattern is a function of the number of next() calls made on it (and of nothing else)."""
    pos, out = {0: 0}, []

    def call(h):
        if pos[h] >= len(ref):
            raise CannotJudge("reference run too short")
        o = ref[pos[h]]
        pos[h] += 1
        return o

    def take(h, n):
        vals = []
        while n is None or len(vals) < n:
            o = call(h)
            if o == "stop":
                break
            if "r" in o:
                raise CannotJudge("exception inside a helper")
            vals.append(o["y"])
        return vals
    for op in ops:
        k, h = op[0], op[1]
        if k == "next":
            out.append(call(h))
        elif k in ("nextn", "for"):
            out.append({"y": {"l": take(h, op[2])}})
        elif k == "all":
            out.append({"y": {"l": take(h, op[2])}})
            break                                    # the object is reset: what follows is C04's business
        elif k == "len":
            out.append({"y": len(take(h, None))})
            break
        elif k == "reset":
            break
        elif k == "copy":
            pos[len(pos)] = pos[h]
            out.append({"y": None})
    return out


def gen_script(rng, finite):
    ops, handles, calls = [], 1, 0
    n = rng.randint(3, 12)
    for i in range(n):
        h = rng.randrange(handles)
        k = rng.random()
        last = i == n - 1
        if k < 0.45:
            ops.append(("next", h)); calls += 1
        elif k < 0.6:
            m = rng.randint(0, 6); ops.append(("nextn", h, m)); calls += m + 1
        elif k < 0.7:
            m = rng.randint(0, 5); ops.append(("for", h, m)); calls += m + 1
        elif k < 0.88 and handles < 4:
            ops.append(("copy", h)); handles += 1
        elif last or k > 0.95:
            if finite and rng.random() < 0.5:
                ops.append(("len", h) if rng.random() < 0.5 else ("all", h, None))
            else:
                ops.append(("all", h, rng.randint(0, 8)))
            break
        else:
            ops.append(("next", h)); calls += 1
        if calls > REFN - 10:
            break
    return ops


def root_cls(x):
    return x.cls if isinstance(x, E) else ("PBinOp" if isinstance(x, Infix) else "Unary")


def sub_patterns(x):
    seen, out = set(), []
    for path, n in nodes(x):
        if path and is_pat(n):
            s = to_source(n)
            if s not in seen:
                seen.add(s); out.append(n)
    return out


# ==========================================================================================================
# Library stream: every Pattern subclass of isobar.pattern, written as Python source (oracle only; the
# stochastic classes are modelled under C11 in coq/Pat/Chance.v, the counters of PShuffle also in Pat/Drained.v).
# The list of classes is read from the live package on every run; a class that has neither recipes, nor the
# engine-P generators, nor an exclusion reason below fails the run (fail closed).
# ==========================================================================================================
LIB_REFN = 48      # calls of next() in a reference run of the library stream
LIB_DRAIN = 34     # nextn(LIB_DRAIN) drains every finite recipe (they are built to give <= 30 values)
ARP_TYPES = ["UP", "DOWN", "CONVERGE", "DIVERGE", "RANDOM", "UPDOWN", "DOWNUP", "BUILD", "BREAK", "ROOTBOUNCE"]
HELPERS_SOURCE = None   # filled from the driver's own source (printed in replay snippets)


def _ints(rng, lo=0, hi=6, vlo=40, vhi=90):
    return [rng.randint(vlo, vhi) for _ in range(rng.randint(lo, hi))]


def _sd(rng):
    return ".seed(%d)" % rng.randint(0, 9999)


def _seq(rng, lo=0, hi=6, rep=None):
    return "iso.PSequence(%r, %d)" % (_ints(rng, lo, hi), rep if rep is not None else rng.choice([1, 1, 1, 2]))


def _shuffle(rng, lo=0, hi=5):
    return "iso.PShuffle(%r, %d)%s" % (_ints(rng, lo, hi), rng.choice([0, 1, 1, 2, 2, 3]), _sd(rng))


def _white(rng):
    a = rng.randint(0, 60)
    return "iso.PWhite(%d, %d, %d)%s" % (a, a + rng.randint(1, 60), rng.randint(1, 6), _sd(rng))


def _skip(rng):
    return "iso.PSkip(%s, %r, %r)%s" % (_seq(rng, 0, 6, 1), rng.choice([0, 0.3, 0.5, 0.8, 1]), rng.random() < 0.4, _sd(rng))


def _arp(rng, loop=False):
    t = rng.choice(ARP_TYPES)
    return "iso.PArpeggiator(%r, iso.PArpeggiator.%s, %r)%s" % (
        sorted(set(_ints(rng, 0 if t in ARP_TYPES[:7] else 3, 5))), t, loop, _sd(rng))


def _markov_abs(rng):
    n = rng.randint(1, 4)                     # chain 0 -> 1 -> ... -> n (absorbing: no successors), with detours
    d = {i: sorted(set([i + 1] + [rng.randint(i + 1, n) for _ in range(rng.randint(0, 2))])) for i in range(n)}
    d[n] = []
    return "iso.PMarkov(%r)%s" % (d, _sd(rng))


def _fin_input(rng):
    """a finite input pattern: deterministic or seeded stochastic"""
    return rng.choice([_seq, _seq, _shuffle, _white, _skip, _arp, _markov_abs])(rng)


def _key(rng):
    return 'iso.Key(%r, %r)' % (rng.choice(["C", "D", "F#", "A"]), rng.choice(["major", "minor", "dorian"]))


LSYS_RULES = ["N+N", "N[+N]-N", "N[-N++N]-N", "N+[N-N]", "N-N+N", "[N]+N"]
# class -> list of (finite?, rng -> source).  `finite` = built to raise StopIteration within 30 values.
LIB_RECIPES = {
    "PShuffle": [(True, _shuffle), (True, lambda r: _shuffle(r, 1, 3)), (False, lambda r: "iso.PShuffle(%r)%s" % (_ints(r, 1, 4), _sd(r)))],
    "PWhite": [(True, _white), (True, lambda r: "iso.PWhite(0.0, 1.0, %d)%s" % (r.randint(1, 5), _sd(r))),
               (False, lambda r: "iso.PWhite(0, 100)%s" % _sd(r))],
    "PSkip": [(True, _skip)],
    "PShuffleInput": [(True, lambda r: "iso.PShuffleInput(%s, %d)%s" % (_seq(r, 0, 8, 1), r.randint(1, 4), _sd(r)))],
    "PSwitchOne": [(False, lambda r: "iso.PSwitchOne(%s, %d)%s" % (_seq(r, 4, 8, 1), r.randint(2, 4), _sd(r)))],
    "PRandomImpulseSequence": [(False, lambda r: "iso.PRandomImpulseSequence(%r, %d)%s" % (r.choice([0.2, 0.5, 0.9]), r.randint(1, 6), _sd(r)))],
    "PMarkov": [(True, _markov_abs), (False, lambda r: "iso.PMarkov(%r)%s" % (_ints(r, 3, 6, 1, 4) + [1], _sd(r)))],
    "PSample": [(False, lambda r: "iso.PSample([1, 2, 3, 4], %d)%s" % (r.randint(1, 3), _sd(r)))],
    "PChoice": [(False, lambda r: "iso.PChoice(%r)%s" % (_ints(r, 1, 4), _sd(r)))],
    "PBrown": [(False, lambda r: "iso.PBrown(%d, %d, 30, 90)%s" % (r.randint(40, 80), r.randint(1, 4), _sd(r)))],
    "PCoin": [(False, lambda r: "iso.PCoin(%r)%s" % (r.choice([0.2, 0.5, 0.8]), _sd(r)))],
    "PRandomWalk": [(False, lambda r: "iso.PRandomWalk(%r, 1, %d)%s" % (_ints(r, 2, 5), r.randint(1, 2), _sd(r)))],
    "PFlipFlop": [(False, lambda r: "iso.PFlipFlop(%d, %r, %r)%s" % (r.randint(0, 1), r.choice([0.2, 0.5]), r.choice([0.5, 0.9]), _sd(r)))],
    "PRandomExponential": [(False, lambda r: "iso.PRandomExponential(1, %d)%s" % (r.randint(5, 100), _sd(r)))],
    "PArpeggiator": [(True, _arp), (False, lambda r: _arp(r, True))],
    "PPermut": [(True, lambda r: "iso.PPermut(%s, %d)" % (_seq(r, 0, 3, 1), r.randint(1, 4))),
                (True, lambda r: "iso.PPermut(%s, %d)" % (_shuffle(r, 0, 3), r.randint(1, 3)))],
    "PCreep": [(True, lambda r: "iso.PCreep(%s, %d, %d, %d)" % (_seq(r, 0, 6, 1), r.randint(1, 3), r.randint(1, 2), r.randint(1, 2))),
               (True, lambda r: "iso.PCreep(%s, %d, %d, %d)" % (_shuffle(r, 1, 4), r.randint(1, 3), 1, r.randint(1, 2)))],
    "PInterpolate": [(True, lambda r: "iso.PInterpolate(%s, %d, iso.%s)" % (
        _fin_input(r), r.randint(1, 3), r.choice(["INTERPOLATION_LINEAR", "INTERPOLATION_COSINE", "INTERPOLATION_NONE"])))],
    "PLSystem": [(True, lambda r: "iso.PLSystem(%r, %d, False)" % (r.choice(LSYS_RULES), r.randint(1, 2))),
                 (True, lambda r: "iso.PLSystem(%r, %d, False)" % (r.choice(LSYS_RULES).replace("+N", "+?N", 1), r.randint(1, 2))),
                 (False, lambda r: "iso.PLSystem(%r, %d, True)" % (r.choice(LSYS_RULES), r.randint(1, 2)))],
    "PSequenceAction": [(True, lambda r: "iso.PSequenceAction(%r, rot, %d)" % (_ints(r, 0, 4), r.randint(0, 3)))],
    "PPatternGeneratorAction": [(True, lambda r: "iso.PPatternGeneratorAction(Batches(%d, %r))" % (r.randint(1, 3), _ints(r, 1, 3)))],
    "PFadeNotewise": [(True, lambda r: "iso.PFadeNotewise(%s, 1, 1, %d, 1)" % (_seq(r, 1, 3, 1), r.randint(1, 2)))],
    "PFadeNotewiseRandom": [(True, lambda r: "iso.PFadeNotewiseRandom(%s, 1, %d, 1, 1)" % (_seq(r, 1, 3, 1), r.randint(1, 2)))],
    "PExplorer": [(True, lambda r: "iso.PExplorer(%r, %d)" % (r.choice([0.3, 0.5, 0.9]), r.randint(1, 5)))],
    "PNormalise": [(True, lambda r: "iso.PNormalise(%s)" % _fin_input(r))],
    "PMap": [(True, lambda r: "iso.PMap(%s, dbl)" % _fin_input(r))],
    "PMapEnumerated": [(True, lambda r: "iso.PMapEnumerated(%s, enum_sum)" % _fin_input(r))],
    "PScaleLinLin": [(True, lambda r: "iso.PScaleLinLin(%s, 0, 127, 0, 1)" % _fin_input(r))],
    "PScaleLinExp": [(True, lambda r: "iso.PScaleLinExp(%s, 1, 127, 1, 1000)" % _seq(r, 0, 5, 1))],
    "PScalar": [(True, lambda r: "iso.PScalar(iso.PSequence([(1, 3), 2, (2, 4)][:%d], 1), %r)" % (r.randint(0, 3), r.choice(["mean", "first"])))],
    "PDegree": [(True, lambda r: "iso.PDegree(%s, iso.Scale.%s)" % ("iso.PSequence(%r, 1)" % _ints(r, 0, 5, -3, 9), r.choice(["major", "minor"])))],
    "PFilterByKey": [(True, lambda r: "iso.PFilterByKey(%s, %s)" % (_fin_input(r), _key(r)))],
    "PNearestNoteInKey": [(True, lambda r: "iso.PNearestNoteInKey(%s, %s)" % (_fin_input(r), _key(r)))],
    "PMidiNoteToFrequency": [(True, lambda r: "iso.PMidiNoteToFrequency(%s)" % _fin_input(r))],
    "PMidiSemitonesToFrequencyRatio": [(True, lambda r: "iso.PMidiSemitonesToFrequencyRatio(%s)" % _fin_input(r))],
    "PKeyTonic": [(True, lambda r: "iso.PKeyTonic(iso.PSequence([%s], 1))" % ", ".join(_key(r) for _ in range(r.randint(0, 3))))],
    "PKeyScale": [(True, lambda r: "iso.PKeyScale(iso.PSequence([%s], 1))" % ", ".join(_key(r) for _ in range(r.randint(0, 3))))],
    "PDict": [(True, lambda r: "iso.PDict({'a': %s, 'b': %s})" % (_fin_input(r), _fin_input(r)))],
    "PEuclidean": [(False, lambda r: "iso.PEuclidean(%d, %d, %d)" % (r.randint(3, 8), r.randint(1, 3), r.randint(0, 2)))],
    "PMetropolis": [(False, lambda r: "iso.PMetropolis(%r, [2, 1], [1, 0])" % _ints(r, 1, 3))],
    "PTri": [(False, lambda r: "iso.PTri(%d, 0, 12)" % r.randint(2, 8))],
    "PSaw": [(False, lambda r: "iso.PSaw(%d, 0, 12)" % r.randint(2, 8))],
    "PCurrentTime": [(False, lambda r: "iso.PCurrentTime()")],
    "PGlobals": [(False, lambda r: "iso.PGlobals('c09_unset', %d)" % r.randint(0, 9))],
    "PFunc": [(False, lambda r: "iso.PFunc(lambda: %d)" % r.randint(0, 9))],
    # bases whose inherited __next__ ends at once
    "PStochasticPattern": [(True, lambda r: "iso.PStochasticPattern()")],
    "PWarp": [(True, lambda r: "iso.PWarp()")],
    "PFade": [(True, lambda r: "iso.PFade()")],
    "PBinOp": [(True, lambda r: "iso.PBinOp(%s, 2)" % _seq(r))],
    # nestings: the combinators of engine P over seeded stochastic / library inputs
    "PLoop": [(True, lambda r: "iso.PLoop(%s, %d)" % (_fin_input(r), r.randint(1, 2)))],
    "PStutter": [(True, lambda r: "iso.PStutter(%s, %d)" % (_fin_input(r), r.randint(1, 3)))],
    "PPingPong": [(True, lambda r: "iso.PPingPong(%s, %d)" % (_fin_input(r), r.randint(1, 2)))],
    "PReverse": [(True, lambda r: "iso.PReverse(%s)" % _fin_input(r))],
    "PSubsequence": [(True, lambda r: "iso.PSubsequence(%s, %d, %d)" % (_fin_input(r), r.randint(0, 2), r.randint(1, 3)))],
    "PConcatenate": [(True, lambda r: "iso.PConcatenate([%s, %s])" % (_fin_input(r), _fin_input(r)))],
    "PPad": [(True, lambda r: "iso.PPad(%s, %d)" % (_fin_input(r), r.randint(0, 8)))],
    "PAdd": [(True, lambda r: "(%s + %d)" % (_fin_input(r), r.randint(0, 12))), (True, lambda r: "(%s + %s)" % (_fin_input(r), _fin_input(r)))],
    "PSequence": [(True, lambda r: "iso.PSequence([%s, %d, %s], %d)" % (_fin_input(r), r.randint(40, 90), _fin_input(r), r.randint(1, 2)))],
}
# classes that cannot be given small finite arguments outside their environment: excluded, with the reason
LIB_EXCLUDED = {
    "PStaticPattern": "reads the clock of a running Timeline (raises outside one); its output is a function of time, not of the number of next() calls: not in the library stream, it has its own stratum (check_clocked: histories of clock advances and next() past the end, Pat/Clocked.v, Props/C09Clocked.v)",
    "PWInterpolate": "time-warp pattern: needs the Timeline it is attached to (AttributeError outside one); infinite",
    "PWSine": "time-warp pattern: needs the Timeline it is attached to; infinite",
    "PWRallantando": "time-warp pattern: needs the Timeline it is attached to; infinite",
    "PLFO": "needs a signalflow LFO object; infinite",
    "PMIDIControl": "opens a MIDI input port in its constructor; infinite",
    "PMonomeArcControl": "needs monome hardware; infinite",
}
# draw from the process-wide `random` module, which seed() does not reach: two fresh instances differ, so only
# stickiness and the end of the track are judged (never values)
LIB_UNSEEDED = {"PExplorer", "PFadeNotewiseRandom"}
TRACK_GATES = [(3, 2), (5, 2), (2, 1), (4, 1), (7, 1), (21, 4)]
TRACK_DURS = [(1, 1), (1, 2), (1, 4), (2, 1)]


def lib_script(rng, finite):
    """helpers / copies at random positions, or around and after the end of a finite pattern"""
    if finite and rng.random() < 0.5:
        ops = [("next", 0)] * rng.randint(0, 3)
        if rng.random() < 0.4:
            ops.append(("copy", 0))
        ops.append((rng.choice(["nextn", "for"]), 0, LIB_DRAIN))
        h = 1 if len(ops) > 1 and ops[-2][0] == "copy" and rng.random() < 0.5 else 0
        for _ in range(rng.randint(2, 5)):                       # the object is drained: poll it again
            k = rng.random()
            ops.append(("next", 0) if k < 0.4 else ("nextn", 0, rng.randint(1, 4)) if k < 0.7 else ("for", 0, rng.randint(1, 3)))
        if h:
            ops.append(("nextn", 1, rng.randint(0, 5)))
        ops.append(rng.choice([("len", 0), ("all", 0, None), ("all", 0, rng.randint(0, 6))]))
        return ops
    return gen_script(rng, finite)


def lib_values(ref):
    """(index of the first StopIteration, values before it) of a reference run, None if there is none / an exception first"""
    vals = []
    for i, o in enumerate(ref[1:]):
        if o == "stop":
            return i, vals
        if not isinstance(o, dict) or "y" not in o:
            return None
        vals.append(o["y"])
    return None


def lib_snippet(src, ops=None, track=None):
    lines = ["import isobar as iso"] + (HELPERS_SOURCE or "").strip("\n").split("\n")
    if track is not None:
        lines += ["class Rec(iso.OutputDevice):", "    ons = []", "    def note_on(self, note=60, velocity=64, channel=0): self.ons.append(note)",
                  "    def note_off(self, note=60, channel=0): pass",
                  "tl = iso.Timeline(120, output_device=Rec(), clock_source=iso.DummyClock(ticks_per_beat=%d))" % track["tpb"],
                  "tl.schedule({'note': %s, 'duration': %d / %d, 'gate': %d / %d})" % ((src,) + tuple(track["dur"]) + tuple(track["gate"])),
                  "for _ in range(400):", "    if not tl.tracks: break", "    tl.tick()",
                  "print(Rec.ons, 'ended' if not tl.tracks else 'STILL RUNNING')", "print(%s.nextn(%d))" % (src, LIB_REFN)]
        return "\n".join(lines)
    lines.append("p0 = %s" % src)
    n = 1
    for op in ops:
        if op[0] == "copy":
            lines.append("p%d = %s" % (n, op_source(op))); n += 1
        else:
            lines.append("print(%s)" % op_source(op))
    return "\n".join(lines)


def lib_reproducible(case, out):
    """two fresh instances of this source give the same outcomes (otherwise neither values nor their number are judged)"""
    return out.get("ref") == out.get("ref2") and case["cls"] not in LIB_UNSEEDED and "?" not in case["src"]


def lib_judge(case, out):
    """the oracle of the library stream.  Returns (violations, notes): violations = [(signature, replay doc)],
    notes = what could (not) be judged.  `case` = {cls, src, finite, script, track}."""
    bad, notes = [], []
    src, cls = case["src"], case["cls"]
    if out.get("status"):
        return bad, ["impl-" + out["status"]]
    ref, ref2 = out["ref"], out["ref2"]
    if len(ref) == 1:
        return bad, ["constructor raised"]
    pretty = [pretty_obs(o) for o in ref]
    # 1. stickiness (both fresh instances)
    for r in (ref, ref2):
        d = judge_sticky(r)
        if d is not None:
            bad.append(({"kind": "sticky", "class": cls, "after": "raise" if d["observed"].startswith("raise") else "value", "stream": "library"}, {
                "case": {"src": src, "ops": [["next", 0]] * (d["index"] + 1)},
                "expected": "StopIteration on every next() after call %d (the first StopIteration)" % d["first_stop"],
                "observed": "call %d: %s" % (d["index"], d["observed"]), "observed_outputs": [pretty_obs(o) for o in r],
                "python": lib_snippet(src, [("next", 0)] * (d["index"] + 1))}))
            break
    fs = lib_values(ref)
    if fs is None:
        notes.append("no StopIteration within %d calls" % LIB_REFN if all(o != "stop" for o in ref[1:]) else "raises before it ends")
    elif LIB_REFN - fs[0] - 1 >= AFTER and fs[0] > 0:
        notes.append("nontrivial-sticky")
    reproducible = lib_reproducible(case, out)
    if not reproducible:
        notes.append("not reproducible (draws from a generator that seed() does not reach): values not judged")
    # 2. helpers and copies against repeated next() of a fresh instance
    if case.get("script") is not None and reproducible and "script" in out and len(out["script"]) > 1:
        ops = [tuple(o) for o in case["script"]]
        try:
            want = simulate(ref[1:], ops, None)
            got = out["script"][1:]
            notes.append("script-judged")
            for i, w in enumerate(want):
                if i >= len(got) or canon_obs(got[i]) != canon_obs(w):
                    kind = "copy" if any(o[0] == "copy" for o in ops[:i + 1]) and ops[i][0] == "next" else "helper"
                    bad.append(({"kind": kind, "op": ops[i][0], "class": cls, "stream": "library"}, {
                        "case": {"src": src, "ops": [list(o) for o in ops]},
                        "expected": "operation %d (%s): %s  [from repeated next() on a fresh instance]" % (i, ops[i][0], canon_obs(w)),
                        "observed": canon_obs(got[i]) if i < len(got) else "nothing",
                        "observed_outputs": [pretty_obs(o) for o in out["script"]], "reference_next_outputs": pretty,
                        "python": lib_snippet(src, ops[:i + 1])}))
                    break
        except CannotJudge as e:
            notes.append("script: " + str(e))
    # 3. a track whose notes outlast the stream plays the values once and ends
    t = out.get("track")
    if t is not None and fs is not None and judge_sticky(ref) is None:
        n, vals = fs
        played = t.get("pulled") if t.get("mode") == "tap" else t.get("ons")
        if t.get("error"):
            notes.append("track: raised " + str(t["error"]))
        elif played is not None:
            notes.append("track-judged")
            doc = {"case": {"src": src, "track": case["track"]}, "reference_next_outputs": pretty,
                   "track": {k: t[k] for k in ("mode", "ticks", "ended", "ons", "offs", "pulled")},
                   "python": lib_snippet(src, track=case["track"])}
            sig = None
            if reproducible and len(played) > n:
                sig, doc["expected"] = "track-replays", "the track takes the %d values of the stream once; every later poll (one per tick while the last note sounds) raises StopIteration" % n
                doc["observed"] = "%d values taken by the track: %r" % (len(played), [from_json(v) for v in played][:n + 8])
            elif reproducible and played != vals:
                sig, doc["expected"] = "track-values", "the track plays %r (repeated next() of a fresh instance)" % [from_json(v) for v in vals]
                doc["observed"] = "%r" % [from_json(v) for v in played]
            elif not t["ended"] and (reproducible or len(played) <= n):
                # (a pattern that draws from the process-wide generator takes another number of values in the track than in
                # the reference run its tick budget was computed from: only judged when it took no more than those)
                sig, doc["expected"] = "track-never-ends", "the drained track leaves Timeline.tracks once its last note has ended"
                doc["observed"] = "still scheduled after %d ticks (%d note_on, %d note_off)" % (t["ticks"], len(t["ons"]), len(t["offs"]))
            elif t["ended"] and len(t["ons"]) != len(t["offs"]):
                # (only of a track that has ended: one that used up a tick budget computed from another draw of an unseeded
                # pattern may rightly still hold its last note - false alarm of the thorough tier at seed 3 before this guard)
                sig, doc["expected"], doc["observed"] = "track-note-offs", "one note_off per note_on", "%d note_on, %d note_off" % (len(t["ons"]), len(t["offs"]))
            if sig:
                bad.append(({"kind": sig, "class": cls, "stream": "library"}, doc))
    return bad, notes


def lib_classes(run):
    """live class list -> (recipes to run, fail-closed problems)"""
    global HELPERS_SOURCE
    drv = open(os.path.join(os.path.dirname(os.path.abspath(__file__)), "impl", "c09_impl.py")).read()
    q = "'" * 3
    HELPERS_SOURCE = drv.split("HELPERS_SOURCE = " + q)[1].split(q)[0]
    live = {c["name"]: c for c in run.impl("c09_impl", {"enumerate": True})["classes"]}
    problems = []
    for name, c in sorted(live.items()):
        covered = [k for k, tab in (("recipe", LIB_RECIPES), ("engine-P", GENERATORS), ("excluded", LIB_EXCLUDED)) if name in tab]
        if not covered:
            problems.append((name, "class %s (%s, parameters %r) has no recipe, no engine-P generator and no exclusion reason" % (name, c["module"], c["params"])))
        elif not c["exported"] and "excluded" not in covered:
            problems.append((name, "class %s is no longer exported by the isobar package" % name))
        for k in covered:
            run.dist("libclass." + k)
    for name in sorted(set(LIB_RECIPES) | set(LIB_EXCLUDED)):
        if name not in live:
            problems.append((name, "class %s named in harness/c09.py no longer exists in isobar.pattern" % name))
    stoch = {n for n, c in live.items() if c["stochastic"]}
    return live, stoch, problems


def run_lib(run, cases, shards=12):
    parts = [cases[i::shards] for i in range(shards) if cases[i::shards]]
    payloads = [{"cases": [{"src": c["src"], "refn": c.get("refn", LIB_REFN), "script": c.get("script"), "track": c.get("track")} for c in part]} for part in parts]
    outs = run.impl_parallel("c09_impl", payloads)
    res = {}
    for part, out in zip(parts, outs):
        for c, r in zip(part, out["cases"]):
            res[id(c)] = r
    return [res[id(c)] for c in cases]


def track_cfg(rng):
    # every duration is a whole number of ticks (a shorter one makes Track.tick skip events: not C09's business)
    return {"tpb": rng.choice([4, 4, 8, 12]), "dur": list(rng.choice(TRACK_DURS)), "gate": list(rng.choice(TRACK_GATES))}


def check_library(run, model_exprs):
    """library stream + track observation over finite expressions of engine P"""
    rng = run.rng
    thorough = run.tier == "thorough"
    live, stoch, problems = lib_classes(run)
    run.cov["library_classes"] = {"live": len(live), "with_recipes": sorted(LIB_RECIPES), "excluded": LIB_EXCLUDED,
                                  "engine_P_only": sorted(set(live) & set(GENERATORS) - set(LIB_RECIPES))}
    for name, why in problems[:3]:
        run.violation({"kind": "library-class-list", "class": name}, {
            "broken": "coverage of 'all finite library patterns': " + why + " (add a recipe or an exclusion reason to harness/c09.py)",
            "python": "import isobar as iso; print(iso.%s)" % name}, found_input=False)
    cases = []
    per = 60 if thorough else 6
    for cls in sorted(LIB_RECIPES):
        if cls not in live:
            continue
        for j in range(per):
            finite, fn = LIB_RECIPES[cls][j % len(LIB_RECIPES[cls])]
            src = fn(rng)
            cases.append({"cls": cls, "src": src, "finite": finite, "script": [list(o) for o in lib_script(rng, finite)],
                          "track": track_cfg(rng) if finite else None})
    for e in model_exprs:
        cases.append({"cls": root_cls(e), "src": to_source(e), "finite": True, "script": None, "track": track_cfg(rng), "model": True})
    outs = run_lib(run, cases)
    seen, found, flagged = {}, [], set()
    for c, out in zip(cases, outs):
        run.count(); run.dist("stream.library-track-of-model" if c.get("model") else "stream.library")
        if not c.get("model"):
            run.dist("lib." + c["cls"])
        bad, notes = lib_judge(c, out)
        for nt in notes:
            if nt in ("nontrivial-sticky", "script-judged", "track-judged"):
                run.dist("libjudged." + nt)
            else:
                run.discard("library: " + nt.split("(")[0].strip())
        if "track-judged" in notes or "script-judged" in notes:
            run.nontrivial("lib " + c["src"] + repr(c.get("script")) + repr(c.get("track")))
        run.cov["oracle_evaluations"] += sum(len(out.get(k) or ()) for k in ("ref", "ref2", "script"))
        if c.get("model") and revives_by_design(model_exprs_by_src[c["src"]]):
            continue
        for sig, doc in bad:
            if sig["kind"] == "sticky" and out.get("track"):
                doc["track_over_the_same_pattern"] = {"config": c["track"], "observed": out["track"]}
            found.append((len(c["src"]), len(found), sig, doc))
            flagged.add(id(c))
    check_drained_model(run, cases, outs, {id_ for id_ in flagged})
    # smallest source first: a nesting that fails because of its input is reported after the input itself
    for _, _, sig, doc in sorted(found, key=lambda t: t[:2]):
        key = json.dumps(sig, sort_keys=True)
        if key in seen:
            continue
        seen[key] = 1
        if len(seen) <= 6:
            run.violation(sig, doc)


DRAINED_HEADER = """From Isobar Require Import Base.Prelude Pat.Chance Pat.Drained.
Open Scope Z_scope.
Definition beq_shape (a b : list bool) : bool := list_eqb Bool.eqb a b.
"""
RE_SHUFFLE = re.compile(r"^iso\.PShuffle\(\[([0-9, ]*)\], (\d+)\)\.seed\(\d+\)$")
RE_WHITE = re.compile(r"^iso\.PWhite\([0-9.]+, [0-9.]+, (\d+)\)\.seed\(\d+\)$")


def track_budget(cfg, n):
    """the tick budget the driver gives a track over a stream of n values (same formula as c09_impl.run_track)"""
    beats = n * cfg["dur"][0] / cfg["dur"][1] + cfg["dur"][0] * cfg["gate"][0] / (cfg["dur"][1] * cfg["gate"][1])
    return int((beats + 3) * cfg["tpb"]) + 8


def check_drained_model(run, cases, outs, flagged):
    """model vs implementation (Pat/Drained.v, compared inside Coq): (1) a track over a stream of n values plays n
    notes and leaves the timeline after exactly the number of ticks the model computes; (2) the value/StopIteration
    shape of LIB_REFN calls of next() on PShuffle(values, repeats) and PWhite(_, _, length)"""
    terms, owner = [], []
    for c, out in zip(cases, outs):
        if id(c) in flagged or out.get("status") or len(out.get("ref", ())) < 2:
            continue
        ref = out["ref"]
        fs = lib_values(ref)
        t = out.get("track")
        if t and t.get("mode") and not t.get("error") and fs is not None and judge_sticky(ref) is None and lib_reproducible(c, out):
            cfg = c["track"]
            played = t["pulled"] if t["mode"] == "tap" else t["ons"]
            dur_t, gate4 = Fraction(cfg["dur"][0] * cfg["tpb"], cfg["dur"][1]), Fraction(cfg["gate"][0] * 4, cfg["gate"][1])
            if dur_t.denominator != 1 or gate4.denominator != 1 or dur_t < 1:
                run.discard("drained model: duration or gate off the quarter-tick grid")
            else:
                end = "Some k => Z.eqb k %d | None => false" % t["ticks"] if t["ended"] else "Some _ => false | None => true"
                terms.append("(let r := drained_run %d %d %d %d in Z.eqb (fst r) %s && match snd r with %s end)" % (
                    fs[0], dur_t, gate4, track_budget(cfg, fs[0]), zlit(len(played) if t["ended"] else -1), end))
                owner.append((c, out, "drained_run: a track over a stream of %d values, duration %s ticks, gate %s/4: notes played and ticks until it leaves Timeline.tracks" % (fs[0], dur_t, gate4)))
        m, w = RE_SHUFFLE.match(c["src"]), RE_WHITE.match(c["src"])
        if (m or w) and all(o == "stop" or isinstance(o, dict) for o in ref[1:]):
            shape = lst([blit(o == "stop") for o in ref[1:]])
            if m:
                vals = [int(x) for x in m.group(1).split(",") if x.strip()]
                terms.append("beq_shape (pshuffle_shape %s %d %d) %s" % (zlist(vals), int(m.group(2)), len(ref) - 1, shape))
            else:
                terms.append("beq_shape (pwhite_shape %d %d) %s" % (int(w.group(1)), len(ref) - 1, shape))
            owner.append((c, out, ("pshuffle_shape" if m else "pwhite_shape") + ": which of the first %d next() raise StopIteration" % (len(ref) - 1)))
    bad = run.coq_failing(DRAINED_HEADER, terms)
    run.cov["traces_validated_against_impl"] += len(terms) - len(bad)
    run.cov["drained_model_comparisons"] = len(terms)
    seen = set()
    for i in bad:
        c, out, what = owner[i]
        rel = what.split(":")[0]
        if rel in seen:
            continue
        seen.add(rel)
        run.violation({"kind": "correspondence", "relation": rel, "class": c["cls"]}, {
            "broken": "correspondence Pat/Drained.v vs the implementation (%s): the theorems C09_drained_track_stays_drained / C09_pshuffle_sticky / C09_pwhite_sticky of Props/C09.v no longer speak about this code" % what,
            "case": {"src": c["src"], "track": c.get("track")}, "coq_term": terms[i],
            "observed": {"next": [pretty_obs(o) for o in out["ref"]], "track": out.get("track")},
            "python": lib_snippet(c["src"], track=c["track"]) if c.get("track") else lib_snippet(c["src"], [("next", 0)] * 12)}, found_input=False)


# ==========================================================================================================
# DAG stream: pattern GRAPHS in which one sub-pattern object is reachable from several parents (two keys of a
# PDict, both operands of an operator, ...).  A program = cells c0.. (objects built once) + a root expression
# that may mention a cell any number of times; its Python source is ONE expression
#     (lambda c0, c1: iso.PDict({'note': iso.PAdd(c0, 60), 'amp': iso.PMul(c0, 10)}))(iso.PSeries(0, 1, 10), ...)
# so the library-stream driver, oracle (lib_judge: every handle's outputs are simulated from repeated next() on a
# FRESH build of the same program) and replay work on it unchanged.  Model: coq/Pat/Dag.v (heap of cells, dx, droot,
# copy_root = deepcopy with one memo), theorem C09_dag_copy_interleavings; compared inside Coq for programs whose
# cells are expressions of engine P and whose root is an operator expression / a PDict over such.
# ==========================================================================================================
DAG_OPS = ["PAdd", "PAdd", "PSub", "PMul", "PMul", "PMod", "PGreaterThan", "PEqual", "PFloorDiv"]
DAG_TEMPLATES = [   # sharing below other parents (oracle only); C = the shared cell, D = another cell
    "iso.PSequence([C, C], 2)", "iso.PSequence([C, 7, C], 1)", "iso.PConcatenate([C, iso.PStutter(C, 2)])", "iso.PStutter(C, iso.PAbs(C))",
    "iso.PSkipIf(C, iso.PGreaterThan(C, 60))", "iso.PDict({'a': C, 'b': iso.PDict({'c': C, 'd': D})})", "iso.PArrayIndex([C, D, C], iso.PSequence([0, 1, 2, 2, 0], 1))",
    "iso.PDict({'note': C, 'dur': iso.PSubsequence(C, 0, 2), 'amp': D})", "iso.PAdd(iso.PLoop(C, 2), C)", "iso.PPad(iso.PAdd(C, C), 5)",
    "iso.PDict({'a': iso.PCollapse(C), 'b': C})", "iso.PMap(C, dbl) + C",
]
DAG_HEADER = HEADER + """From Isobar Require Import Pat.Dag.
Fixpoint dag_cells (es : list pexpr) : option (list pat) :=
  match es with
  | [] => Some []
  | e :: r => match init Val.binop LMAX FUEL e, dag_cells r with Yield p, Some ps => Some (p :: ps) | _, _ => None end
  end.
Definition dagcmp (es : list pexpr) (r : droot) (ops : list dop) (expected : list (outcome val)) : nat :=
  match dag_cells es with Some h => dcompare Val.binop LMAX FUEL ([r], h) ops expected | None => 2%nat end.
Definition dagtrace (es : list pexpr) (r : droot) (ops : list dop) : list (outcome val) :=
  match dag_cells es with Some h => dtrace Val.binop LMAX FUEL ([r], h) ops | None => [] end.
"""


def dx_gen(rng, ncells, depth, force=None):
    k = rng.random()
    if depth <= 0 or k < 0.35:
        if force is not None or rng.random() < 0.8:
            return {"ref": force if force is not None else rng.randrange(ncells)}
        return {"val": rng.choice([60, 10, 2, -1, 0.5, None, 3])}
    if k < 0.9:
        l, r = dx_gen(rng, ncells, depth - 1, force), dx_gen(rng, ncells, depth - 1)
        if rng.random() < 0.5:
            l, r = r, l
        return {"bin": [rng.choice(DAG_OPS), l, r]}
    return {"abs": dx_gen(rng, ncells, depth - 1, force)}


def dx_refs(d):
    if "ref" in d:
        return [d["ref"]]
    if "bin" in d:
        return dx_refs(d["bin"][1]) + dx_refs(d["bin"][2])
    if "abs" in d:
        return dx_refs(d["abs"])
    return []


def dx_source(d):
    if "ref" in d:
        return "c%d" % d["ref"]
    if "val" in d:
        return scalar_source(d["val"])
    if "abs" in d:
        return "iso.PAbs(%s)" % dx_source(d["abs"])
    return "iso.%s(%s, %s)" % (d["bin"][0], dx_source(d["bin"][1]), dx_source(d["bin"][2]))


def dx_coq(d):
    if "ref" in d:
        return "(DRef %d)" % d["ref"]
    if "val" in d:
        return "(DVal %s)" % val_coq(d["val"])
    if "abs" in d:
        return "(DAbs %s)" % dx_coq(d["abs"])
    return "(DBin %s %s %s)" % (BINOPS[d["bin"][0]][1], dx_coq(d["bin"][1]), dx_coq(d["bin"][2]))


def dag_source(cells, root_src):
    return "(lambda %s: %s)(%s)" % (", ".join("c%d" % i for i in range(len(cells))), root_src, ", ".join(cells))


def dag_script(rng):
    """copy-heavy script over up to 4 handles: every script takes at least one copy and advances both sides of it"""
    ops, handles = [("next", 0)] * rng.choice([0, 0, 1, 2, 3]), 1
    for _ in range(rng.randint(1, 3)):
        if handles < 4:
            ops.append(("copy", rng.randrange(handles))); handles += 1
        for _ in range(rng.randint(1, 5)):
            h = rng.randrange(handles) if rng.random() < 0.6 else handles - 1
            k = rng.random()
            ops.append(("next", h) if k < 0.6 else ("nextn", h, rng.randint(0, 5)) if k < 0.85 else ("for", h, rng.randint(0, 4)))
    if rng.random() < 0.3:
        ops.append((rng.choice(["nextn", "for"]), rng.randrange(handles), 12))
    return ops


def check_dags(run, gen):
    rng = run.rng
    thorough = run.tier == "thorough"
    cases = []
    for i in range(3000 if thorough else 300):
        modelled = rng.random() < 0.7
        ncells = rng.choice([1, 1, 2, 2, 3])
        exprs, srcs = [], []
        for _ in range(ncells):
            if modelled:
                for _ in range(10):
                    e = gen.gen(rng.choice([0, 0, 1, 2]), rng.random() < 0.7)
                    if revives_by_design(e) is None:
                        break
                exprs.append(e); srcs.append(to_source(e))
            else:
                srcs.append(_fin_input(rng) if rng.random() < 0.8 else "iso.PSeries(%d, %d)" % (rng.randint(0, 60), rng.randint(1, 3)))
        shared = rng.randrange(ncells)
        if not modelled and rng.random() < 0.5:
            t = rng.choice(DAG_TEMPLATES)
            root_src = t.replace("C", "c%d" % shared).replace("D", "c%d" % rng.randrange(ncells))
            root, kind = None, "template"
        elif rng.random() < 0.72:
            keys = ["note", "amplitude", "duration", "gate"][:rng.randint(1, 4)]
            kv = [[k, dx_gen(rng, ncells, rng.choice([0, 1, 1, 2]), shared if j < 2 else None)] for j, k in enumerate(keys)]
            root = {"dict": kv}
            root_src = "iso.PDict({%s})" % ", ".join("%r: %s" % (k, dx_source(d)) for k, d in kv)
            kind = "PDict"
        else:
            d = {"bin": [rng.choice(DAG_OPS), dx_gen(rng, ncells, rng.choice([0, 1]), shared), dx_gen(rng, ncells, rng.choice([0, 1, 2]), shared)]}
            root = {"expr": d}
            root_src = dx_source(d)
            kind = "operator"
        refs = dx_refs(root["expr"]) if root and "expr" in root else [a for _, d in root["dict"] for a in dx_refs(d)] if root else [shared, shared]
        cases.append({"cls": "DAG-" + kind, "src": dag_source(srcs, root_src), "finite": False, "script": [list(o) for o in dag_script(rng)],
                      "track": None, "dag": {"exprs": exprs, "root": root, "modelled": modelled and root is not None},
                      "shared": len(refs) != len(set(refs))})
    outs = run_lib(run, cases)
    found, terms, owners = [], [], []
    for c, out in zip(cases, outs):
        run.count(); run.dist("stream.dag"); run.dist("dag." + c["cls"]); run.dist("dag.shared-cell" if c["shared"] else "dag.no-sharing")
        run.dist("dag.cells-engine-P" if c["dag"]["modelled"] else "dag.cells-library")
        bad, notes = lib_judge(c, out)
        for nt in notes:
            if nt == "script-judged":
                run.dist("dag.script-judged")
                run.nontrivial("dag " + c["src"] + repr(c["script"]))
            elif nt not in ("nontrivial-sticky", "track-judged") and not nt.startswith("no StopIteration"):
                run.discard("dag: " + nt.split("(")[0].strip())
        run.cov["oracle_evaluations"] += sum(len(out.get(k) or ()) for k in ("ref", "script"))
        bad = [(sig, doc) for sig, doc in bad if sig["kind"] in ("copy", "helper")]      # stickiness of graphs is not judged here
        for sig, doc in bad:
            sig = dict(sig, stream="dag")
            found.append((len(c["src"]) + 20 * len(c["script"]), len(found), sig, doc))
        if bad or not c["dag"]["modelled"] or out.get("status") or len(out.get("script", ())) < 2:
            continue
        try:
            ops = []
            for o in c["script"]:
                ops.append("(DNext %d)" % o[1] if o[0] == "next" else "(DCopy %d)" % o[1] if o[0] == "copy" else "(DNextN %d %d)" % (o[1], o[2]))
            root = c["dag"]["root"]
            rt = "(RExpr %s)" % dx_coq(root["expr"]) if "expr" in root else "(RDict %s)" % lst(["(%s, %s)" % (key_coq(k), dx_coq(d)) for k, d in root["dict"]])
            exp = [obs_coq(o) for o in out["script"][1:]]
            terms.append("dagcmp %s %s %s %s" % (lst([to_coq(e) for e in c["dag"]["exprs"]]), rt, lst(ops), lst(exp)))
            owners.append((c, out, rt, ops))
        except Unrepresentable as e:
            run.discard("dag model: unrepresentable")
    seen = {}
    for _, _, sig, doc in sorted(found, key=lambda t: t[:2]):
        key = json.dumps(sig, sort_keys=True)
        if key not in seen and len(seen) < 4:
            seen[key] = 1
            run.violation(sig, doc)
    # ---- model (Pat/Dag.v), inside Coq
    codes = []
    chunk = 60
    def one(i0):
        src = DAG_HEADER + "\nDefinition results : list nat := [\n" + ";\n".join(terms[i0:i0 + chunk]) + "\n].\nEval vm_compute in results.\n"
        return parse_nat_list(run.coqc_text("dag%d" % i0, src, timeout=300))
    with ThreadPoolExecutor(max_workers=8) as ex:
        for r in ex.map(one, range(0, len(terms), chunk)):
            codes.extend(r)
    run.cov["dag_model_comparisons"] = len(terms)
    reported = False
    for (c, out, rt, ops), k in zip(owners, codes):
        if k == 0:
            run.cov["traces_validated_against_impl"] += 1
        elif k == 2:
            run.discard("dag model: Inexact/OutOfFuel")
        elif not reported:
            reported = True
            run.violation({"kind": "correspondence", "class": c["cls"], "model": "Pat/Dag.v"}, {
                "broken": "correspondence Pat/Dag.v (dstep / rstep / copy_root) vs the implementation on a pattern graph with shared cells: "
                          "the theorem C09_dag_copy_interleavings no longer speaks about this code",
                "case": {"src": c["src"], "ops": c["script"]}, "observed": [pretty_obs(o) for o in out["script"]],
                "model": run.coq_eval(DAG_HEADER, "dagtrace %s %s %s" % (lst([to_coq(e) for e in c["dag"]["exprs"]]), rt, lst(ops))),
                "python": lib_snippet(c["src"], [tuple(o) for o in c["script"]])}, found_input=False)


# ==========================================================================================================
# Instances stream: SEVERAL INSTANCES of one class built from the same source (equal arguments) and their copies,
# alive together, each REWOUND (reset / all / len) at different moments and then advanced alternately.  The oracle
# is `simulate` extended over rewinds: every handle is a position in the outputs of repeated next() on a fresh
# instance; next / nextn / for read at the position, reset() / all() / len() put it back to 0 (C04's clause: all()
# leaves the pattern rewound), copy starts at the position of its source, new at 0.  Classes: PLSystem with bracketed
# rules (its bracket stack is per-object state), the expressions of engine P, seeded stochastic patterns (their
# reset() is judged by C04 on the same tree).  Model: Pat/Instances.v (theorems C09_instances_independent /
# _copy / _new), for PLSystem with Pat/LSystem.v compared inside Coq (pl_check).
# ==========================================================================================================
LSYS_BRACKETED = ["N[-N++N]-N", "N[+N]-N", "N[-N][+N]N", "[N]+N[-N]", "N[+N[-N]+N]-N", "N-[N+N]", "N[-N_]+N", "N[+N]", "[-N]N[+N]N", "N+N"]
INST_REFN = 300
LSYS_TOK = {"N": "TN", "_": "TRest", "-": "TMinus", "+": "TPlus", "[": "TOpen", "]": "TClose"}
INST_HEADER = HEADER + "From Isobar Require Import Pat.Instances Pat.LSystem.\n"


def simulate_rewinds(ref, ops):
    """expected observations of a script over several instances / copies, rewinds included"""
    pos, out = [0], []

    def call(h):
        if pos[h] >= len(ref):
            raise CannotJudge("reference run too short")
        o = ref[pos[h]]
        pos[h] += 1
        return o

    def take(h, n):
        vals = []
        while n is None or len(vals) < n:
            o = call(h)
            if o == "stop":
                break
            if "r" in o:
                raise CannotJudge("exception inside a helper")
            vals.append(o["y"])
        return vals
    for op in ops:
        k, h = op[0], op[1]
        if k == "new":
            pos.append(0); out.append({"y": None})
        elif k == "copy":
            pos.append(pos[h]); out.append({"y": None})
        elif k == "next":
            out.append(call(h))
        elif k in ("nextn", "for"):
            out.append({"y": {"l": take(h, op[2])}})
        elif k == "reset":
            pos[h] = 0; out.append({"y": None})
        elif k == "all":
            out.append({"y": {"l": take(h, op[2])}}); pos[h] = 0
        elif k == "len":
            out.append({"y": len(take(h, None))}); pos[h] = 0
    return out


def inst_script(rng, finite):
    """instances and copies are created at different moments, rewound at different moments, then advanced alternately"""
    ops, handles = [], 1
    upfront = rng.random() < 0.5
    if upfront:
        for _ in range(rng.choice([1, 1, 2])):
            ops.append(("new", 0)); handles += 1

    def rewind(h):
        k = rng.random()
        if k < 0.45:
            return ("reset", h)
        if k < 0.8 or not finite:
            return ("all", h, rng.randint(0, 6))
        return ("len", h) if rng.random() < 0.6 else ("all", h, None)
    for rnd in range(rng.randint(2, 4)):
        for _ in range(rng.randint(0, 4)):
            h = rng.randrange(handles)
            ops.append(("next", h) if rng.random() < 0.7 else ("nextn", h, rng.randint(0, 4)))
        if handles < 5:
            if not upfront and rng.random() < 0.4:
                ops.append(("new", 0))
            else:
                ops.append(("copy", rng.randrange(handles)))
            handles += 1
        # rewind one or several handles (not necessarily all), then advance them alternately
        hs = rng.sample(range(handles), rng.randint(1, handles))
        for h in hs:
            if rng.random() < 0.75:
                ops.append(rewind(h))
        order = list(range(handles))
        for _ in range(rng.randint(3, 9)):
            rng.shuffle(order)
            for h in order[:rng.randint(2, max(2, handles))]:
                ops.append(("next", h) if rng.random() < 0.85 else (rng.choice(["nextn", "for"]), h, rng.randint(1, 3)))
    return ops[:70]


def check_instances(run, gen):
    rng = run.rng
    thorough = run.tier == "thorough"
    cases = []
    for i in range(2400 if thorough else 240):
        k = i % 10
        if k < 5:
            rule, depth, loop = rng.choice(LSYS_BRACKETED), rng.randint(1, 4), rng.random() < 0.3
            if depth == 4 and rule.count("N") > 3:
                depth = 3
            c = {"cls": "PLSystem", "src": "iso.PLSystem(%r, %d, %r)" % (rule, depth, loop), "finite": True, "lsys": (rule, depth, loop)}
        elif k < 8:
            e = gen.gen(rng.choice([0, 1, 1, 2]), rng.random() < 0.7)
            c = {"cls": root_cls(e), "src": to_source(e), "finite": gen.known_finite(e), "expr": e}
        else:
            c = {"cls": "seeded", "src": _fin_input(rng), "finite": True}
        c.update({"script": [list(o) for o in inst_script(rng, c["finite"])], "track": None, "refn": INST_REFN if c["cls"] == "PLSystem" else 2 * LIB_REFN})
        cases.append(c)
    outs = run_lib(run, cases)
    found, terms, owners, mcases = [], [], [], []
    for c, out in zip(cases, outs):
        run.count(); run.dist("stream.instances"); run.dist("instances." + ("PLSystem" if c["cls"] == "PLSystem" else "engine-P" if "expr" in c else "seeded"))
        if out.get("status"):
            run.discard("instances: impl-" + out["status"]); continue
        ref = out.get("ref", [])
        if len(ref) < 2 or len(out.get("script", ())) < 2 or ref != out.get("ref2"):
            run.discard("instances: constructor raised / not reproducible"); continue
        ops = [tuple(o) for o in c["script"]]
        try:
            want = simulate_rewinds(ref[1:], ops)
        except CannotJudge as e:
            run.discard("instances: " + str(e)); continue
        got = out["script"][1:]
        run.cov["oracle_evaluations"] += len(got)
        run.nontrivial("instances " + c["src"] + repr(ops))
        for op in ops:
            run.dist("instances.op." + op[0])
        dev = None
        for j, w in enumerate(want):
            if j >= len(got) or canon_obs(got[j]) != canon_obs(w):
                dev = j
                break
        if dev is not None:
            found.append((len(ops), len(found), c, out, dev, canon_obs(want[dev]), canon_obs(got[dev]) if dev < len(got) else "nothing"))
            continue
        if c["cls"] == "PLSystem":
            rule, depth, loop = c["lsys"]
            P = "(%s, %d%%nat, %s)" % (lst([LSYS_TOK.get(ch, "TOther") for ch in rule]), depth, blit(loop))
            wops = ["(WNew P)"]
            for o in ops:
                if o[0] == "new":
                    wops.append("(WNew P)")
                elif o[0] == "copy":
                    wops.append("(WCopy %d)" % o[1])
                else:
                    oo = {"next": "ONext", "reset": "OReset", "len": "OLen"}.get(o[0]) or \
                        ("(ONextN %d)" % o[2] if o[0] in ("nextn", "for") else "(OAll %s)" % ("LMAX" if o[2] is None else "%d" % o[2]))
                    wops.append("(WOp %d %s)" % (o[1], oo))
            try:
                terms.append("(let P : list tok * nat * bool := %s in pl_check LMAX %s %s)" % (P, lst(wops), lst([obs_coq(x) for x in out["script"]])))
                owners.append((c, out))
            except Unrepresentable:
                run.discard("instances model: unrepresentable")
        elif "expr" in c and ops and all(o[0] != "new" or j < sum(1 for q in ops if q[0] == "new") for j, o in enumerate(ops)):
            # all further instances are created before anything is advanced: in the tree model a new instance of the same
            # expression is the initial object, i.e. a copy of handle 0 taken at that moment
            mc = Case(c["expr"], [("copy", 0) if o[0] == "new" else o for o in ops], "instances")
            mc.obs = out["script"]
            mcases.append(mc)
    seen = set()
    for _, _, c, out, dev, want, got in sorted(found, key=lambda t: t[:2]):
        ops = [tuple(o) for o in c["script"]]
        rewound = any(o[0] in ("reset", "all", "len") for o in ops[:dev])
        sig = {"kind": "instances", "class": c["cls"] if c["cls"] == "PLSystem" else root_cls(c["expr"]) if "expr" in c else "seeded",
               "op": ops[dev][0], "after_rewind": rewound}
        key = json.dumps(sig, sort_keys=True)
        if key in seen or len(seen) >= 4:
            continue
        seen.add(key)
        lines = lib_snippet(c["src"], []).split("\n")
        n = 1
        for o in ops[:dev + 1]:
            if o[0] == "new":
                lines.append("p%d = %s" % (n, c["src"])); n += 1
            elif o[0] == "copy":
                lines.append("p%d = p%d.copy()" % (n, o[1])); n += 1
            elif o[0] == "reset":
                lines.append("p%d.reset()" % o[1])
            else:
                lines.append("print(%s)" % op_source(o))
        run.violation(sig, {
            "case": {"src": c["src"], "ops": [list(o) for o in ops], "instances": True},
            "expected": "operation %d (%s on handle %d): %s  [the outputs of repeated next() on a fresh instance, from this handle's own position; "
                        "reset() / all() / len() rewind the handle they are called on and no other]" % (dev, ops[dev][0], ops[dev][1], want),
            "observed": got, "observed_outputs": [pretty_obs(o) for o in out["script"]],
            "reference_next_outputs": [pretty_obs(o) for o in out["ref"][:40]], "python": "\n".join(lines)})
    # ---- model
    codes = []
    chunk = 40

    def one(i0):
        srcc = INST_HEADER + "\nDefinition results : list nat := [\n" + ";\n".join(terms[i0:i0 + chunk]) + "\n].\nEval vm_compute in results.\n"
        return parse_nat_list(run.coqc_text("inst%d" % i0, srcc, timeout=300))
    with ThreadPoolExecutor(max_workers=8) as ex:
        for r in ex.map(one, range(0, len(terms), chunk)):
            codes.extend(r)
    run.cov["instances_lsystem_model_comparisons"] = len(terms)
    reported = False
    for (c, out), k in zip(owners, codes):
        if k == 0:
            run.cov["traces_validated_against_impl"] += 1
        elif k == 2:
            run.discard("instances model: Inexact/OutOfFuel")
        elif not reported:
            reported = True
            run.violation({"kind": "correspondence", "class": "PLSystem", "model": "Pat/LSystem.v"}, {
                "broken": "correspondence Pat/LSystem.v / Pat/Instances.v vs the implementation on several PLSystem instances and copies: the theorems "
                          "C09_lsystem_instances_independent / C09_lsystem_sticky no longer speak about this code",
                "case": {"src": c["src"], "ops": c["script"], "instances": True}, "observed": [pretty_obs(o) for o in out["script"]]}, found_input=False)
    return mcases


# ==========================================================================================================
# Pattern-valued outputs (helper agreement): patterns whose yielded VALUES are pattern objects - PDictKey over a dict of
# patterns, PConstant(pattern) behind PSubsequence / PStutter / PLoop / PRef, seeded PShuffle / PChoice / PRandomWalk /
# PSample over lists containing patterns, PFunc.  next(), nextn, for, all, len must agree at every position: the helpers
# return the OBJECTS next() returns (observed by class name) and do not resolve / advance them.  Oracle: lib_judge
# (helpers simulated from repeated next() on a fresh instance).  Model: Pat/PatValued.v (C09_nextn_returns_the_objects).
# PMap family with a FINITE pattern as extra positional argument (PMap, PMapEnumerated, PRound, PScaleLinLin, PScaleLinExp):
# the pattern must END with StopIteration - for ever - where its shortest input ends, also under the helpers and on a
# Track that drains (theorem: C09More, GP_map).
# ==========================================================================================================
PV_CELLS = ["iso.PSeries(60, 1)", "iso.PSequence([1, 2], 1)", "iso.PGeom(1, 2, 3)", "iso.PRange(0, 4, 1)"]
PV_NAMES = ["PSeries", "PSequence", "PGeom", "PRange"]


def pv_case(rng):
    """(source, finite?, Coq selector expression | None): cells are patterns of four distinct classes, so that the object a
    value is can be recognised by its class name; in the model a cell is its address 1000 + i"""
    k = rng.sample(range(4), rng.randint(2, 3))
    addr = lambda i: "(EV (VInt %d))" % (1000 + i)
    t = rng.randrange(9)
    if t == 0:
        keys = [rng.choice("ab"[:len(k[:2])]) for _ in range(rng.randint(2, 6))]
        rep = rng.randint(1, 2)
        return ("iso.PDictKey({'a': %s, 'b': %s}, iso.PSequence(%r, %d))" % (PV_CELLS[k[0]], PV_CELLS[k[1]], keys, rep), True,
                "(ECall CDictKey [ED [(\"a\"%%string, %s); (\"b\"%%string, %s)]; EP (ECall CSequence [EL %s; EV (VInt %d)])])" % (
                    addr(k[0]), addr(k[1]), lst(["(EV (VStr \"%s\"))" % x for x in keys]), rep))
    if t == 1:
        n = rng.randint(1, 5)
        return ("iso.PSubsequence(iso.PConstant(%s), 0, %d)" % (PV_CELLS[k[0]], n), True,
                "(ECall CSubsequence [EP (ECall CConstant [%s]); EV (VInt 0); EV (VInt %d)])" % (addr(k[0]), n))
    if t == 2:
        n, m = rng.randint(1, 3), rng.randint(1, 3)
        return ("iso.PStutter(iso.PSubsequence(iso.PConstant(%s), 0, %d), %d)" % (PV_CELLS[k[0]], n, m), True,
                "(ECall CStutter [EP (ECall CSubsequence [EP (ECall CConstant [%s]); EV (VInt 0); EV (VInt %d)]); EV (VInt %d)])" % (addr(k[0]), n, m))
    if t == 3:
        n, m = rng.randint(1, 3), rng.randint(1, 3)
        return ("iso.PLoop(iso.PSubsequence(iso.PConstant(%s), 0, %d), %d)" % (PV_CELLS[k[0]], n, m), True,
                "(ECall CLoop [EP (ECall CSubsequence [EP (ECall CConstant [%s]); EV (VInt 0); EV (VInt %d)]); EV (VInt %d)])" % (addr(k[0]), n, m))
    if t == 4:
        return "iso.PRef(iso.PConstant(%s))" % PV_CELLS[k[0]], False, "(ECall CRef [EP (ECall CConstant [%s])])" % addr(k[0])
    cells = "[%s]" % ", ".join(PV_CELLS[i] for i in k)
    if t == 5:
        return "iso.PShuffle(%s, %d)%s" % (cells, rng.randint(1, 2), _sd(rng)), True, None
    if t == 6:
        return "iso.PSubsequence(iso.PChoice(%s)%s, 0, %d)" % (cells, _sd(rng), rng.randint(2, 6)), True, None
    if t == 7:
        return "iso.PSubsequence(iso.PRandomWalk(%s, 1, 1)%s, 0, %d)" % (cells, _sd(rng), rng.randint(2, 6)), True, None
    return "iso.PSubsequence(iso.PFunc(lambda: %s), 0, %d)" % (PV_CELLS[k[0]], rng.randint(1, 4)), True, None


def pv_obs_coq(o):
    """observation -> Coq outcome, a pattern object (class name) written as the address of its cell"""
    def conv(j):
        if isinstance(j, dict) and "o" in j:
            if j["o"] in PV_NAMES:
                return 1000 + PV_NAMES.index(j["o"])
            raise Unrepresentable(j["o"])
        if isinstance(j, dict) and "l" in j:
            return {"l": [conv(x) for x in j["l"]]}
        return j
    if isinstance(o, dict) and "y" in o:
        return obs_coq({"y": conv(o["y"])})
    return obs_coq(o)


def check_helper_values(run, gen):
    rng = run.rng
    thorough = run.tier == "thorough"
    cases = []
    for i in range(1200 if thorough else 120):
        src_, fin, coq = pv_case(rng)
        cases.append({"cls": "pattern-valued", "src": src_, "finite": fin, "script": [list(o) for o in lib_script(rng, fin)], "track": None, "coq": coq})
    # the PMap family with a finite pattern as extra positional argument: n = where the shortest input ends
    fam = []
    for i in range(1200 if thorough else 120):
        la = rng.randint(0, 5)
        arg = "iso.PSequence(%r, 1)" % [rng.randint(0, 2) for _ in range(la)]
        lin = rng.choice([None, None, la, la + 2, max(0, la - 1)])
        inp = "iso.PSeries(%d, 1)" % rng.randint(0, 9) if lin is None else "iso.PSequence(%r, 1)" % [rng.randint(0, 9) for _ in range(lin)]
        t = i % 6
        if t == 0:
            s_ = "iso.PMap(%s, max, %s)" % (inp, arg)
        elif t == 1:
            s_ = "iso.PMapEnumerated(%s, (lambda i, x, a: i + x + a), %s)" % (inp, arg)
        elif t == 2:
            s_ = "iso.PRound(%s, %s)" % (inp, arg)
        elif t == 3:
            s_ = "iso.PScaleLinLin(%s, %s, 20, 0, 1)" % (inp, arg.replace("iso.PSequence(", "iso.PSequence(").replace("[", "[-1 - ", 1) if False else arg)
        elif t == 4:
            s_ = "iso.PMap(%s, (lambda x, a, b: x + a + b), 1, %s)" % (inp, arg)
        else:
            s_ = "iso.PStutter(iso.PRound(%s, %s), 2)" % (inp, arg)
        n = la if lin is None else min(la, lin)
        n = 2 * n if t == 5 else n
        fam.append({"cls": "PMap-family", "src": s_, "finite": True, "n": n, "script": [list(o) for o in lib_script(rng, True)], "track": track_cfg(rng)})
    outs = run_lib(run, cases + fam)
    found, terms, owners = [], [], []
    for c, out in zip(cases, outs[:len(cases)]):
        run.count(); run.dist("stream.pattern-valued-outputs")
        bad, notes = lib_judge(c, out)
        if "script-judged" in notes:
            run.dist("patvalued.script-judged"); run.nontrivial("pv " + c["src"] + repr(c["script"]))
        run.cov["oracle_evaluations"] += len(out.get("script") or ())
        bad = [(sig, doc) for sig, doc in bad if sig["kind"] in ("copy", "helper")]
        for sig, doc in bad:
            found.append((len(c["src"]) + 10 * len(c["script"]), len(found), dict(sig, stream="pattern-valued-outputs"), doc))
        if bad or c["coq"] is None or out.get("status") or len(out.get("script", ())) < 2:
            continue
        try:
            ops = [op_coq(tuple(o)) for o in c["script"]]
            terms.append("(match cmpr %s %s %s with Agree => 0 | Disagree => 1 | Discard => 2 end)%%nat" % (c["coq"], lst(ops), lst([pv_obs_coq(o) for o in out["script"]])))
            owners.append((c, out))
        except Unrepresentable:
            run.discard("patvalued model: unrepresentable")
    for c, out in zip(fam, outs[len(cases):]):
        run.count(); run.dist("stream.pmap-family-finite-argument")
        if out.get("status") or len(out.get("ref", ())) < 2:
            run.discard("pmapfamily: constructor raised / timeout"); continue
        ref, n = out["ref"][1:], c["n"]
        run.cov["oracle_evaluations"] += len(ref) + len(out.get("script") or ())
        run.nontrivial("pmapfam " + c["src"])
        doc = {"case": {"src": c["src"], "ops": c["script"]}, "reference_next_outputs": [pretty_obs(o) for o in out["ref"][:n + 8]]}
        sig = None
        head_ok = all(isinstance(o, dict) and "y" in o for o in ref[:n])
        if head_ok and any(o != "stop" for o in ref[n:]):
            j = next(j for j, o in enumerate(ref[n:]) if o != "stop")
            sig = {"kind": "no-stopiteration-at-the-end", "class": "PMap-family"}
            doc.update(expected="StopIteration on call %d and on every later call (the shortest input ends after %d values)" % (n + j, n),
                       observed="call %d: %s" % (n + j, canon_obs(ref[n + j])), python=lib_snippet(c["src"], [("next", 0)] * (n + j + 1)))
        elif head_ok and out.get("script") and len(out["script"]) > 1:
            try:
                want = simulate(ref[:n] + ["stop"] * (len(ref) - n), [tuple(o) for o in c["script"]], None)
                got = out["script"][1:]
                for j, w in enumerate(want):
                    if j >= len(got) or canon_obs(got[j]) != canon_obs(w):
                        sig = {"kind": "helper", "op": c["script"][j][0], "class": "PMap-family"}
                        doc.update(expected="operation %d (%s): %s" % (j, c["script"][j][0], canon_obs(w)), observed=canon_obs(got[j]) if j < len(got) else "nothing",
                                   python=lib_snippet(c["src"], [tuple(o) for o in c["script"][:j + 1]]))
                        break
            except CannotJudge:
                pass
        t = out.get("track")
        if sig is None and head_ok and t and t.get("error"):
            sig = {"kind": "track-raises", "class": "PMap-family"}
            doc.update(expected="the drained track ends quietly", observed="Timeline.tick raised %s" % t["error"], python=lib_snippet(c["src"], track=c["track"]))
        if sig:
            found.append((len(c["src"]), len(found), sig, doc))
    seen = set()
    for _, _, sig, doc in sorted(found, key=lambda t: t[:2]):
        key = json.dumps(sig, sort_keys=True)
        if key not in seen and len(seen) < 5:
            seen.add(key)
            run.violation(sig, doc)
    bad = run.coq_failing(HEADER, ["Nat.eqb %s 0 || Nat.eqb %s 2" % (t, t) for t in terms], chunk=60)
    run.cov["traces_validated_against_impl"] += len(terms) - len(bad)
    run.cov["pattern_valued_model_comparisons"] = len(terms)
    if bad:
        c, out = owners[bad[0]]
        run.violation({"kind": "correspondence", "class": "pattern-valued", "model": "Pat/PatValued.v"}, {
            "broken": "correspondence (a pattern whose outputs are pattern objects: the selector of Pat/PatValued.v yields addresses) vs the implementation: "
                      "C09_nextn_returns_the_objects no longer speaks about this code",
            "case": {"src": c["src"], "ops": c["script"]}, "observed": [pretty_obs(o) for o in out["script"]]}, found_input=False)
    # the model's PRound with a finite pattern argument (Props/C09More.v, GP_map): correspondence on the same dimension
    mc = []
    for i in range(400 if thorough else 40):
        e = gen.mark(E("PRound", gen.gen(1, rng.random() < 0.5), gen.mark(E("PSequence", [rng.choice([0, 1, 2]) for _ in range(rng.randint(0, 4))], 1), True)), True)
        mc.append(Case(e, [("next", 0)] * 12, "pround-finite-arg"))
    run_impl(run, mc, shards=4)
    return mc


META["text"] += (" Patterns whose outputs are pattern objects: the helpers return the objects next() returns and leave them untouched "
                 "(Pat/PatValued.v, C09_nextn_returns_the_objects, C09_helpers_leave_yielded_patterns; stratum pattern-valued-outputs); members of the PMap "
                 "family with a finite pattern as extra positional argument end with StopIteration for ever where their shortest input ends, under next, the "
                 "helpers and on a draining Track (stratum pmap-family-finite-argument; theorem: Props/C09More.v, GP_map).")


model_exprs_by_src = {}


# ==========================================================================================================
# PArrayIndex stratum: a literal list with PATTERN items, with a pattern index (3/4) or a scalar index.  Until the
# repair C09-parrayindex-revives (findings/C09-parrayindex-revives.md) the StopIteration of the selected item leaked
# out and the next index brought the object back to life; it now stays exhausted until reset().  The model carries
# the flag (Pat/Syntax.v PArrayIndex .. exhausted) and every PArrayIndex is sticky (Props/C09More.v
# C09_more_arrayindex_sticky).  Judged like every other class; compared with the model.
# ==========================================================================================================
def arrayindex_expr(rng, gen, pattern_index):
    n = rng.randint(2, 4)
    xs = []
    for _ in range(n):
        xs.append(gen.mark(E("PSequence", gen.numlist(1, 4, allow_none=False), rng.randint(1, 2)), True)
                  if rng.random() < 0.75 else gen.num(allow_none=False))
    if not any(is_pat(x) for x in xs):
        xs[0] = gen.mark(E("PSequence", gen.numlist(1, 3, allow_none=False), 1), True)
    idx = gen.mark(E("PSequence", [rng.randint(0, n - 1) for _ in range(rng.randint(3, 8))], rng.randint(1, 2)), True) \
        if pattern_index else rng.randint(0, n - 1)
    e = gen.mark(E("PArrayIndex", xs, idx), True)
    w = rng.random()
    if w < 0.15:
        e = gen.mark(E("PAdd", e, rng.randint(0, 3)), True)
    elif w < 0.25:
        e = gen.mark(E("PStutter", e, rng.randint(1, 2)), True)
    return e


def check_arrayindex_revival(run, gen):
    rng = run.rng
    cases = [Case(arrayindex_expr(rng, gen, i % 4 != 0), [("next", 0)] * REFN, "sticky-arrayindex")
             for i in range(900 if run.tier == "thorough" else 90)]
    run_impl(run, cases)
    reviving = []
    for c in cases:
        run.count(); run.dist("stream.sticky-arrayindex")
        if c.status:
            run.discard("impl-" + c.status); continue
        run.cov["oracle_evaluations"] += len(c.obs)
        stops = [i for i, o in enumerate(c.obs[1:]) if o == "stop"]
        if stops and stops[0] > 0:
            run.nontrivial("sticky-arrayindex " + to_source(c.expr))
        if judge_sticky(c.obs) is not None:
            reviving.append(c)
    for n, c in enumerate(sorted(reviving, key=lambda c: size(c.expr))):
        if n >= 3:
            break
        d = judge_sticky(c.obs)
        run.violation({"kind": "sticky", "class": root_cls(c.expr), "after": "raise" if d["observed"].startswith("raise") else "value",
                       "stratum": "arrayindex"}, {
            "case": {"expr": to_source(c.expr), "expr_json": to_json(c.expr), "ops": [list(o) for o in c.ops]},
            "expected": "StopIteration on every next() after call %d (the first StopIteration)" % d["first_stop"],
            "observed": "call %d: %s" % (d["index"], d["observed"]), "observed_outputs": c.obs_pretty(),
            "python": replay_snippet(c.expr, c.ops[:d["index"] + 1])})
    run_model(run, cases)
    for c in cases:
        if c.verdict == "agree":
            run.cov["traces_validated_against_impl"] += 1
    bad = [c for c in cases if c.verdict == "disagree"]
    if bad:
        small = shrink(run, bad[0], rounds=4)
        run.violation({"kind": "correspondence", "class": root_cls(small.expr), "stratum": "arrayindex"}, {
            "broken": "correspondence Pat/Step.v (PArrayIndex over a literal list) vs the implementation: C09_more_arrayindex_sticky / C09_more_sticky no longer speak about this code",
            "case": {"expr": to_source(small.expr), "expr_json": to_json(small.expr), "ops": [list(o) for o in small.ops]},
            "observed": small.obs_pretty(), "model": model_trace(run, small), "python": replay_snippet(small.expr, small.ops)}, found_input=False)
    run.cov["arrayindex_stratum"] = {"cases": len(cases), "reviving": len(reviving)}


# ---- clock-dependent patterns: histories of (advance the clock by dt, next()) steps that go on past the end ---------------
# static.py: PStaticPattern (PCurrentTime and PGlobals of the same file never end and are in LIB_RECIPES).  The pattern is
# polled from inside a method of a timeline (a stub with a settable clock, or a real Timeline on a DummyClock ticked by hand),
# on a clock that advances by less than / exactly / more than element_duration between polls, before AND after the end.
CLK_UNIT = 32      # one clock unit = 1/32 beat
CLK_STEPS = 30
CLOCKED_HEADER = """From Isobar Require Import Base.Prelude Pat.Clocked.
Open Scope Z_scope.
"""


def clocked_inner(rng):
    w = rng.random()
    if w < 0.55:
        return "iso.PSequence(%r, %d)" % (_ints(rng, 1, 4), rng.choice([1, 1, 2]))
    if w < 0.65:
        return "iso.PSeries(%d, %d, %d)" % (rng.randint(40, 80), rng.randint(1, 5), rng.randint(1, 5))
    if w < 0.72:
        return "iso.PSequence([], 1)"
    return _fin_input(rng)


def clocked_case(rng, i):
    inner = clocked_inner(rng)
    durs = [rng.choice([8, 16, 16, 32, 32, 32, 48, 64])]
    w = rng.random()
    if w < 0.15:                      # element_duration as an endless pattern (zero-length elements are skipped within one call)
        durs = [rng.choice([0, 8, 16, 32, 48]) for _ in range(rng.randint(2, 3))]
        if not any(durs):
            durs[0] = 16
    dsrc = repr(durs[0] / CLK_UNIT) if len(durs) == 1 else "iso.PSequence(%r)" % [d / CLK_UNIT for d in durs]
    if len(durs) == 1 and durs[0] % CLK_UNIT == 0 and rng.random() < 0.5:
        dsrc = str(durs[0] // CLK_UNIT)
    src = "iso.PStaticPattern(%s, %s)" % (inner, dsrc)
    wrap, inners = None, [inner]
    w = rng.random()
    if w < 0.12:
        wrap = rng.randint(1, 12)
        src = "(%s + %d)" % (src, wrap)
    elif w < 0.2:                     # a clocked pattern as the inner pattern of a clocked pattern (oracle only)
        wrap = "nested"
        src = "iso.PStaticPattern(%s, %s)" % (src, repr(rng.choice([8, 16, 32, 48]) / CLK_UNIT))
    d = max(durs)
    g = rng.choice([1, max(1, d // 4), max(1, d // 2)])
    steps = [rng.choice([0, 1, g, g, 2 * g, d - 1, d, d + 1, d + g, 3 * d]) for _ in range(CLK_STEPS)]
    steps[0] = rng.choice([0, 0, g])
    timeline = "stub" if i % 3 else rng.choice([32, 480])
    track = None
    if i % 4 == 0 and all(durs):
        tpb = rng.choice([32, 32, 64])
        track = {"tpb": tpb, "dur": list(rng.choice([(1, 2), (1, 4), (1, 1), (3, 4)])), "gate": list(rng.choice(TRACK_GATES))}
        # every element can be stretched to the next poll: a generous bound, then the last note, then 3 beats
        beats = 12 * (Fraction(d, CLK_UNIT) + Fraction(*track["dur"])) + Fraction(*track["dur"]) * Fraction(*track["gate"]) + 3
        track["budget"] = int(beats * tpb) + 8
    return {"src": src, "inner": inners, "durs": durs, "wrap": wrap, "timeline": timeline, "t0": rng.choice([0, 0, 5, 32, 77]),
            "steps": steps, "track": track}


def clocked_snippet(c, upto=None):
    steps = c["steps"][:upto] if upto else c["steps"]
    return ("import isobar as iso\n"
            "class Timeline:                       # Pattern.timeline looks for a `self` of a class of this name on the call stack\n"
            "    current_time = 0.0\n"
            "    def poll(self, p):\n"
            "        try:\n            return next(p)\n        except StopIteration:\n            return 'StopIteration'\n"
            "tl, p = Timeline(), %s\n"
            "tl.current_time = %r\n"
            "for dt in %r:                         # clock units of 1/%d beat\n"
            "    tl.current_time += dt / %d\n"
            "    print(tl.current_time, tl.poll(p))\n" % (c["src"], c["t0"] / CLK_UNIT, steps, CLK_UNIT, CLK_UNIT))


def clocked_track_snippet(c):
    t = c["track"]
    return ("import isobar as iso\n"
            "class Rec(iso.OutputDevice):\n    ons = 0\n    def note_on(self, note=60, velocity=64, channel=0):\n        self.ons += 1\n"
            "    def note_off(self, note=60, channel=0):\n        pass\n"
            "dev = Rec()\ntl = iso.Timeline(120, output_device=dev, clock_source=iso.DummyClock(ticks_per_beat=%d))\ntl.stop_when_done = False\n"
            "tl.schedule({'note': %s, 'duration': %d / %d, 'gate': %d / %d})\n"
            "for _ in range(%d):\n    tl.tick()\nprint(dev.ons, 'note-ons; tracks left:', len(tl.tracks))\n"
            % (t["tpb"], c["src"], t["dur"][0], t["dur"][1], t["gate"][0], t["gate"][1], t["budget"]))


def clocked_expected_ons(values, durs, dur):
    """the number of notes of a track playing PStaticPattern(values, durs) with event duration `dur` (beats, Fraction):
    written from the description of the class (each value is held for element_duration beats, counted from the poll that
    began it; the track polls the pattern at 0, dur, 2 dur ... and ends at the first poll the pattern has nothing for)"""
    t, k, start, held, n = Fraction(0), 0, None, None, 0
    vals = list(values)
    while n < 10000:
        while start is None or t - start >= held:
            if not vals:
                return n
            vals.pop(0)
            start, held = t, Fraction(durs[k % len(durs)], CLK_UNIT)
            k += 1
        n += 1
        t += dur
    return n


def check_clocked(run):
    rng = run.rng
    cases = [clocked_case(rng, i) for i in range(1200 if run.tier == "thorough" else 180)]
    shards = 12
    parts = [cases[i::shards] for i in range(shards) if cases[i::shards]]
    outs = run.impl_parallel("c09_impl", [{"cases": [{"clocked": {k: c[k] for k in ("src", "inner", "timeline", "t0", "steps", "track")}} for c in part]} for part in parts])
    for part, out in zip(parts, outs):
        for c, r in zip(part, out["cases"]):
            c["out"] = r
    terms, tcases = [], []
    stats = {"cases": len(cases), "ended": 0, "polled_after_end_within_duration": 0, "polled_after_end_beyond_duration": 0,
             "reviving": 0, "tracks": 0, "tracks_with_values": 0, "model_compared": 0, "real_timeline": 0, "stub_timeline": 0}
    reported = 0
    for c in cases:
        run.count(); run.dist("stream.clocked"); run.dist("clocked.timeline." + ("stub" if c["timeline"] == "stub" else "real"))
        stats["stub_timeline" if c["timeline"] == "stub" else "real_timeline"] += 1
        if c["wrap"] is not None:
            run.dist("clocked.wrap." + ("nested" if c["wrap"] == "nested" else "add"))
        if len(c["durs"]) > 1:
            run.dist("clocked.duration-pattern")
        o = c["out"]
        if o["status"] or not o.get("obs") or o["obs"][0] is not None and o["obs"][0] != {"y": None}:
            run.discard("clocked-impl-" + str(o["status"] or "constructor")); continue
        obs = o["obs"]
        run.cov["oracle_evaluations"] += len(obs)
        # -- oracle (property text): once StopIteration, StopIteration on every later next(), whatever the clock has done
        d = judge_sticky(obs)
        stops = [i for i, x in enumerate(obs[1:]) if x == "stop"]
        if stops:
            stats["ended"] += 1
            first = stops[0]
            since, within, beyond = 0, False, False
            for dt in c["steps"][first + 1:]:
                since += dt
                if 0 < since < min(x for x in c["durs"] if x) :
                    within = True
                if since > max(c["durs"]):
                    beyond = True
            stats["polled_after_end_within_duration"] += within
            stats["polled_after_end_beyond_duration"] += beyond
            run.dist("clocked.after-end.%s%s" % ("within" if within else "", "+beyond" if beyond else ""))
            if first > 0 and within and beyond:
                run.nontrivial("clocked " + c["src"] + repr(c["steps"]) + str(c["timeline"]))
        if d is not None:
            stats["reviving"] += 1
            if reported < 2:
                reported += 1
                run.violation({"kind": "sticky", "class": "PStaticPattern", "after": "raise" if d["observed"].startswith("raise") else "value",
                               "stratum": "clocked"}, {
                    "case": {"clocked": {k: c[k] for k in ("src", "inner", "durs", "wrap", "timeline", "t0", "steps")}},
                    "expected": "StopIteration on every next() after call %d (the first StopIteration), however far the clock has advanced" % d["first_stop"],
                    "observed": "call %d (clock advanced by %s/%d beat since the end): %s" % (
                        d["index"], sum(c["steps"][d["first_stop"] + 1:d["index"] + 1]), CLK_UNIT, d["observed"]),
                    "observed_outputs": [pretty_obs(x) for x in obs], "python": clocked_snippet(c, d["index"] + 1)})
        # -- the inner pattern on its own: the values the model is given
        inner = o["inner"][0] if o.get("inner") else None
        vals = None
        if inner:
            vals = []
            for x in inner[1:]:
                if x == "stop":
                    break
                if not (isinstance(x, dict) and isinstance(x.get("y"), int) and not isinstance(x.get("y"), bool)):
                    vals = None
                    break
                vals.append(x["y"])
            if vals is not None and "stop" not in inner[1:]:
                vals = None
        # -- drained track: the stream ends while its last note still sounds; the track must end, with the notes of the values
        inner_len = inner[1:].index("stop") if inner and "stop" in inner[1:] else None      # values before the inner pattern ends
        if c["track"] is not None and o.get("track") is not None:
            t = o["track"]
            stats["tracks"] += 1
            run.dist("clocked.track")
            want = clocked_expected_ons(vals, c["durs"], Fraction(*c["track"]["dur"])) if vals is not None and c["wrap"] != "nested" else None
            if want:
                stats["tracks_with_values"] += 1
            playable = vals is not None and all(0 <= v + (c["wrap"] if isinstance(c["wrap"], int) else 0) <= 127 for v in vals)
            bad = None
            if t.get("error") and playable:
                bad = "the timeline raised %s" % t["error"]
            elif not t.get("error") and not t["ended"] and inner_len is None:
                # the inner pattern, polled on its own, never ended (PArpeggiator([]) yields rests for ever): nothing says the
                # track has to end.  (False alarm of the thorough tier at seed 3 before this guard.)
                run.dist("clocked.track.inner-never-ends (not judged for ending)")
            elif not t.get("error") and not t["ended"] and inner_len > 12:
                run.dist("clocked.track.inner-longer-than-the-budget-assumes (not judged for ending)")
            elif not t.get("error") and not t["ended"]:
                bad = "the track is still on the timeline after %d ticks (%d note-ons)" % (t["ticks"], len(t["ons"]))
            elif not t.get("error") and want is not None and playable and len(t["ons"]) != want:
                bad = "%d note-ons, expected %d" % (len(t["ons"]), want)
            if bad and reported < 4:
                reported += 1
                run.violation({"kind": "drained-track", "class": "PStaticPattern", "stratum": "clocked"}, {
                    "case": {"clocked": {k: c[k] for k in ("src", "inner", "durs", "wrap", "track")}},
                    "expected": "the track plays %s notes and leaves the timeline when the last one has ended" % (want if want is not None else "its"),
                    "observed": bad, "python": clocked_track_snippet(c)})
        # -- correspondence with Pat/Clocked.v (s_run over list_step / cyc_dur)
        if vals is not None and c["wrap"] != "nested" and d is None:
            k = c["wrap"] if isinstance(c["wrap"], int) else 0
            exp = []
            for x in obs[1:]:
                if x == "stop":
                    exp.append("CStop")
                elif isinstance(x, dict) and isinstance(x.get("y"), int) and not isinstance(x.get("y"), bool):
                    exp.append("CYield %s" % zlit(x["y"] - k))
                else:
                    exp = None
                    break
            if exp is not None:
                terms.append("couts_eqb (static_outcomes %s %s %s %s) %s" % (zlist(vals), zlist(c["durs"]), zlit(c["t0"]), zlist(c["steps"]), lst(exp)))
                tcases.append(c)
    failing = run.coq_failing(CLOCKED_HEADER, terms)
    stats["model_compared"] = len(terms)
    run.cov["traces_validated_against_impl"] += len(terms) - len(failing)
    if failing:
        c = tcases[failing[0]]
        run.violation({"kind": "correspondence", "class": "PStaticPattern", "stratum": "clocked"}, {
            "broken": "correspondence Pat/Clocked.v (s_next / s_run) vs PStaticPattern.__next__: C09_clocked_sticky no longer speaks about this code",
            "case": {"clocked": {k: c[k] for k in ("src", "inner", "durs", "wrap", "timeline", "t0", "steps")}},
            "observed": [pretty_obs(x) for x in c["out"]["obs"]],
            "model": run.coq_eval(CLOCKED_HEADER, "static_outcomes %s %s %s %s" % (zlist([x["y"] for x in c["out"]["inner"][0][1:] if x != "stop"]), zlist(c["durs"]), zlit(c["t0"]), zlist(c["steps"]))),
            "python": clocked_snippet(c)}, found_input=False)
    run.cov["clocked_stratum"] = stats
    if not stats["polled_after_end_within_duration"] or not stats["polled_after_end_beyond_duration"] or not stats["tracks_with_values"]:
        raise CheckError("clocked stratum: coverage floor not reached %r" % stats)


def check(run):
    rng = run.rng
    thorough = run.tier == "thorough"
    sigs = run.impl("pat_impl", {"signatures": list(REGISTRY)})["signatures"]
    stale = {cls for cls, _ in check_registry(run, sigs)}
    run.cov["registry_mismatches"] = sorted(stale)
    length_max = None
    gen = Gen(rng, run)
    classes = list(GENERATORS)

    def expr(i, fin):
        depth = 1 + (i % 3) if rng.random() >= 0.05 else 5
        cls = classes[i % len(classes)] if rng.random() < 0.7 else None
        e = gen.gen(depth, fin, cls)
        if rng.random() < 0.04:                          # classes outside the model: oracle only
            inner = gen.gen(min(depth, 2), True)
            e = gen.mark(E("PPermut", inner, rng.randint(1, 3)), True)
            if rng.random() < 0.4:
                e = gen.mark(E("PAdd", e, rng.randint(0, 3)), True)
        return e

    sticky, scripts = [], []
    for i in range(30000 if thorough else 1300):
        e = expr(i, True)
        sticky.append(Case(e, [("next", 0)] * REFN, "sticky"))
    for i in range(30000 if thorough else 1500):
        e = expr(i, rng.random() < 0.7)
        fin = gen.known_finite(e)
        scripts.append(Case(e, gen_script(rng, fin), "script", {"finite": fin}))
    # helpers at every position of a nesting in which an INNER finite pattern ends the outer one early (a PSequence / a
    # PConcatenate / a PLoop ... whose own counters say there is more to come): next^k, then len / all / nextn / for
    for i in range(3000 if thorough else 200):
        inner = gen.gen(rng.choice([0, 0, 1]), True)
        items = [gen.num() for _ in range(rng.randint(0, 3))]
        items.insert(rng.randint(0, len(items)), inner)
        if rng.random() < 0.25:
            items.insert(rng.randint(0, len(items)), gen.gen(0, True))
        e = gen.mark(E("PSequence", items, rng.randint(2, 4)), True)
        k = rng.random()
        if k < 0.25:
            e = gen.mark(E("PLoop", e, rng.randint(1, 2)), True)
        elif k < 0.4:
            e = gen.mark(E("PConcatenate", [e, gen.gen(0, True)]), True)
        elif k < 0.5:
            e = gen.mark(E("PAdd", e, rng.randint(0, 3)), True)
        ops = [("next", 0)] * rng.choice([0, 0, 1, 2, 3, 4, 5, 6, 8, 11, 15])
        if rng.random() < 0.3:
            ops.append(("copy", 0))
        h = 1 if ops and ops[-1][0] == "copy" and rng.random() < 0.5 else 0
        ops.append(rng.choice([("len", h), ("len", h), ("all", h, None), ("nextn", h, 30), ("for", h, 30)]))
        scripts.append(Case(e, ops, "script", {"finite": True, "early_end": True}))
    refs = {}
    for c in scripts:
        refs.setdefault(to_source(c.expr), Case(c.expr, [("next", 0)] * REFN, "ref"))
    run_impl(run, sticky + scripts + list(refs.values()))

    reported = [0]

    def culprit_of(case, bad):
        """smallest sub-pattern that itself fails `bad` (a predicate on an evaluated case)"""
        best = case
        if reported[0] > 4:
            return best
        subs = [Case(n, case.ops, case.tag) for n in sub_patterns(case.expr)]
        if subs:
            run_impl(run, subs, shards=4)
            failing = [s for s in subs if not s.status and bad(s)]
            if failing:
                best = min(failing, key=lambda s: size(s.expr))
        return best

    # ---- stickiness
    for c in sticky:
        run.count(); run.dist("stream.sticky"); run.dist("root." + root_cls(c.expr))
        if c.status:
            run.discard("impl-" + c.status); continue
        run.cov["oracle_evaluations"] += len(c.obs)
        why = revives_by_design(c.expr)
        dev = judge_sticky(c.obs)
        stops = [i for i, o in enumerate(c.obs[1:]) if o == "stop"]
        if stops and stops[0] > 0 and len(c.obs) - 1 - stops[0] >= AFTER:
            run.nontrivial("sticky " + to_source(c.expr))
        elif not stops:
            run.discard("sticky: no StopIteration within %d calls" % REFN)
        if dev is None:
            continue
        if why:
            run.discard("sticky: revives by design"); run.dist("revives." + why.split(" ")[0]); continue
        if dev["observed"].startswith("raise"):
            # an exception after the end is the operands' business if some operand raises on its own
            subs = [Case(n, c.ops, "sub") for n in sub_patterns(c.expr)]
            run_impl(run, subs, shards=2)
            if any(s.status or any(isinstance(o, dict) and "r" in o for o in s.obs) for s in subs):
                run.discard("sticky: operand raises on its own"); continue
        reported[0] += 1
        if reported[0] > 6:
            continue
        bad = lambda s: judge_sticky(s.obs) is not None and not revives_by_design(s.expr)
        small = culprit_of(c, bad)
        d = judge_sticky(small.obs)
        run.violation({"kind": "sticky", "class": root_cls(small.expr), "after": "raise" if d["observed"].startswith("raise") else "value"}, {
            "case": {"expr": to_source(small.expr), "expr_json": to_json(small.expr), "ops": [list(o) for o in small.ops]},
            "expected": "StopIteration on every next() after call %d (the first StopIteration)" % d["first_stop"],
            "observed": "call %d: %s" % (d["index"], d["observed"]), "observed_outputs": small.obs_pretty(),
            "python": replay_snippet(small.expr, small.ops[:d["index"] + 1])})

    # ---- library stream (every class of isobar.pattern, oracle only) + tracks over finite expressions of engine P
    pool, have = [], set()
    for c in sticky:
        if c.status or not c.obs or revives_by_design(c.expr) or judge_sticky(c.obs) is not None:
            continue
        fs = lib_values(c.obs)
        src = to_source(c.expr)
        if fs is None or not (0 < fs[0] <= 30) or src in have:
            continue
        have.add(src); pool.append(c.expr)
    pool = pool[:3000 if thorough else 260]
    model_exprs_by_src.clear()
    model_exprs_by_src.update({to_source(e): e for e in pool})
    check_library(run, pool)

    # ---- pattern graphs with shared sub-pattern objects: copies and helpers (oracle + Pat/Dag.v)
    check_dags(run, gen)
    check_arrayindex_revival(run, gen)
    check_clocked(run)

    # ---- several instances / copies alive together, rewound at different moments
    inst_cases = check_instances(run, gen)
    inst_cases = inst_cases + check_helper_values(run, gen)

    # ---- helpers and copies against repeated next() on a fresh instance
    def judge_script(c):
        r = refs[to_source(c.expr)] if to_source(c.expr) in refs else None
        if r is None or r.status or not r.obs or canon_obs(r.obs[0]) != "value null":
            raise CannotJudge("no reference run")
        want = simulate(r.obs[1:], c.ops, length_max)
        got = c.obs[1:]
        for i, w in enumerate(want):
            if i >= len(got) or canon_obs(got[i]) != canon_obs(w):
                return {"op": i, "opname": c.ops[i][0], "expected": canon_obs(w), "observed": canon_obs(got[i]) if i < len(got) else "nothing"}
        return None
    for c in scripts:
        run.count(); run.dist("stream.script"); run.dist("root." + root_cls(c.expr))
        if c.meta.get("early_end"):
            run.dist("stream.script.inner-pattern-ends-the-outer-early")
        for op in c.ops:
            run.dist("op." + op[0])
        if c.status:
            run.discard("impl-" + c.status); continue
        if len(c.obs) == 1:
            run.discard("script: constructor raised"); continue
        try:
            dev = judge_script(c)
        except CannotJudge as e:
            run.discard("script: " + str(e)); continue
        run.cov["oracle_evaluations"] += len(c.obs)
        if any(o[0] in ("nextn", "all", "len", "for", "copy") for o in c.ops):
            run.nontrivial("script " + to_source(c.expr) + repr(c.ops))
        if dev is None:
            continue
        reported[0] += 1
        if reported[0] > 6:
            continue
        kind = "copy" if any(o[0] == "copy" for o in c.ops[:dev["op"] + 1]) and dev["opname"] == "next" else "helper"
        run.violation({"kind": kind, "op": dev["opname"], "class": root_cls(c.expr)}, {
            "case": {"expr": to_source(c.expr), "expr_json": to_json(c.expr), "ops": [list(o) for o in c.ops]},
            "expected": "operation %d (%s): %s  [from repeated next() on a fresh instance]" % (dev["op"], dev["opname"], dev["expected"]),
            "observed": dev["observed"], "observed_outputs": c.obs_pretty(),
            "reference_next_outputs": refs[to_source(c.expr)].obs_pretty(),
            "python": replay_snippet(c.expr, c.ops[:dev["op"] + 1])})

    # ---- model
    allc = [c for c in sticky + scripts + inst_cases if not (stale and any(isinstance(n, E) and n.cls in stale for _, n in nodes(c.expr)))]
    run_model(run, allc)
    for c in allc:
        if c.verdict == "discard":
            run.discard((c.status or "?").split(":")[0])
        elif c.verdict == "agree":
            run.cov["traces_validated_against_impl"] += 1
    bad = [c for c in allc if c.verdict == "disagree"]
    seen = set()
    for c in bad[:2]:
        small = shrink(run, c, rounds=4)
        sig = {"kind": "correspondence", "class": root_cls(small.expr)}
        if json.dumps(sig) in seen:
            continue
        seen.add(json.dumps(sig))
        run.violation(sig, {
            "broken": "correspondence Pat/Step.v / Pat/Script.v vs the implementation on %s: the theorems of Props/C09.v no longer speak about this code" % root_cls(small.expr),
            "case": {"expr": to_source(small.expr), "expr_json": to_json(small.expr), "ops": [list(o) for o in small.ops]},
            "observed": small.obs_pretty(), "model": model_trace(run, small),
            "python": replay_snippet(small.expr, small.ops)}, found_input=False)
    run.sample({"expr": to_source(scripts[0].expr), "ops": [list(o) for o in scripts[0].ops], "observed": scripts[0].obs_pretty()})
    run.cov["rule"] = ("one case = one expression + one script; non-trivial sticky case = at least one value before the first "
                       "StopIteration and >= %d calls after it; non-trivial script = contains a helper or a copy" % AFTER)


def replay(run, doc):
    case = doc.get("case", {})
    if "clocked" in case:
        c = dict(case["clocked"])
        c.setdefault("timeline", "stub"); c.setdefault("t0", 0); c.setdefault("steps", []); c.setdefault("track", None)
        out = run.impl("c09_impl", {"cases": [{"clocked": {k: c[k] for k in ("src", "inner", "timeline", "t0", "steps", "track")}}]})["cases"][0]
        print("source:   ", c["src"])
        print("clock:     t0 = %d, advances %r (units of 1/%d beat), timeline %s" % (c["t0"], c["steps"], CLK_UNIT, c["timeline"]))
        print("next():   ", [pretty_obs(o) for o in out.get("obs", [])[1:]])
        bad = judge_sticky(out["obs"]) if out.get("obs") else None
        if out.get("track") is not None:
            print("track:    ", out["track"])
            if not out["track"].get("error") and not out["track"]["ended"]:
                bad = bad or {"track": "still on the timeline after %d ticks" % out["track"]["ticks"]}
        if bad:
            print("REPLAY-FAILS:", bad)
            print("VIOLATION property=C09 replay=(replayed)")
            return 1
        print("replay: the property holds on this case")
        return 0
    if case.get("instances"):
        lib_classes(run)
        c = {"cls": "?", "src": case["src"], "finite": True, "script": case["ops"], "track": None, "refn": INST_REFN}
        out = run_lib(run, [c], shards=1)[0]
        print("source:   ", case["src"])
        print("next():   ", [pretty_obs(o) for o in out.get("ref", [])][:40])
        print("script:   ", [pretty_obs(o) for o in out.get("script", [])])
        try:
            want = simulate_rewinds(out["ref"][1:], [tuple(o) for o in case["ops"]])
        except CannotJudge as e:
            print("replay: cannot judge (%s)" % e)
            return 2
        got = out["script"][1:]
        for j, w in enumerate(want):
            if j >= len(got) or canon_obs(got[j]) != canon_obs(w):
                print("REPLAY-FAILS: operation %d %r: expected %s, observed %s" % (j, case["ops"][j], canon_obs(w), canon_obs(got[j]) if j < len(got) else "nothing"))
                print("VIOLATION property=C09 replay=(replayed)")
                return 1
        print("replay: the property holds on this case")
        return 0
    if "src" in case:
        lib_classes(run)
        c = {"cls": doc.get("signature", {}).get("class", "?"), "src": case["src"], "finite": True,
             "script": case.get("ops") if doc.get("signature", {}).get("kind") in ("helper", "copy") else None, "track": case.get("track")}
        out = run_lib(run, [c], shards=1)[0]
        bad, notes = lib_judge(c, out)
        print("source:   ", case["src"])
        print("next():   ", [pretty_obs(o) for o in out.get("ref", [])])
        if "script" in out:
            print("script:   ", [pretty_obs(o) for o in out["script"]])
        if "track" in out:
            print("track:    ", out["track"])
        for sig, d in bad:
            print("REPLAY-FAILS:", sig, d.get("expected"), "/", d.get("observed"))
        if bad:
            print("VIOLATION property=C09 replay=(replayed)")
            return 1
        print("replay: the property holds on this case", notes)
        return 0
    if "expr_json" not in case:
        print("replay: no concrete case recorded (%s)" % doc.get("broken", "?"))
        return 1
    c = Case(from_json(case["expr_json"]), [tuple(o) for o in case["ops"]])
    r = Case(c.expr, [("next", 0)] * REFN, "ref")
    run_impl(run, [c, r], shards=1)
    print("expression:", to_source(c.expr))
    print("observed:  ", c.obs_pretty())
    kind = doc.get("signature", {}).get("kind")
    bad = None
    if kind == "sticky":
        bad = judge_sticky(c.obs)
    else:
        try:
            want = simulate(r.obs[1:], c.ops, None)
            for i, w in enumerate(want):
                if i + 1 >= len(c.obs) or canon_obs(c.obs[i + 1]) != canon_obs(w):
                    bad = {"op": i, "expected": canon_obs(w)}
                    break
        except CannotJudge as e:
            print("replay: cannot judge (%s)" % e)
            return 2
    if bad:
        print("REPLAY-FAILS:", bad)
        print("VIOLATION property=C09 replay=(replayed)")
        return 1
    print("replay: the property holds on this case")
    return 0

"""C07, stratum "several timelines": the same PStaticPattern / PCurrentTime / PGlobals objects (event dictionaries built
once) used by tracks of two or three Timeline objects of one process - one performance after the other on a fresh
timeline, alternately, or returning to the first timeline.  Model: coq/Sched/StaticMulti.v (every read is served with the
position of the READER's timeline); theorems C07_time_of_reader, C07_multi_is_static_program, C07_second_run,
C07_carried_value_held, C07_same_position_same_value.  Driver: harness/impl/c07_impl.py.
Oracle (plain Python, from the property text): PCurrentTime = position of the timeline whose track reads it; all readers of
one timeline on one tick see the same static value; values appear in pattern order; a value set and left on the same
timeline's clock was kept at least its duration and is left at the first read after its end; PGlobals = latest value set."""
from common import *
from fractions import Fraction as F

HEADER = "From Isobar Require Import Base.Prelude Sched.Static Sched.StaticMulti.\n"

TLS_DYADIC = [[4, 4], [4, 8], [8, 4], [16, 4], [4, 16], [4, 8, 4], [8, 8, 16]]
TLS_DECIMAL = [[10, 10], [12, 4], [20, 10]]


def gen_program(rng):
    dyadic = rng.random() < 0.8
    tls = list(rng.choice(TLS_DYADIC if dyadic else TLS_DECIMAL))
    q = F(1, 4) if dyadic else F(1, 2)             # every period / offset is a whole number of ticks on every timeline
    cyclic = rng.random() < 0.8
    nv = rng.randint(2, 6) if cyclic else 450        # never exhausted: at most one change per event, < 400 events
    vals = rng.sample(range(1, 500), nv)
    nd = rng.choice([1, 1, 2, 3])
    if dyadic:
        durs = [F(rng.choice([1, 2, 3, 4, 6, 8, 12, 16, 20, 24, 40]), 16) for _ in range(nd)]
    else:
        durs = [rng.choice([F(1, 10), F(1, 4), F(3, 10), F(1, 2), F(1), F(3, 2), F(7, 10)]) for _ in range(nd)]
    ntr = rng.randint(2, 4)
    tracks = []
    every = list(range(len(tls)))
    for j in range(ntr):
        reads = "static" if j < 2 or rng.random() < 0.6 else "global"
        on = every if (j == 0 or rng.random() < 0.7) else sorted(rng.sample(every, rng.randint(1, len(every))))
        tracks.append({"period": q * rng.choice([1, 1, 2, 3, 4, 5]), "offset": q * rng.choice([0, 0, 1, 2, 3]),
                       "reads": reads, "direct": rng.random() < 0.4, "sets": rng.random() < 0.35,
                       "count": rng.choice([None, None, None, 3, 8]), "on": on})
    if not any(t["sets"] for t in tracks):
        tracks[0]["sets"] = True
    beats = lambda b, k: int(b * tls[k])
    shape = rng.choice(["sequential", "sequential", "alternate", "return", "lockstep"])
    L = [rng.choice([F(2), F(3), F(5), F(6)]) for _ in tls]
    if shape == "sequential":
        phases = [[k, beats(L[k], k)] for k in range(len(tls))]
    elif shape == "return":
        phases = [[0, beats(L[0], 0)], [1, beats(L[1], 1)], [0, beats(L[0], 0)]] + ([[2, beats(L[2], 2)]] if len(tls) > 2 else [])
    elif shape == "alternate":
        phases = []
        for _ in range(rng.randint(3, 6)):
            for k in range(len(tls)):
                phases.append([k, rng.choice([1, 2, 3, tls[k], tls[k] // 2])])
    else:                                            # lockstep: one tick each, in turn
        phases = []
        for _ in range(rng.choice([12, 20, 32])):
            for k in range(len(tls)):
                phases.append([k, 1])
    return {"tls": tls, "dyadic": dyadic, "shape": shape, "shared_time": rng.random() < 0.5,
            "static": {"vals": vals, "cyclic": cyclic, "durs": [[d.numerator, d.denominator] for d in durs]},
            "default": -1, "phases": phases,
            "tracks": [dict(t, period=[t["period"].numerator, t["period"].denominator],
                            offset=[t["offset"].numerator, t["offset"].denominator]) for t in tracks]}


def linear_program(p):
    """what the timelines make the readers do, in order: list of (kind, timeline, tick, track[, value set]) and, for the model,
    the end of every tick as ("tick", timeline)"""
    out = []
    tls = p["tls"]
    ticks = {}
    n = {}
    counters = [0] * len(p["tracks"])
    for k, cnt in p["phases"]:
        ticks.setdefault(k, 0)
        for _ in range(cnt):
            tick = ticks[k]
            for j, t in enumerate(p["tracks"]):
                if k not in t["on"]:
                    continue
                off = F(*t["offset"]) * tls[k]
                per = F(*t["period"]) * tls[k]
                assert off.denominator == 1 and per.denominator == 1 and per > 0
                if tick < off or (tick - off) % per:
                    continue
                if t["count"] is not None and n.get((k, j), 0) >= t["count"]:
                    continue
                out.append(("read" if t["reads"] == "static" else "get", k, tick, j))
                out.append(("time", k, tick, j))
                if t["direct"]:
                    out.append(("direct", k, tick, j))
                if t["sets"]:
                    out.append(("set", k, tick, j, 0 if counters[j] % 3 == 2 else 100 * (j + 1) + counters[j]))
                counters[j] += 1
                n[(k, j)] = n.get((k, j), 0) + 1
            out.append(("tick", k))
            ticks[k] += 1
    return out


def oracle(p, log):
    bad = []
    tls = p["tls"]
    vals = p["static"]["vals"]
    durs = [F(a, b) for a, b in p["static"]["durs"]]
    eps = F(0) if p.get("dyadic") else F(1, 10 ** 9)
    want = [x for x in linear_program(p) if x[0] != "tick"]
    if [tuple(x[:4]) for x in log] != [tuple(x[:4]) for x in want]:
        bad.append(("read-schedule", "the callbacks ran in a different order / on different ticks than scheduled: %r vs %r"
                    % ([tuple(x[:4]) for x in log][:12], [tuple(x[:4]) for x in want][:12])))
        return bad
    # the current-time pattern reports the position of the timeline whose track reads it
    for x in log:
        if x[0] == "time":
            k, tick = x[1], x[2]
            if not isinstance(x[4], (int, float)) or abs(F(x[4]).limit_denominator(10 ** 7) - F(tick, tls[k])) > F(6, 10 ** 6):
                bad.append(("current-time-of-another-timeline" if len(tls) > 1 else "current-time",
                            "timeline %d (of %d) at tick %d = %s beats: PCurrentTime read by its track %d returned %r"
                            % (k, len(tls), tick, F(tick, tls[k]), x[3], x[4])))
                break
    reads = [(x[1], x[2], x[4]) for x in log if x[0] in ("read", "direct")]
    by = {}
    for k, tick, v in reads:
        by.setdefault((k, tick), set()).add(v)
    for (k, tick), vs in sorted(by.items()):
        if len(vs) > 1:
            bad.append(("static-readers-disagree", "timeline %d tick %d: the shared static pattern showed %r to different readers" % (k, tick, sorted(vs))))
            break
    # the relative order of ticks of different timelines matters for the rule above only per timeline; the element rules:
    cur, idx, start = None, -1, None        # start = (timeline, tick) of the read that brought the element
    for k, tick, v in reads:
        d = durs[idx % len(durs)] if idx >= 0 else None
        if v == cur:
            if start[0] == k and F(tick - start[1], tls[k]) >= d + eps:
                bad.append(("static-held-too-long", "timeline %d tick %d: value %r (element %d, brought by a read of the same timeline on tick %d, %s beats) "
                            "is still shown after its end" % (k, tick, v, idx, start[1], d)))
                break
            continue
        nxt = vals[(idx + 1) % len(vals)] if (p["static"]["cyclic"] or idx + 1 < len(vals)) else None
        if v != nxt:
            bad.append(("static-order", "timeline %d tick %d: value %r shown, expected the next element %r" % (k, tick, v, nxt))); break
        if cur is not None and start[0] == k and F(tick - start[1], tls[k]) < d - eps:
            bad.append(("static-changed-early", "timeline %d tick %d: value changed from %r to %r after %s beats of that timeline, its stated duration is %s beats"
                        % (k, tick, cur, v, F(tick - start[1], tls[k]), d)))
            break
        cur, idx, start = v, idx + 1, (k, tick)
    g = p["default"]
    for x in log:
        if x[0] == "set":
            g = x[4]
        elif x[0] == "get" and x[4] != g:
            bad.append(("globals", "timeline %d tick %d: PGlobals returned %r, the latest value set is %r" % (x[1], x[2], x[4], g))); break
    return bad


def program_term(p, log):
    acts, outs = [], []
    it = iter(log)
    for w in linear_program(p):
        if w[0] == "tick":
            acts.append("MTick %s" % natlit(w[1])); outs.append("ONone"); continue
        x = next(it)
        kind, k = x[0], x[1]
        if kind in ("read", "direct"):
            acts.append("MRead %s" % natlit(k)); outs.append("OStop" if x[4] == "stop" else "OVal %s" % zlit(x[4]))
        elif kind == "get":
            acts.append("MGet 0 %s" % zlit(p["default"])); outs.append("OVal %s" % zlit(x[4]))
        elif kind == "set":
            acts.append("MSet 0 %s" % zlit(x[4])); outs.append("ONone")
        elif kind == "time":
            acts.append("MTime %s" % natlit(k)); outs.append("OVal %s" % zlit(int(round(x[4] * 100000))))
    st = p["static"]
    durs = [F(a, b) * 100000 for a, b in st["durs"]]
    assert all(d.denominator == 1 for d in durs)
    return "list_eqb out_eqb (run_multi %s (static0 %s %s %s) [] %s) %s" % (
        lst(["mtl0 %d" % u for u in p["tls"]]), zlist(st["vals"]), blit(st["cyclic"]), zlist([int(d) for d in durs]), lst(acts), lst(outs))


def snippet(p):
    return ("PYTHONPATH=/repo /venv/bin/python /verif/harness/impl/c07_impl.py <<< '{\"programs\": [<program>]}'   # or, by hand:\n"
            "import isobar as iso\n"
            "class Dev(iso.OutputDevice):\n    ticks_per_beat = None\n"
            "T = iso.PCurrentTime(); seen = []\n"
            "ev = {'action': lambda t_: seen.append(t_), 'duration': 0.25, 'args': {'t_': T}}    # built once\n"
            "for tpb in %r:\n"
            "    tl = iso.Timeline(120, output_device=Dev(), clock_source=iso.DummyClock(ticks_per_beat=tpb)); tl.schedule(ev)\n"
            "    for i in range(2 * tpb): tl.tick()\n"
            "    print(seen); seen.clear()     # every run must count from 0.0\n" % (p["tls"],))


def multi_part(run, n):
    rng = run.rng
    progs = [gen_program(rng) for _ in range(n)]
    parts = [progs[i::8] for i in range(8) if progs[i::8]]
    outs = run.impl_parallel("c07_impl", [{"programs": q} for q in parts])
    results = [None] * len(progs)
    for si, out in enumerate(outs):
        for j, r in enumerate(out["results"]):
            results[si + j * 8] = r
    terms, where = [], []
    for pi, (p, r) in enumerate(zip(progs, results)):
        run.count()
        run.dist("multi.programs"); run.dist("multi.shape." + p["shape"]); run.dist("multi.timelines.%d" % len(p["tls"]))
        if len(set(p["tls"])) > 1: run.dist("multi.different-resolutions")
        if p["shared_time"]: run.dist("multi.one-PCurrentTime-object-for-all")
        if "driver_error" in r:
            run.violation({"kind": "driver-error", "site": "static/several-timelines"}, {"part": "multi", "program": p, "observed": r}, found_input=True)
            continue
        log = r["log"]
        bad = oracle(p, log)
        run.cov["oracle_evaluations"] += 1
        run.dist("multi.reads", sum(1 for x in log if x[0] in ("read", "direct")))
        run.dist("multi.time-reads", sum(1 for x in log if x[0] == "time"))
        seen_tl = {}
        for x in log:
            if x[0] in ("read", "direct"):
                seen_tl.setdefault(x[3], set()).add(x[1])
        if any(len(v) >= 2 for v in seen_tl.values()):
            run.dist("multi.programs-with-a-dictionary-read-on-2+-timelines")
            run.nontrivial(json.dumps(p, sort_keys=True))
        run.dist("multi.grid." + ("dyadic" if p["dyadic"] else "decimal"))
        seen = set()
        for kind_, detail in bad:
            if kind_ in seen:
                continue
            seen.add(kind_)
            run.violation({"kind": kind_, "site": "PStaticPattern/PGlobals/PCurrentTime on several timelines"}, {
                "part": "multi", "program": p, "observed": detail, "log_head": log[:40],
                "oracle": "PCurrentTime = position of the reading track's own timeline; readers of one timeline on one tick agree; elements in order, "
                          "kept at least their duration (measured on the clock of the timeline that brought and left them); PGlobals = latest value set",
                "python": snippet(p)})
        if bad:
            continue
        if not p["dyadic"]:
            run.discard("several-timelines program on a decimal grid: float comparison of spans; judged by the oracle only")
            continue
        terms.append(program_term(p, log)); where.append(pi)
        if pi % 80 == 0:
            run.sample({"family": "several timelines", "tls": p["tls"], "shape": p["shape"], "phases": p["phases"][:6], "log_head": log[:6]})
    badi = run.coq_failing(HEADER, terms, chunk=25)
    run.cov["multi_timeline_programs_validated_against_model"] = len(terms) - len(badi)
    run.cov["traces_validated_against_impl"] += len(terms) - len(badi)
    for b in badi[:3]:
        pi = where[b]
        run.violation({"kind": "correspondence", "site": "Sched/StaticMulti.v"}, {
            "part": "multi", "broken": "correspondence Sched/StaticMulti.v <-> isobar PStaticPattern/PGlobals/PCurrentTime read from several timelines "
                                       "(C07_time_of_reader, C07_multi_is_static_program, C07_second_run no longer describe this code)",
            "program": progs[pi], "observed": results[pi]["log"][:60], "python": snippet(progs[pi])}, found_input=False)


def replay_multi(run, doc):
    p = doc["program"]
    r = run.impl("c07_impl", {"programs": [p]})["results"][0]
    bad = oracle(p, r["log"]) if "log" in r else [("driver", r)]
    print("log:", json.dumps(r.get("log", r))[:1500])
    print("replay: oracle verdict:", bad or "ok")
    if not bad and p.get("dyadic"):
        m = run.coq_failing(HEADER, [program_term(p, r["log"])])
        print("model agrees:", not m)
        return 1 if m else 0
    return 1 if bad else 0

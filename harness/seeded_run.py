#!/venv/bin/python
"""developer tool: confirm a seeded change and run the registered check against it.

  harness/seeded_run.py seeded/<name> [--tier quick|thorough] [--no-tests]

seeded/<name>/ holds patch.diff (a change to /repo that breaks property meta["property"] while the repository's
test-suite stays green), demo.py (exits 0 on the unchanged tree, non-zero with the change) and meta.json.
The tool (1) runs demo.py on the clean tree, (2) applies the patch to /repo, (3) runs the repository tests and
demo.py, (4) runs ./check <property>, (5) ALWAYS restores /repo (git checkout -- .), and records what it saw in
meta.json under "ran".  Nothing is ever committed to /repo.

  --scratch   do the same in a throw-away git worktree of /repo's HEAD (under /var/tmp) instead of /repo itself: the
              check is pointed at it with ISOBAR_REPO and writes its evidence to a scratch directory, so several
              seeded changes can be tried at the same time and /repo and evidence/ are never touched."""
import json, os, subprocess, sys, time

VERIF = os.path.dirname(os.path.dirname(os.path.abspath(__file__)))
REPO = "/repo"
PY = "/venv/bin/python"


def sh(cmd, **kw):
    return subprocess.run(cmd, capture_output=True, text=True, **kw)


def main():
    global REPO
    d = os.path.abspath(sys.argv[1])
    scratch = "--scratch" in sys.argv
    if scratch:
        REPO = "/var/tmp/seedrun-%s-%d" % (os.path.basename(d), os.getpid())
        r = sh(["git", "-C", "/repo", "worktree", "add", "-q", "--detach", REPO, "HEAD"])
        if r.returncode != 0:
            print("cannot create scratch worktree:", r.stderr); return 2
    try:
        return run(d, scratch)
    finally:
        if scratch:
            sh(["git", "-C", "/repo", "worktree", "remove", "--force", REPO])


def run(d, scratch):
    tier = "quick"
    if "--tier" in sys.argv:
        tier = sys.argv[sys.argv.index("--tier") + 1]
    meta = json.load(open(os.path.join(d, "meta.json")))
    prop = meta["property"]
    env = dict(os.environ, PYTHONPATH=REPO, PYTHONHASHSEED="0", PYTHONDONTWRITEBYTECODE="1")
    if sh(["git", "-C", REPO, "status", "--porcelain", "--untracked-files=no"]).stdout.strip():
        print("refusing: /repo has uncommitted changes"); return 2
    ran = {"at": time.strftime("%Y-%m-%d %H:%M:%S"), "tier": tier, "scratch_worktree": scratch,
           "repo_head": sh(["git", "-C", REPO, "rev-parse", "--short", "HEAD"]).stdout.strip()}
    demo = os.path.join(d, "demo.py")
    r = sh([PY, demo], env=env, cwd="/tmp", timeout=600)
    ran["demo_clean_rc"] = r.returncode
    ap = sh(["git", "-C", REPO, "apply", os.path.join(d, "patch.diff")])
    if ap.returncode != 0:
        print("patch does not apply:", ap.stderr); return 2
    try:
        if "--no-tests" not in sys.argv:
            t = sh([PY, "-m", "pytest", "-q", "-rf", "-p", "no:cacheprovider", "--deselect",
                    "tests/test_timeline_clock.py::test_timeline_clock_accuracy"], env=env, cwd=REPO, timeout=900)
            tries = 1
            while t.returncode != 0 and tries < 3:
                # the repository's real-clock tests are flaky on a loaded machine: a failure must repeat to count
                failed = sorted(set(l.split()[1] for l in t.stdout.splitlines() if l.startswith("FAILED ")))
                t2 = sh([PY, "-m", "pytest", "-q", "-p", "no:cacheprovider"] + [f.split(" - ")[0] for f in failed], env=env, cwd=REPO, timeout=900) if failed else t
                tries += 1
                if t2.returncode == 0:
                    ran["tests_flaky_rerun_passed"] = failed
                    t = t2
                    break
            ran["tests_with_patch"] = t.stdout.strip().splitlines()[-1] if t.stdout.strip() else "rc %d" % t.returncode
            ran["tests_rc"] = t.returncode
        r = sh([PY, demo], env=env, cwd="/tmp", timeout=600)
        ran["demo_patched_rc"] = r.returncode
        t0 = time.time()
        cenv = dict(os.environ)
        if scratch:
            cenv["ISOBAR_REPO"] = REPO
            cenv["VERIF_EVIDENCE_DIR"] = REPO + ".evidence"
        c = sh([os.path.join(VERIF, "check"), prop, "--tier", tier], cwd=VERIF, timeout=7200, env=cenv)
        if scratch:
            sh(["rm", "-rf", REPO + ".evidence"])
        ran["check_rc"] = c.returncode
        ran["check_wall_s"] = round(time.time() - t0, 1)
        ran["check_lines"] = [l for l in c.stdout.splitlines() if l.startswith(("VIOLATION", "KNOWN-FINDING", prop))][:8]
        reps = [l.split("replay=")[1].split()[0] for l in c.stdout.splitlines() if l.startswith("VIOLATION")]
        ran["violation_kinds"] = []
        for p in reps[:6]:
            try:
                doc = json.load(open(p))
                ran["violation_kinds"].append({"signature": doc.get("signature"), "failing_input_found": doc.get("failing_input_found")})
            except Exception as e:
                ran["violation_kinds"].append({"error": str(e)})
        if c.returncode not in (0, 1):
            ran["check_stderr"] = c.stderr[-1500:]
    finally:
        sh(["git", "-C", REPO, "checkout", "--", "."])
        left = sh(["git", "-C", REPO, "status", "--porcelain", "--untracked-files=no"]).stdout.strip()
        ran["repo_restored"] = (left == "")
    ran["caught"] = ran.get("check_rc") == 1
    meta.setdefault("runs", [])
    meta["ran"] = ran
    json.dump(meta, open(os.path.join(d, "meta.json"), "w"), indent=1)
    print(json.dumps(ran, indent=1))
    ok = ran["demo_clean_rc"] == 0 and ran.get("demo_patched_rc", 0) != 0 and ran.get("tests_rc", 0) == 0
    print("CONFIRMED" if ok else "NOT-CONFIRMED", "CAUGHT" if ran["caught"] else "MISSED")
    return 0


if __name__ == "__main__":
    sys.exit(main())

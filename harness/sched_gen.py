"""Random scenario generation for the scheduler properties.  Scenarios are first built with
fractions.Fraction for every time (beats) and then converted to integer units by `finalize`."""
from fractions import Fraction as F
from math import lcm

TPBS = [1, 7, 10, 24, 96, 100, 480, 960, 1920]
DUR_POOL = [F(1, 10), F(1, 4), F(1, 3), F(5, 7), F(3, 2), F(2), F(3, 8), F(1), F(1, 2), F(2, 3), F(1, 5), F(3, 4)]
GATE_POOL = [(1, 16), (1, 4), (1, 2), (3, 4), (1, 1), (3, 2), (2, 1), (4, 1), (8, 1)]
QD_POOL = [F(0), F(1, 10), F(1, 4), F(1, 3), F(1, 2), F(1), F(4), F(3, 10), F(2, 3)]


def durations_for(rng, tpb, n, on_grid_share=0.4):
    tick = F(1, tpb)
    out = []
    for _ in range(n):
        if rng.random() < on_grid_share:
            out.append(tick * rng.choice([1, 1, 2, 3, 5, tpb, 2 * tpb, max(1, tpb // 2)]))
        else:
            cands = [d for d in DUR_POOL if d >= tick]
            out.append(rng.choice(cands) if cands else tick * rng.randint(1, 3))
    return out


def note_event(rng, dur, pitch, chan, allow_silent=True, chord=None, gates=None):
    """one note / chord / rest event with explicit fields"""
    gates = gates or GATE_POOL
    r = rng.random()
    ev = {"k": "note", "dur": dur}
    if allow_silent and r < 0.08:
        ev.update(note=None, amp=64, gate=[1, 1], chan=chan)          # rest
        return ev
    if allow_silent and r < 0.14:
        ev["active"] = False
    nv = chord if chord is not None else (1 if rng.random() < 0.6 else rng.randint(2, 4))
    notes = [pitch + 3 * i for i in range(nv)]
    if nv == 1 and rng.random() < 0.7:
        ev["note"] = notes[0]
        ev["amp"] = rng.choice([1, 64, 127]) if not (allow_silent and rng.random() < 0.06) else 0
        g = rng.choice(gates)
        ev["gate"] = list(g) if not (allow_silent and rng.random() < 0.05) else rng.choice([[0, 1], None])
        ev["chan"] = chan
        return ev
    ev["note"] = notes
    if rng.random() < 0.5:
        ev["amp"] = [rng.choice([64, 100, 0, None]) if allow_silent and rng.random() < 0.25 else rng.randint(1, 127) for _ in notes]
    else:
        ev["amp"] = rng.choice([30, 64, 127])
    if rng.random() < 0.6:
        ev["gate"] = [rng.choice([[0, 1], None]) if allow_silent and rng.random() < 0.15 else list(rng.choice(gates)) for _ in notes]
    else:
        ev["gate"] = list(rng.choice(gates))
    ev["chan"] = [chan] * nv if rng.random() < 0.3 else chan
    return ev


def stream(items, cyclic=False, form="scripted"):
    return {"items": items, "cyclic": cyclic, "form": form}


def finalize(sc):
    """convert every Fraction (time in beats) to integer units; choose U"""
    fr = []

    def collect(x):
        if isinstance(x, F):
            fr.append(x)
        elif isinstance(x, dict):
            if x.get("k") == "note" and x.get("note") is not None:
                gs = x["gate"]
                gl = gs if (gs is not None and gs and isinstance(gs[0], (list, type(None)))) else [gs]
                for g in gl:
                    if g is not None:
                        fr.append(F(x["dur"]) * F(g[0], g[1]))
            for v in x.values():
                collect(v)
        elif isinstance(x, (list, tuple)):
            for v in x:
                collect(v)
    collect(sc)
    U = sc["tpb"]
    for f in fr:
        U = lcm(U, f.denominator)

    def conv(x):
        if isinstance(x, F):
            v = x * U
            assert v.denominator == 1
            return int(v)
        if isinstance(x, dict):
            return {k: conv(v) for k, v in x.items()}
        if isinstance(x, (list, tuple)):
            return [conv(v) for v in x]
        return x
    out = conv(sc)
    out["U"] = U
    return out


def sched_op(s, q=None, d=None, count=None, rwd=True, name=None, replace=True):
    return ["schedule", s, q, d, count, rwd, name, replace]

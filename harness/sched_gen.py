"""Random scenario generation for the scheduler properties.  Scenarios are first built with
fractions.Fraction for every time (beats) and then converted to integer units by `finalize`."""
from fractions import Fraction as F
from math import lcm

TPBS = [1, 7, 10, 24, 96, 100, 480, 960, 1920]
DUR_POOL = [F(1, 10), F(1, 4), F(1, 3), F(5, 7), F(3, 2), F(2), F(3, 8), F(1), F(1, 2), F(2, 3), F(1, 5), F(3, 4)]
GATE_POOL = [(1, 16), (1, 4), (1, 2), (3, 4), (1, 1), (3, 2), (2, 1), (4, 1), (8, 1)]
QD_POOL = [F(0), F(1, 10), F(1, 4), F(1, 3), F(1, 2), F(1), F(4), F(3, 10), F(2, 3)]


def durations_for(rng, tpb, n, on_grid_share=0.4):
    tick = F(1, tpb)
    out = []
    for _ in range(n):
        if rng.random() < on_grid_share:
            out.append(tick * rng.choice([1, 1, 2, 3, 5, tpb, 2 * tpb, max(1, tpb // 2)]))
        else:
            cands = [d for d in DUR_POOL if d >= tick]
            out.append(rng.choice(cands) if cands else tick * rng.randint(1, 3))
    return out


def note_event(rng, dur, pitch, chan, allow_silent=True, chord=None, gates=None):
    """one note / chord / rest event with explicit fields"""
    gates = gates or GATE_POOL
    r = rng.random()
    ev = {"k": "note", "dur": dur}
    if allow_silent and r < 0.08:
        ev.update(note=None, amp=64, gate=[1, 1], chan=chan)          # rest
        return ev
    if allow_silent and r < 0.14:
        ev["active"] = False
    nv = chord if chord is not None else (1 if rng.random() < 0.6 else rng.randint(2, 4))
    notes = [pitch + 3 * i for i in range(nv)]
    if nv == 1 and rng.random() < 0.7:
        ev["note"] = notes[0]
        ev["amp"] = rng.choice([1, 64, 127]) if not (allow_silent and rng.random() < 0.06) else 0
        g = rng.choice(gates)
        ev["gate"] = list(g) if not (allow_silent and rng.random() < 0.05) else rng.choice([[0, 1], None])
        ev["chan"] = chan
        return ev
    ev["note"] = notes
    if rng.random() < 0.5:
        ev["amp"] = [rng.choice([64, 100, 0, None]) if allow_silent and rng.random() < 0.25 else rng.randint(1, 127) for _ in notes]
    else:
        ev["amp"] = rng.choice([30, 64, 127])
    if rng.random() < 0.6:
        ev["gate"] = [rng.choice([[0, 1], None]) if allow_silent and rng.random() < 0.15 else list(rng.choice(gates)) for _ in notes]
    else:
        ev["gate"] = list(rng.choice(gates))
    ev["chan"] = [chan] * nv if rng.random() < 0.3 else chan
    return ev


def stream(items, cyclic=False, form="scripted"):
    return {"items": items, "cyclic": cyclic, "form": form}


def finalize(sc):
    """convert every Fraction (time in beats) to integer units; choose U"""
    fr = []

    def collect(x):
        if isinstance(x, F):
            fr.append(x)
        elif isinstance(x, dict):
            if x.get("k") == "note" and x.get("note") is not None:
                gs = x["gate"]
                gl = gs if (gs is not None and gs and isinstance(gs[0], (list, type(None)))) else [gs]
                for g in gl:
                    if g is not None:
                        fr.append(F(x["dur"]) * F(g[0], g[1]))
            for v in x.values():
                collect(v)
        elif isinstance(x, (list, tuple)):
            for v in x:
                collect(v)
    collect(sc)
    U = sc["tpb"]
    for f in fr:
        U = lcm(U, f.denominator)

    def conv(x):
        if isinstance(x, F):
            v = x * U
            assert v.denominator == 1
            return int(v)
        if isinstance(x, dict):
            return {k: conv(v) for k, v in x.items()}
        if isinstance(x, (list, tuple)):
            return [conv(v) for v in x]
        return x
    out = conv(sc)
    out["U"] = U
    return out


def sched_op(s, q=None, d=None, count=None, rwd=True, name=None, replace=True):
    return ["schedule", s, q, d, count, rwd, name, replace]


# ---- lifecycle histories (C02 C06 C07 C17) -----------------------------------------------------------
class Pitches:
    """hands out (note, channel) keys unique within a scenario and remembers what each voice should do"""
    def __init__(self):
        self.next = 1
        self.voices = {}          # (note, chan) -> {"glen": Fraction beats or None, "on": bool, "track": tag}

    def take(self, n):
        if self.next + n > 127:
            return None
        base = self.next
        self.next += n
        return base


def lifecycle_stream(rng, tpb, pit, chan, opts, n_callbacks):
    """a stream of 1..5 events for the track tagged [chan]"""
    tick = F(1, tpb)
    n = rng.randint(1, 5)
    durs = durations_for(rng, tpb, n, on_grid_share=0.6)
    items = []
    gates = opts.get("gates", GATE_POOL)
    for d in durs:
        r = rng.random()
        if opts.get("faults") and r < 0.10:
            items.append({"k": rng.choice(["raise_eval", "raise_ctor"])})
            continue
        if opts.get("callbacks") and n_callbacks and r < 0.22:
            items.append({"k": "action", "cb": rng.randrange(n_callbacks), "dur": d})
            continue
        if opts.get("controls") and r < 0.30:
            items.append({"k": rng.choice(["control", "program"]), "dur": d, "ctl": rng.randint(0, 119), "val": rng.randint(0, 127),
                          "prog": rng.randint(0, 127), "chan": chan})
            continue
        nv = 1 if rng.random() < 0.6 else rng.randint(2, 4)
        base = pit.take(nv)
        if base is None:
            break
        ev = note_event(rng, d, base, chan, allow_silent=opts.get("silent", True), chord=nv, gates=gates)
        # make pitches consecutive (note_event spaces them by 3)
        if isinstance(ev["note"], list):
            ev["note"] = [base + i for i in range(len(ev["note"]))]
        elif ev["note"] is not None:
            ev["note"] = base
        items.append(ev)
        # record what each voice must do
        if ev["note"] is not None:
            notes = ev["note"] if isinstance(ev["note"], list) else [ev["note"]]
            for i, nt in enumerate(notes):
                amp = ev["amp"][i] if isinstance(ev["amp"], list) else ev["amp"]
                ch = ev["chan"][i] if isinstance(ev["chan"], list) else ev["chan"]
                g = ev["gate"]
                if g is not None and (g == [] or isinstance(g[0], (list, type(None)))):
                    g = g[i]
                on = bool(ev.get("active", True)) and amp is not None and amp > 0 and g is not None and g[0] > 0
                pit.voices[(nt, ch)] = {"glen": (F(d) * F(g[0], g[1])) if g is not None else None, "on": on, "vel": amp, "track": chan}
    if not items:
        items = [{"k": "note", "dur": tick * tpb, "note": None, "amp": 64, "gate": [1, 1], "chan": chan}]
    cyclic = rng.random() < opts.get("cyclic_share", 0.35)
    form = "scripted" if any(i["k"].startswith("raise") for i in items) else rng.choice(["scripted", "psequence", "psequence", "pdict"])
    return stream(items, cyclic, form)


def gen_lifecycle(rng, opts):
    tpb = rng.choice(opts.get("tpbs", [1, 7, 10, 24, 96, 480]))
    tick = F(1, tpb)
    pit = Pitches()
    ncb = rng.randint(1, 2) if opts.get("callbacks") else 0
    cfg = {"stop_when_done": rng.random() < opts.get("swd_share", 0.5)}
    if opts.get("faults"):
        cfg["ignore"] = rng.random() < opts.get("ignore_share", 0.7)
    if opts.get("max_tracks"):
        cfg["max_tracks"] = rng.choice([0, 0, 1, 2, 3])
    if opts.get("dev_faults") and rng.random() < 0.4:
        cfg["dev_fail"] = rng.randint(0, 12)
    ntracks = rng.randint(1, opts.get("max_n_tracks", 4))
    budget = opts.get("budget", 600)
    ops = []
    created = 0
    chan = 0

    def qd():
        return (rng.choice([None, None, F(0)] + QD_POOL[:6]) if opts.get("quantize") else None,
                rng.choice([None, None, F(0)] + QD_POOL[:6]) if opts.get("quantize") else None)

    def new_sched(name_pool, ncb_allowed=None):
        nonlocal created, chan
        s = lifecycle_stream(rng, tpb, pit, chan % 16, opts, ncb if ncb_allowed is None else ncb_allowed)
        chan += 1
        q, d = qd()
        count = rng.choice([None, None, 0, 1, 2, 5]) if opts.get("counts") else None
        rwd = True if not opts.get("rwd") else rng.random() < 0.7
        name = rng.choice(name_pool) if (opts.get("names") and rng.random() < 0.5) else None
        created += 1
        return sched_op(s, q, d, count, rwd, name, rng.random() < 0.85)

    callbacks = []
    for cbi in range(ncb):
        cops = []
        for _ in range(rng.randint(0, 2)):
            r = rng.random()
            if r < 0.5:
                # streams scheduled by callback i may only call callbacks < i (no recursion), and the number of
                # tracks is capped, so that a cyclic stream calling a scheduling callback cannot grow without bound
                cops.append(new_sched([0, 1], cbi))
                if not cfg.get("max_tracks"):
                    cfg["max_tracks"] = rng.choice([3, 4, 6])
            elif r < 0.8:
                s = lifecycle_stream(rng, tpb, pit, chan % 16, opts, 0); chan += 1
                q, d = qd()
                cops.append(["update", rng.randrange(4), s, q, d, None])
            else:
                cops.append([rng.choice(["mute", "unmute"]), rng.randrange(4)])
        callbacks.append({"raise": rng.choice(["none", "none", "exc", "stop"]) if opts.get("cb_raise") else "none", "ops": cops})
    for _ in range(ntracks if rng.random() < 0.7 else 1):
        ops.append(new_sched([0, 1, 2]))
    used = 0
    nsteps = rng.randint(2, 7)
    for _ in range(nsteps):
        n = min(budget - used, rng.choice([1, 2, 3, tpb // 2 + 1, tpb, 2 * tpb, 3 * tpb + 1, rng.randint(1, 4 * tpb)]))
        if n <= 0:
            break
        ops.append(["tick", n]); used += n
        r = rng.random()
        kinds = opts.get("ops", ["update", "mute", "unmute", "unschedule", "clear", "schedule", "nudge"])
        k = rng.choice(kinds)
        t = rng.randrange(max(1, created))
        if k == "update":
            s = lifecycle_stream(rng, tpb, pit, chan % 16, opts, ncb); chan += 1
            q, d = qd()
            ops.append(["update", t, s, q, d, rng.choice([None, None, 1, 3]) if opts.get("counts") else None])
        elif k in ("mute", "unmute", "unschedule"):
            ops.append([k, t])
        elif k == "clear":
            if rng.random() < 0.4:
                ops.append(["clear"])
        elif k == "schedule":
            ops.append(new_sched([0, 1, 2]))
        elif k == "nudge":
            ops.append(["nudge", t, tick * rng.choice([0, 1, 2, 5])])
    # let everything that is still sounding end
    longest = max([v["glen"] for v in pit.voices.values() if v["glen"] is not None] + [F(1)])
    tail = int(longest / tick) + 3 * tpb + 5
    ops.append(["tick", min(tail, 9000)])
    sc = {"tpb": tpb, "config": cfg, "callbacks": callbacks, "ops": ops}
    return sc, pit

"""Shared core of the source translators gen_tables_mult.py / gen_tables_tonal.py / gen_tables_sched.py / gen_tables_notation.py
(docs/TRANSLATOR2.md): a small symbolic executor that renders the BODY of a pure Python function, read from the source
text with `ast`, as a Gallina term.  Fail-closed: every node that is not listed here raises Reject (the generator exits 3
and the check reports a broken proof obligation).

Values are (kind, coq term).  Kinds of the core:
  int      Python int                    Z
  bool     Python bool                   bool
  optint   None or an int                option Z
  none     the literal None
  intlist  list of ints                  list Z
Generators add their own kinds (exact fractions, characters ...) through the hooks `special_expr`, `special_stmt`.

Statement forms (Block.run):
  docstring                              skipped
  x = e, x op= e (+ - * // %)            let x := e in ...             (Python names are kept; shadowing = re-assignment)
  a, b = divmod(x, y)                    let '(a, b) := (x / y, x mod y) in ...
  if c: A else: B ; rest                 if c then [A; rest] else [B; rest]     (the continuation is translated under each branch)
       c may contain `x is None`, `x is not None`, truthiness of an optional int, and/or of those: they become `match`es
  return e                               hook `on_return`
  raise E(...)                           hook `on_raise`
  while c: body (straight-line body)     match while_fuel (fun st => c) (fun st => body) fuel st0 with None => <out of fuel> | Some st => rest end
                                         st = the names assigned in the body, in order of first assignment (Base/PyLoop.v)
  for x in <intlist>: body               let st := fold_left (fun st x => body) l st0 in rest          (no break/continue/else)
Expression forms (Block.ex): names, int literals, True/False/None, + - * // % unary -, abs, len(list), min/max of two ints,
  comparisons == != < <= > >= between ints (one operator), and/or/not on bools, l[i], l[-k], l1 + l2, [e1, ..., en],
  x in <intlist>, [e for x in <intlist>].
Partial operations (// and % by zero, an index out of range) are translated by their total Coq counterpart AND recorded:
`Block.run(..., mode="defined")` renders the same walk as a bool that is true iff no partial operation of the executed
path fails, so that the <Model>Src.v file can prove it under the hypotheses of the theorems.
"""
import ast, os, re, sys


class Reject(Exception):
    pass


class NeedInt(Exception):
    """an optional int (a plain name) is an operand of an int operation: the statement is re-translated under a match"""


COQ_KEYWORDS = set("""as at cofix else end exists exists2 fix for forall fun if IF in let match mod return Set Prop SProp Type then
using where with by struct true false None Some nil cons fst snd negb andb orb Z nat bool list option fold_left map existsb hd last
nth length app fuel while_fuel pair O S xH xI xO Zpos Zneg Z0""".split())


def repo_root():
    return os.environ.get("PYTHONPATH", "/repo").split(":")[0]


def load(relpath):
    return ast.parse(open(os.path.join(repo_root(), relpath)).read())


def top_function(tree, name):
    tops = [n for n in tree.body if isinstance(n, ast.FunctionDef) and n.name == name]
    every = [n for n in ast.walk(tree) if isinstance(n, (ast.FunctionDef, ast.AsyncFunctionDef, ast.ClassDef)) and n.name == name]
    if len(tops) != 1 or len(every) != 1:
        raise Reject("%d definitions of %s" % (len(every), name))
    if tops[0].decorator_list:
        raise Reject(name + ": decorated")
    return tops[0]


def find_class(tree, name):
    out = [n for n in tree.body if isinstance(n, ast.ClassDef) and n.name == name]
    if len(out) != 1:
        raise Reject("%d classes named %s" % (len(out), name))
    return out[0]


def method(cls, name, decorators=()):
    out = [n for n in cls.body if isinstance(n, ast.FunctionDef) and n.name == name]
    if len(out) != 1:
        raise Reject("%s.%s: %d definitions" % (cls.name, name, len(out)))
    decs = tuple(ast.unparse(d) for d in out[0].decorator_list)
    if decs != tuple(decorators):
        raise Reject("%s.%s: decorators %r" % (cls.name, name, decs))
    return out[0]


def plain_args(fn, n):
    a = fn.args
    if len(a.args) != n or a.posonlyargs or a.kwonlyargs or a.vararg or a.kwarg or a.defaults or a.kw_defaults:
        raise Reject("%s: unexpected signature" % fn.name)
    return [x.arg for x in a.args]


def body_of(fn):
    b = list(fn.body)
    if b and isinstance(b[0], ast.Expr) and isinstance(b[0].value, ast.Constant) and isinstance(b[0].value.value, str):
        b = b[1:]
    return b


def lines_of(fn):
    return "%d-%d" % (fn.lineno, fn.end_lineno)


def write_if_changed(out_path, text, tag):
    old = open(out_path).read() if os.path.exists(out_path) else None
    if old != text:
        tmp = out_path + ".tmp%d" % os.getpid()
        with open(tmp, "w") as f:
            f.write(text)
        os.replace(tmp, out_path)
        print(tag + ": rewritten")
    else:
        print(tag + ": unchanged")


def main_wrap(name, main):
    try:
        main(sys.argv[1])
    except Exception as e:
        sys.stderr.write("%s: FAILED: %r\n" % (name, e))
        sys.exit(3)


def assigned_names(stmts, extra=None):
    """names assigned by a straight-line/if statement list, in order of first assignment
    (extra: hook of a generator for its own statement forms: statement -> list of names, or None)"""
    out = []

    def add(t):
        if isinstance(t, ast.Name):
            if t.id not in out:
                out.append(t.id)
        elif isinstance(t, ast.Tuple):
            for e in t.elts:
                add(e)
        else:
            raise Reject("assignment target not understood: " + ast.unparse(t))
    for st in stmts:
        more = extra(st) if extra is not None else None
        if more is not None:
            for n in more:
                if n not in out:
                    out.append(n)
        elif isinstance(st, ast.Assign):
            for t in st.targets:
                add(t)
        elif isinstance(st, ast.AugAssign):
            add(st.target)
        elif isinstance(st, ast.If):
            for n in assigned_names(st.body, extra) + assigned_names(st.orelse, extra):
                if n not in out:
                    out.append(n)
        elif isinstance(st, ast.Expr) and isinstance(st.value, ast.Constant) and isinstance(st.value.value, str):
            pass
        else:
            raise Reject("statement not allowed inside a loop body: " + ast.unparse(st).splitlines()[0])
    return out


def conj(gs):
    gs = [g for g in gs if g != "true"]
    if not gs:
        return "true"
    return "(" + " && ".join(gs) + ")" if len(gs) > 1 else gs[0]


class Block:
    """symbolic executor of one function body.  env: python name -> (kind, coq term)."""
    ARITH = {ast.Add: "+", ast.Sub: "-", ast.Mult: "*", ast.FloorDiv: "/", ast.Mod: "mod"}
    CMP = {ast.Eq: "=?", ast.Lt: "<?", ast.LtE: "<=?", ast.Gt: ">?", ast.GtE: ">=?"}

    def __init__(self, fn, reserved=()):
        self.fn = fn
        # (annotations of the signature are not part of the body: `string: str` does not make `str` a local name)
        self.names = {n.id for st in fn.body for n in ast.walk(st) if isinstance(n, ast.Name)} | {a.arg for a in fn.args.args}
        bad = sorted(n for n in self.names if n in COQ_KEYWORDS or n in reserved or not re.fullmatch(r"[A-Za-z_][A-Za-z0-9_]*", n))
        if bad:
            raise Reject("%s: names that clash with the Coq side: %s" % (fn.name, bad))
        self.guards = []          # partial operations met while translating the current expression
        self.guard_count = 0      # guards rendered so far in "defined" mode
        self.mode = "value"
        for n in ast.walk(fn):    # a return/raise ends its statement list (the executor drops whatever would follow it)
            for field in ("body", "orelse", "finalbody"):
                sts = getattr(n, field, None)
                if isinstance(sts, list) and any(isinstance(x, (ast.Return, ast.Raise)) for x in sts[:-1]):
                    raise Reject("%s: statements after a return/raise" % fn.name)

    # ---- hooks ----------------------------------------------------------------------------------------------------------
    def special_expr(self, n, env):
        return None

    def special_stmt(self, st, rest, env, k):
        return None

    def special_assigned(self, st):
        """names a statement form of the generator assigns (for the state of loops); None = not a special form"""
        return None

    def on_return(self, value, env):
        raise Reject("return is not expected here")

    def on_raise(self, st, env):
        raise Reject("raise is not expected here")

    def out_of_fuel(self):
        raise Reject("a while loop is not expected here")

    # ---- expressions ----------------------------------------------------------------------------------------------------
    def ex(self, n, env):
        v = self.special_expr(n, env)
        if v is not None:
            return v
        if isinstance(n, ast.Name):
            if n.id not in env:
                raise Reject("unknown name " + n.id)
            return env[n.id]
        if isinstance(n, ast.Constant):
            if n.value is None:
                return ("none", "None")
            if n.value is True or n.value is False:
                return ("bool", "true" if n.value else "false")
            if type(n.value) is int and abs(n.value) < 2 ** 31:
                return ("int", "%d" % n.value if n.value >= 0 else "(%d)" % n.value)
            raise Reject("constant not understood: " + ast.unparse(n))
        if isinstance(n, ast.UnaryOp) and isinstance(n.op, ast.USub):
            if isinstance(n.operand, ast.Constant) and type(n.operand.value) is int and abs(n.operand.value) < 2 ** 31:
                return ("int", "(-%d)" % n.operand.value)
            a = self.ex(n.operand, env)
            if a[0] == "int":
                return ("int", "(- %s)" % a[1])
        if isinstance(n, ast.UnaryOp) and isinstance(n.op, ast.Not):
            a = self.ex(n.operand, env)
            if a[0] == "bool":
                return ("bool", "(negb %s)" % a[1])
        if isinstance(n, ast.BinOp) and type(n.op) in self.ARITH:
            a, b = self.ex(n.left, env), self.ex(n.right, env)
            for side, v in ((n.left, a), (n.right, b)):
                if v[0] == "optint" and isinstance(side, ast.Name):
                    raise NeedInt(side.id)
            if a[0] == "int" and b[0] == "int":
                if type(n.op) in (ast.FloorDiv, ast.Mod):
                    self.guards.append("negb (%s =? 0)" % b[1])
                return ("int", "(%s %s %s)" % (a[1], self.ARITH[type(n.op)], b[1]))
            if a[0] == "intlist" and b[0] == "intlist" and type(n.op) is ast.Add:
                return ("intlist", "(%s ++ %s)" % (a[1], b[1]))
        if isinstance(n, ast.List):
            vs = [self.ex(e, env) for e in n.elts]
            if all(v[0] == "int" for v in vs):
                return ("intlist", "[" + "; ".join(v[1] for v in vs) + "]")
        if isinstance(n, ast.Subscript) and not isinstance(n.slice, ast.Slice):
            l = self.ex(n.value, env)
            if l[0] == "intlist":
                ln = "Z.of_nat (List.length %s)" % l[1]
                if isinstance(n.slice, ast.UnaryOp) and isinstance(n.slice.op, ast.USub) and isinstance(n.slice.operand, ast.Constant) \
                        and type(n.slice.operand.value) is int and 0 < n.slice.operand.value < 2 ** 31:
                    k = n.slice.operand.value          # l[-k] is l[len(l) - k]
                    self.guards.append("(%d <=? %s)" % (k, ln))
                    return ("int", "(znth %s (%s - %d))" % (l[1], ln, k))
                i = self.ex(n.slice, env)
                if i[0] == "int":
                    # Python also accepts -len <= i < 0; such an index is not translated (the guard excludes it)
                    self.guards.append("((0 <=? %s) && (%s <? %s))" % (i[1], i[1], ln))
                    return ("int", "(znth %s %s)" % (l[1], i[1]))
        if isinstance(n, ast.Call) and isinstance(n.func, ast.Name) and not n.keywords:
            f, args = n.func.id, [self.ex(a, env) for a in n.args]
            kinds = [a[0] for a in args]
            if f == "abs" and kinds == ["int"]:
                return ("int", "(Z.abs %s)" % args[0][1])
            if f == "len" and kinds == ["intlist"]:
                return ("int", "(Z.of_nat (List.length %s))" % args[0][1])
            if f in ("min", "max") and kinds == ["int", "int"]:
                return ("int", "(Z.%s %s %s)" % (f, args[0][1], args[1][1]))
        if isinstance(n, ast.Compare) and len(n.ops) == 1:
            op, a, b = type(n.ops[0]), self.ex(n.left, env), self.ex(n.comparators[0], env)
            if a[0] == "int" and b[0] == "int":
                if op in self.CMP:
                    return ("bool", "(%s %s %s)" % (a[1], self.CMP[op], b[1]))
                if op is ast.NotEq:
                    return ("bool", "(negb (%s =? %s))" % (a[1], b[1]))
            if a[0] == "int" and b[0] == "intlist" and op in (ast.In, ast.NotIn):
                t = "(existsb (Z.eqb %s) %s)" % (a[1], b[1])
                return ("bool", t if op is ast.In else "(negb %s)" % t)
        if isinstance(n, ast.BoolOp):
            # short circuit: a partial operation of a later operand is only evaluated when the earlier ones let it
            terms, g_all = [], []
            for i, v in enumerate(n.values):
                saved, self.guards = self.guards, []
                a = self.ex(v, env)
                g, self.guards = conj(self.guards), saved
                if a[0] != "bool":
                    raise Reject("and/or of a non-bool: " + ast.unparse(v))
                if g != "true":
                    if terms:
                        sofar = "(" + (" && " if isinstance(n.op, ast.And) else " || ").join(terms) + ")"
                        g = "(if %s then %s else true)" % (sofar, g) if isinstance(n.op, ast.And) else "(if %s then true else %s)" % (sofar, g)
                    g_all.append(g)
                terms.append(a[1])
            self.guards += g_all
            return ("bool", "(" + (" && " if isinstance(n.op, ast.And) else " || ").join(terms) + ")")
        if isinstance(n, ast.ListComp) and len(n.generators) == 1:
            g = n.generators[0]
            if isinstance(g.target, ast.Name) and not g.ifs and not g.is_async:
                l = self.ex(g.iter, env)
                if l[0] == "intlist":
                    env2 = dict(env)
                    env2[g.target.id] = ("int", g.target.id)
                    saved, self.guards = self.guards, []
                    e = self.ex(n.elt, env2)
                    inner, self.guards = conj(self.guards), saved
                    if inner != "true":
                        self.guards.append("(forallb (fun %s => %s) %s)" % (g.target.id, inner, l[1]))
                    if e[0] == "int":
                        return ("intlist", "(map (fun %s => %s) %s)" % (g.target.id, e[1], l[1]))
        raise Reject("expression not understood: " + ast.unparse(n))

    def ex_g(self, n, env):
        """-> value, guard term of the partial operations of this expression"""
        self.guards = []
        v = self.ex(n, env)
        g, self.guards = conj(self.guards), []
        return v, g

    # ---- the two renderings of a statement: its value and its definedness ---------------------------------------------------
    def seq(self, g, term):
        """definedness rendering: the guard of this statement, then the rest"""
        if self.mode != "defined" or g == "true":
            return term
        self.guard_count += 1
        return "(%s && (%s))" % (g, term)

    def fresh(self, base):
        i = 0
        while True:
            c = base + "'" * (i + 1)
            i += 1
            if c not in self.used_fresh:
                self.used_fresh.add(c)
                return c

    # ---- conditions that fork ------------------------------------------------------------------------------------------------
    def fork(self, test, env, kt, kf):
        """term of `if test: kt(env') else: kf(env')`"""
        if isinstance(test, ast.BoolOp):
            try:                                  # a plain boolean expression needs no fork
                c, g = self.ex_g(test, env)
                if c[0] == "bool":
                    return self.seq(g, "if %s then %s else %s" % (c[1], kt(env), kf(env)))
            except (Reject, NeedInt):
                self.guards = []
        if isinstance(test, ast.BoolOp):
            first, more = test.values[0], test.values[1:]
            rest = more[0] if len(more) == 1 else ast.BoolOp(op=test.op, values=more)
            if isinstance(test.op, ast.And):
                return self.fork(first, env, lambda e: self.fork(rest, e, kt, kf), kf)
            return self.fork(first, env, kt, lambda e: self.fork(rest, e, kt, kf))
        if isinstance(test, ast.UnaryOp) and isinstance(test.op, ast.Not):
            return self.fork(test.operand, env, kf, kt)
        if isinstance(test, ast.Compare) and len(test.ops) == 1 and type(test.ops[0]) in (ast.Is, ast.IsNot) \
                and isinstance(test.left, ast.Name) and isinstance(test.comparators[0], ast.Constant) and test.comparators[0].value is None:
            v = env.get(test.left.id)
            if v is None:
                raise Reject("unknown name " + test.left.id)
            k_none, k_some = (kt, kf) if isinstance(test.ops[0], ast.Is) else (kf, kt)
            if v[0] == "optint":
                x = self.fresh(test.left.id)
                e_none, e_some = dict(env), dict(env)
                e_none[test.left.id] = ("none", "None")
                e_some[test.left.id] = ("int", x)
                return "match %s with\n  | None => %s\n  | Some %s => %s\n  end" % (v[1], k_none(e_none), x, k_some(e_some))
            if v[0] == "none":
                return k_none(env)
            if v[0] == "int":
                return k_some(env)
            raise Reject("`is None` on a %s" % v[0])
        if isinstance(test, ast.Name) and env.get(test.id, ("?",))[0] == "optint":
            # truthiness of an optional int: not None and not 0
            v = env[test.id]
            x = self.fresh(test.id)
            e_some = dict(env)
            e_some[test.id] = ("int", x)
            return "match %s with\n  | None => %s\n  | Some %s => if negb (%s =? 0) then %s else %s\n  end" % (
                v[1], kf(env), x, x, kt(e_some), kf(env))
        c, g = self.ex_g(test, env)
        if c[0] != "bool":
            raise Reject("condition is not a bool: " + ast.unparse(test))
        return self.seq(g, "if %s then %s else %s" % (c[1], kt(env), kf(env)))

    # ---- statements ----------------------------------------------------------------------------------------------------------
    def run(self, stmts, env, k, mode="value"):
        """k(env) renders what happens when control falls off the end of `stmts`"""
        self.mode = mode
        self.used_fresh = set()
        return self.block(list(stmts), env, k, 0)

    def block(self, stmts, env, k, depth):
        if depth > 40:
            raise Reject("too deeply nested")
        if not stmts:
            return k(env)
        try:
            return self.block1(stmts, env, k, depth)
        except NeedInt as need:
            # an optional int is used where an int is required: Python raises TypeError when it is None
            name = need.args[0]
            v = env[name]
            x = self.fresh(name)
            e_some = dict(env)
            e_some[name] = ("int", x)
            return "match %s with\n  | None => %s\n  | Some %s => %s\n  end" % (
                v[1], self.on_type_error(stmts[0], env) if self.mode == "value" else self.undefined(), x, self.block(stmts, e_some, k, depth + 1))

    def undefined(self):
        self.guard_count += 1
        return "false"

    def on_type_error(self, st, env):
        raise Reject("an optional int is used as an int: " + ast.unparse(st).splitlines()[0])

    def block1(self, stmts, env, k, depth):
        st, rest = stmts[0], stmts[1:]
        go = lambda e: self.block(rest, e, k, depth + 1)
        t = self.special_stmt(st, rest, env, go)
        if t is not None:
            return t
        if isinstance(st, ast.Expr) and isinstance(st.value, ast.Constant) and isinstance(st.value.value, str):
            return go(env)
        if isinstance(st, ast.Pass):
            return go(env)
        if isinstance(st, ast.Assign) and len(st.targets) == 1 and isinstance(st.targets[0], ast.Name):
            v, g = self.ex_g(st.value, env)
            return self.bind(st.targets[0].id, v, g, env, go)
        if isinstance(st, ast.AugAssign) and isinstance(st.target, ast.Name) and type(st.op) in self.ARITH:
            v, g = self.ex_g(ast.BinOp(left=ast.Name(id=st.target.id, ctx=ast.Load()), op=st.op, right=st.value), env)
            return self.bind(st.target.id, v, g, env, go)
        if isinstance(st, ast.Assign) and len(st.targets) == 1 and isinstance(st.targets[0], ast.Tuple) \
                and len(st.targets[0].elts) == 2 and all(isinstance(e, ast.Name) for e in st.targets[0].elts) \
                and isinstance(st.value, ast.Call) and isinstance(st.value.func, ast.Name) and st.value.func.id == "divmod" \
                and len(st.value.args) == 2 and not st.value.keywords:
            (a, ga), (b, gb) = self.ex_g(st.value.args[0], env), self.ex_g(st.value.args[1], env)
            if a[0] != "int" or b[0] != "int":
                raise Reject("divmod of non-ints")
            q, r = [e.id for e in st.targets[0].elts]
            if q == r:
                raise Reject("divmod assigned to one name twice")
            e2 = dict(env)
            e2[q], e2[r] = ("int", q), ("int", r)
            g = conj([ga, gb, "negb (%s =? 0)" % b[1]])
            return self.seq(g, "let '(%s, %s) := (%s / %s, %s mod %s) in\n  %s" % (q, r, a[1], b[1], a[1], b[1], go(e2)))
        if isinstance(st, ast.If):
            return "(" + self.fork(st.test, env,
                                   lambda e: self.block(st.body + rest, e, k, depth + 1),
                                   lambda e: self.block(st.orelse + rest, e, k, depth + 1)) + ")"
        if isinstance(st, ast.Return):
            if st.value is None:
                return self.on_return(("none", "None"), env) if self.mode == "value" else "true"
            v, g = self.ex_g(st.value, env)
            return self.on_return(v, env) if self.mode == "value" else g
        if isinstance(st, ast.Raise):
            return self.on_raise(st, env) if self.mode == "value" else "true"
        if isinstance(st, ast.While) and not st.orelse:
            return self.while_loop(st, env, go)
        if isinstance(st, ast.For) and not st.orelse and isinstance(st.target, ast.Name):
            return self.for_loop(st, env, go)
        raise Reject("statement not understood: " + ast.unparse(st).splitlines()[0])

    def bind(self, name, v, g, env, go):
        e2 = dict(env)
        if v[0] == "none":
            e2[name] = v                      # a literal None needs no binder (its Coq type is not known yet)
            return self.seq(g, go(e2))
        e2[name] = (v[0], name)
        return self.seq(g, "let %s := %s in\n  %s" % (name, v[1], go(e2)))

    # ---- loops -----------------------------------------------------------------------------------------------------------
    JOIN = {("none", "int"): "optint", ("int", "none"): "optint", ("optint", "int"): "optint", ("int", "optint"): "optint",
            ("none", "optint"): "optint", ("optint", "none"): "optint"}

    def state_pattern(self, names):
        return names[0] if len(names) == 1 else "'(" + ", ".join(names) + ")"

    def coerce(self, v, kind):
        if v[0] == kind:
            return v[1]
        if kind == "optint" and v[0] == "int":
            return "(Some %s)" % v[1]
        if kind == "optint" and v[0] == "none":
            return "None"
        c = self.special_coerce(v, kind)
        if c is None:
            raise Reject("a %s where a %s is expected" % (v[0], kind))
        return c

    def special_coerce(self, v, kind):
        return None

    def special_join(self, a, b):
        return None

    def state_tuple(self, names, env, kinds):
        vs = [self.coerce(env[n], kinds[n]) for n in names]
        return vs[0] if len(vs) == 1 else "(" + ", ".join(vs) + ")"

    def loop_parts(self, body, env, bound=()):
        """-> state names, their kinds (joined over entry and every path through the body), loop-local names,
        the environment inside the loop"""
        names = assigned_names(body, self.special_assigned)
        state = [n for n in names if n in env]
        local = [n for n in names if n not in env]
        if not state:
            raise Reject("loop without state")
        kinds = {n: env[n][0] for n in state}
        for _ in range(4):
            inner = dict(env)
            for n in state:
                inner[n] = (kinds[n], n)
            for n, kd in bound:
                inner[n] = (kd, n)
            seen = []
            saved_mode, self.mode, saved_fresh = self.mode, "value", set(self.used_fresh)
            self.block(list(body), inner, lambda e: seen.append({n: e[n][0] for n in state}) or "_", 0)
            self.mode, self.used_fresh = saved_mode, saved_fresh
            new = dict(kinds)
            for s in seen:
                for n in state:
                    if s[n] != new[n]:
                        j = self.JOIN.get((new[n], s[n])) or self.special_join(new[n], s[n])
                        if j is None:
                            raise Reject("loop body changes the kind of %s: %s -> %s" % (n, new[n], s[n]))
                        new[n] = j
            if new == kinds:
                return state, kinds, local, inner
            kinds = new
        raise Reject("the kinds of the loop state do not settle")

    def body_terms(self, body, inner, state, kinds):
        saved_mode = self.mode
        self.mode = "value"
        value = self.block(list(body), inner, lambda e: self.state_tuple(state, e, kinds), 0)
        self.mode = "defined"
        saved_count, self.guard_count = self.guard_count, 0
        defined = self.block(list(body), inner, lambda e: "true", 0)
        self.mode = saved_mode
        n_guards, self.guard_count = self.guard_count, saved_count
        if n_guards:
            raise Reject("partial operation inside a loop body (not supported): " + defined)
        return value

    def while_loop(self, st, env, go):
        state, kinds, local, inner = self.loop_parts(st.body, env)
        c, gc = self.ex_g(st.test, inner)
        if c[0] != "bool":
            raise Reject("while test is not a bool")
        if gc != "true":
            raise Reject("partial operation in a while test (not supported): " + gc)
        body = self.body_terms(st.body, inner, state, kinds)
        pat = self.state_pattern(state)
        after = dict(env)
        for n in state:
            after[n] = (kinds[n], n)
        for n in local:
            after.pop(n, None)              # loop-local names may not be read after the loop
        loop = "while_fuel (fun %s => %s) (fun %s => %s) fuel %s" % (pat, c[1], pat, body, self.state_tuple(state, env, kinds))
        return "match %s with\n  | None => %s\n  | Some %s => %s\n  end" % (
            loop, self.out_of_fuel() if self.mode == "value" else "true", pat.lstrip("'"), go(after))

    def for_loop(self, st, env, go):
        l, gl = self.ex_g(st.iter, env)
        if l[0] != "intlist":
            raise Reject("for over something that is not a list of ints")
        x = st.target.id
        if x in env or x in assigned_names(st.body, self.special_assigned):
            raise Reject("for loop variable %s is also an ordinary variable" % x)
        state, kinds, local, inner = self.loop_parts(st.body, env, bound=[(x, "int")])
        body = self.body_terms(st.body, inner, state, kinds)
        pat = self.state_pattern(state)
        after = dict(env)
        for n in state:
            after[n] = (kinds[n], n)
        for n in local + [x]:
            after.pop(n, None)
        return self.seq(gl, "let %s := fold_left (fun %s %s => %s) %s %s in\n  %s" % (
            pat, pat, x, body, l[1], self.state_tuple(state, env, kinds), go(after)))

"""Checks and table generators that belong to a property but live outside its own module (so that the module's owner
and the owner of the extra layer can work independently): property id -> (extra table generators, extra check functions).
common.main_entry runs the generators before the build and the functions after the module's own check(run)."""
import float_grid

EXTRA = {
    # the float layer: Base/FloatGrid*.v, Base/FloatDue*.v, Generated/TablesTime.v (Props/C01Float.v)
    "C01": (("gen_tables_time.py", "gen_tables_track.py"), (float_grid.check_float_grid,)),   # + Track.tick -> Sched/ModelSrcTrack.v, Props/C01Src.v
    # Props/C02Float.v, Props/C05Float.v: the note-off and action due tests generated from the source
    # + the scheduler core translated from the source text (docs/TRANSLATOR3.md): gen_tables_track.py -> Generated/TablesTrack.v,
    #   tied to Sched/Model.v in Sched/ModelSrc.v (glue: Sched/SrcGlue.v), theorems restated in Props/C02Src.v, C06Src.v ...
    "C02": (("gen_tables_time.py", "gen_tables_track.py"), ()),
    "C06": (("gen_tables_track.py",), ()),
    "C07": (("gen_tables_track.py",), ()),     # Timeline.tick (phases, track loop) -> Sched/ModelSrcTick.v, Props/C07Src.v
    "C17": (("gen_tables_track.py",), ()),     # the try/except of the track loop -> Props/C17Src.v
    "C05": (("gen_tables_time.py", "gen_tables_sched.py", "gen_tables_track.py"), ()),   # + Timeline.tick's action phase -> Props/C05TickSrc.v   # + Timeline._schedule_action -> Sched/SchedTimeSrc.v, Props/C05Src.v
    # the source translators of docs/TRANSLATOR2.md (harness/src2coq.py): function bodies -> Generated/Tables<X>.v, tied to the
    # models by <Dir>/<Model>Src.v, property theorems restated in Props/<ID>Src.v
    "C13": (("gen_tables_tonal.py",), ()),     # Scale.get, Key.get/semitones/__contains__/nearest_note -> Tonal/KeySrc.v, Props/C13Src.v
    "C14": (("gen_tables_mult.py",), ()),      # isobar/util.py make_clock_multiplier -> Clock/MultiplierSrc.v, Props/C14Src.v
    "C20": (("gen_tables_notation.py",), ()),  # isobar/notation/notation.py parse_notation -> Notation/ParserSrc.v, Props/C20Src.v
    # the pattern engine: method bodies of the pattern classes translated from the source text (Generated/TablesStep.v),
    # tied to Pat/Step.v in Pat/StepSrc.v (Props/C10Src.v; docs/TRANSLATOR.md)
    "C04": (("gen_tables_step.py",), ()),
    "C08": (("gen_tables_step.py",), ()),
    "C09": (("gen_tables_step.py",), ()),
    # C10 also: the tonal classes over parameter streams (tonal.py -> Generated/TablesSteptonal.v, Pat/StepTonalSrc.v,
    # Props/C10StreamsSrc.v), whose method calls on Key / Scale objects run the bodies of Generated/TablesTonal.v
    "C10": (("gen_tables_step.py", "gen_tables_tonal.py", "gen_tables_steptonal.py"), ()),
    "C12": (("gen_tables_step.py",), ()),
    # the stochastic classes: chance.py __next__ bodies -> Generated/TablesStepchance.v, Pat/ChanceSrc.v, Props/C11Src.v
    "C11": (("gen_tables_stepchance.py",), ()),
}

"""C15 — interpolated control tracks emit the exact curve, one value per tick.
Theorems: coq/Props/C15.v (unbounded: any list of control points, any ticks_per_beat, both modes; cos(pi x) enters as a
function with the hypotheses the individual theorems need).  Model: coq/Sched/Interp.v (PInterpolate, PDict, the
interpolating branch of Track.tick, the start tick of a scheduled track).  Correspondence: tracks scheduled on a real
Timeline (DummyClock, recording OutputDevice), every control() call stamped with its tick index, compared inside Coq with
the model's trace.  Oracle: closed-form curve from the property text in exact Fractions (math.cos for the cosine ease)."""
from common import *
import math
from concurrent.futures import ThreadPoolExecutor

PROP = "C15"
META = {
 "engine": "S-scheduler",
 "text": "Coq theorems (Props/C15.v, closed under the global context) prove for EVERY finite stream of control points (any values, any durations, any ticks_per_beat, linear and cosine mode, any event-count limit): the trace of the track is the first value followed by, for each consecutive pair of points, the D_i values v_i + (v_next - v_i) f(j/D_i), j = 1..D_i (f = id or (1 - cos(pi x))/2), hence exactly one control call on each of the 1 + sum D_i ticks and none after; each point is hit exactly (cos pi = -1), values stay between the segment's end points (-1 <= cos <= 1), zero-length points contribute no tick (jump), non-numeric fields and numeric fields equal at both ends are emitted unchanged, and a segment with a non-control end raises InvalidEventException without a call; durations within 5e-9 of a whole number of ticks count as that number. The model is a transcription of PInterpolate.__next__, PDict.__next__ and the interpolating branch of Track.tick as state machines and is tied to the repository on every run: several hundred tracks (8 resolutions, 2-8 points, rising/falling ints and floats, segment lengths 0/1/2/5/29/57/N/3N, float-awkward durations, quantize/delay/count, looping patterns, string controls, mixed-in non-control events) are run on a real Timeline tick by tick and every control() call (tick index exact; values exact where the exact value is a double, else 1e-9) is compared inside Coq (vm_compute) with the model's trace; an independent closed-form oracle in Fractions judges each implementation trace and supplies the failing input. Second round - the timeline's resolution is re-configured AFTER the track was scheduled (timeline.ticks_per_beat = n, timeline.clock_source = <clock with another resolution>, timeline.clock_source.ticks_per_beat = n; before the track's first tick - started at once or by quantize/delay -, between two segments, on a planning tick, in the middle of a segment; once or twice; finer, coarser, multiples, divisors, the same value): Sched/InterpRetime.v carries the resolution in the state of a history of ticks and changes (rt_trace; runv = tick k made at the resolution R k, R arbitrary) and the theorems C15_retime_* prove for EVERY such history that a segment is planned with D = round(duration x the resolution in force on its planning tick) steps (the first segment on the track's first tick, every later one on the tick after its starting point was sent), sends one message per tick, follows the curve formula with that D, hits its end point exactly and keeps its plan whatever the resolution does while it is under way (C15_retime_plan_kept); about a hundred such tracks are run on a real Timeline, judged by the oracle (D_i = duration_i x the resolution in force when segment i begins) and compared with the model (timeline_runv, in which the timeline's time advances by exactly one tick of the resolution in force, as the repaired Timeline.tick does: no snapping onto the new grid). Segments longer than any internal limit of the library (duration * ticks_per_beat >= Pattern.LENGTH_MAX, the constant read from the source under test): the theorems hold for every segment length; C15_trace_at ties the track to the pointwise closed form spec_at (Sched/InterpAt.v), and every run drives two tracks with a segment of LENGTH_MAX ticks or more (first segment / later segment, linear / cosine), every tick judged by the closed-form oracle, the number of calls, the values around LENGTH_MAX ticks into the segment, at its end and at the later points and the silence after compared with spec_at. How the event stream is supplied (dict of patterns, PDict, PDict of a list of dicts, a pattern building a fresh dict per event, a PSequence / PLoop of dict literals that yields the SAME dict objects again on a second and third pass, endless with a count limit, or twice within one pass): 64 such tracks per run are judged by the closed-form oracle over the unrolled passes (one message per tick, every point of EVERY pass on its own tick) and compared with the model on the unrolled stream; Props/C15Loop.v (Sched/InterpLoop.v) proves for every cycle and every number of passes that the trace is the first point followed by the same one-pass curve on every pass (C15_loop_trace, C15_loop_every_pass, C15_loop_passes_agree). Object identity is not expressible in the functional model: aliasing (a track writing into the dicts it is handed) is covered by the correspondence check and the oracle only.",
 "note": "Trusted: Coq kernel + VM; the Python harness; libm: cos(pi x) is taken from math.cos (a table of the values the run needs is handed to the model; the theorems assume only cos(pi*1) = -1 and -1 <= cos <= 1); IEEE double arithmetic of a + dt*(n+1)/D is validated by the exact/1e-9 comparison, not modelled bit by bit. Modelled not verified: Event construction and defaults (event.py) enter as data; the start tick (quantize/delay) is transcribed from Track.update/_schedule_action but its properties belong to the scheduling properties. Resolution changes: the oracle abstains when a change falls between the tick of a control point and the next tick (the text does not say which segment it belongs to; the model, like the code, plans the new segment with the new resolution); a deferred start after a change is judged exactly (beats elapse at 1 / the resolution in force per tick; exact arithmetic - that the float clock of advance_on_tick_grid stays within rounding error of it is Base/FloatGrid.v retick_run_exact, not part of this cone). Not covered: changes made from inside a tick (by another track's event), output-device clock multipliers after a change, real clocks and tempo. Not covered: INTERPOLATION_NONE branch, muted/inactive events, tracks whose numeric field is missing in the next point (model: OErr).",
}

NS = [1, 7, 10, 24, 96, 100, 480, 1000]
TOL = Fraction(1, 10 ** 9)

EXTRA_TARGETS = ["Sched/InterpCheck.vo", "Sched/InterpLongCheck.vo"]
EXTRA_GENERATORS = ["gen_tables_pat.py"]      # Generated/TablesPat.v: Pattern.LENGTH_MAX of the source under test (long-segment stratum)

HEADER = """From Isobar Require Import Base.Prelude Sched.Interp Sched.InterpRetime Sched.InterpCheck.
From Coq Require Import QArith String Uint63.
Local Open Scope Z_scope.
Definition kc := "control"%string.
Definition kv := "value"%string.
Definition kh := "channel"%string.
Definition cev (c v h : fval) (d : Q) : event := mkEvent true d [(kc, c); (kv, v); (kh, h)].
Definition oev (k : string) (x h : fval) (d : Q) : event := mkEvent false d [(k, x); (kh, h)].
Definition exc (k code : Z) : obs := (k, code, VOpq 0, VOpq 0, VOpq 0).
Definition drop_exc (quiet : bool) (l : list obs) : list obs :=
  if quiet then filter (fun o => match o with (_, c, _, _, _) => c =? 0 end) l else l.
Definition ok (exact quiet : bool) (model : list outcome) (impl : list obs) : bool :=
  list_eqb (obs_ok exact) (drop_exc quiet (stamp 0 model)) impl.
Definition diff (exact quiet : bool) (model : list outcome) (impl : list obs) :=
  first_bad exact (drop_exc quiet (stamp 0 model)) impl.
"""


# ---- values -----------------------------------------------------------------------------------------
def is_num(v):
    return type(v) in (int, float)


def enc_in(v):
    """same encoding as the driver's enc() for values the harness sends"""
    if type(v) is bool:
        return ["b", v]
    if type(v) is int:
        return ["i", v]
    if type(v) is float:
        return ["f", v.hex()]
    if v is None:
        return ["n"]
    return ["s", v]


def dec(e):
    """driver encoding -> python value (numbers) or the encoding itself (opaque)"""
    if e[0] == "i":
        return e[1]
    if e[0] == "f":
        return float.fromhex(e[1])
    return None


class Tokens:
    def __init__(self):
        self.d = {}

    def tok(self, e):
        return self.d.setdefault(json.dumps(e), len(self.d) + 1)

    def known(self, e):
        return self.d.get(json.dumps(e), -1)


def fv_in(v, toks):
    if is_num(v):
        return "(VNum %s)" % qlit(v)
    return "(VOpq %d)" % toks.tok(enc_in(v))


def fv_out(e, toks):
    if e[0] in ("i", "f"):
        x = dec(e)
        if isinstance(x, float) and not math.isfinite(x):
            return "(VOpq (-2))"
        return "(VNum %s)" % qlit(x)
    return "(VOpq %s)" % zlit(toks.known(e))


def mk(v):
    """int / finite float -> (m, k): |v| = m * 2^e exactly, k = 2 * (e + 1100) + sign (see Sched/InterpCheck.v dq)"""
    if type(v) is int:
        m, e = abs(v), 0
    else:
        fm, e = math.frexp(abs(v))
        m, e = int(fm * 2 ** 53), e - 53
        if m == 0:
            e = 0
    if m >= 2 ** 62 or not -1099 <= e <= 1000:
        raise ValueError("number out of the literal range: %r" % (v,))
    return m, 2 * (e + 1100) + (1 if v < 0 else 0)


def ilist(xs):
    return "[" + ";".join("%d" % x for x in xs) + "]%uint63"


# ---- cases --------------------------------------------------------------------------------------------
def dur_value(D, N, rng):
    """the duration in beats handed to isobar for D ticks at N ticks per beat"""
    if D % N == 0 and rng.random() < 0.6:
        return D // N
    return D / N


def awkward_ticks(N):
    """whole-tick durations D <= 3N whose float product (D / N) * N falls below D (generator aid only)"""
    return [D for D in range(1, 3 * N + 1) if (D / N) * N < D]


def gen_value(rng, kind):
    if kind == "int":
        return rng.randint(0, 127)
    if kind == "wide":
        return rng.randint(-8192, 16383)
    if kind == "eighth":
        return rng.randint(-1024, 1024) / 8
    return rng.choice([0.0, 1.0, 0.5, 0.25, 64.0, 127.0, -1.0, 0.75])


def gen_points(rng, N, n, budget, dset=None, allow_zero=True):
    """n points: values and whole-tick durations within a total tick budget"""
    kinds = rng.choice([["int"], ["int"], ["eighth"], ["int", "eighth"], ["wide"], ["unit"], ["int", "unit", "eighth"]])
    base = [0, 1, 2, 5, 29, 57, N, 3 * N] if dset is None else dset
    pts, total = [], 0
    for i in range(n):
        v = gen_value(rng, rng.choice(kinds))
        if pts and rng.random() < 0.08:
            v = pts[-1]["value"]            # flat segment
        for _ in range(20):
            D = rng.choice(base)
            if (D > 0 or allow_zero) and total + D <= budget:
                break
        else:
            D = 1
        total += D
        pts.append({"kind": "control", "value": v, "D": D, "dur": dur_value(D, N, rng)})
    return pts


SUPPLY = ["dict", "pdict", "pdict-list", "fresh", "shared", "shared-endless", "shared-ploop", "shared-in-pass"]


def make_case(rng, stratum, N=None, mode=None, sub=None):
    N = N or rng.choice(NS)
    mode = mode or rng.choice(["linear", "cosine"])
    c = {"stratum": stratum, "N": N, "mode": mode, "pre": 0, "quantize": None, "delay": None, "count": None,
         "ignore_exceptions": False, "form": "dict", "loop": False, "changes": [],
         "control": rng.randint(0, 127), "channel": rng.randint(0, 15)}
    budget = rng.choice([300, 600, 1200, 3300]) if N >= 480 else rng.choice([200, 400, 800]) if N >= 96 else 400
    n = rng.randint(2, 8)
    if stratum == "retime":
        return make_retime_case(rng, c)
    if stratum == "basic":
        c["points"] = gen_points(rng, N, n, budget)
    elif stratum == "three-plus":
        c["points"] = gen_points(rng, N, rng.randint(4, 8), budget, dset=[0, 1, 1, 2, 5, 29, 57, N])
    elif stratum == "awkward":
        aw = awkward_ticks(N)
        if not aw:
            N = c["N"] = rng.choice([100, 480, 1000])
            aw = awkward_ticks(N)
        c["points"] = gen_points(rng, N, rng.randint(3, 6), 10 ** 9, dset=[rng.choice(aw) for _ in range(3)] + [1, 2], allow_zero=False)
        for p in c["points"]:
            p["dur"] = p["D"] / N
    elif stratum == "sched":
        c["points"] = gen_points(rng, N, rng.randint(2, 5), 600)
        c["pre"] = rng.choice([0, 1, 3, N, N + 2, 2 * N - 1])
        c["quantize"] = rng.choice([None, 0, 1, 0.5, 0.25, 2, 1])
        c["delay"] = rng.choice([None, 0, 0.5, 1, 0.25, "3t", 1.5])
        if c["delay"] == "3t":                       # three ticks; the oracle uses the exact rational
            c["delay"], c["delay_exact"] = 3 / N, str(Fraction(3, N))
    elif stratum == "count":
        c["points"] = gen_points(rng, N, n, budget)
        c["count"] = rng.choice([0, 1, 2, 3, n - 1, n, n + 2])
        if rng.random() < 0.3:
            c["quantize"] = rng.choice([1, 0.5])
    elif stratum == "loop":
        m = rng.randint(1, 4)
        c["points"] = gen_points(rng, N, m, 700)
        c["loop"] = True
        c["count"] = rng.randint(2, 9)
    elif stratum == "supply":
        # HOW the event stream is handed to schedule(): dict of patterns / PDict / PDict(array of dicts) / a pattern building a
        # fresh dict per event / a pattern yielding the SAME dict objects again (2-3 passes, endless + count, PLoop, or the
        # same object twice within one pass).  points = the distinct control points, order = one pass, passes = repetitions.
        how = sub or rng.choice(SUPPLY)
        c["supply"] = c["edge"] = how
        m = rng.randint(2, 4)
        c["points"] = gen_points(rng, N, m, 240, dset=[1, 2, 5, 29, max(1, N // 2), N, 0], allow_zero=rng.random() < 0.25)
        c["order"] = list(range(m))
        c["passes"] = rng.choice([2, 2, 3])
        if how in ("dict", "pdict"):
            c["form"] = "dict"
        else:
            c["form"] = "seq"
        if how == "pdict-list":
            c["passes"] = 1
        elif how == "shared-endless" or (how == "fresh" and rng.random() < 0.4):
            c["passes"] = None
            c["count"] = rng.randint(m + 1, 3 * m + 1)
        elif how == "shared-in-pass":
            k = rng.randrange(m)
            c["order"] = list(range(m)) + [k] + ([rng.randrange(m)] if rng.random() < 0.4 else [])
            c["passes"] = rng.choice([1, 2])
        if rng.random() < 0.25:
            c["pre"] = rng.choice([0, 1, 3])
            c["quantize"] = rng.choice([1, 0.5])
        elif c["passes"] is not None and rng.random() < 0.15:
            c["count"] = rng.randint(2, max(2, len(c["order"]) * c["passes"]))
    elif stratum == "seq":
        c["form"] = "seq"
        c["points"] = gen_points(rng, N, n, budget)
        r = rng.random()
        if r < 0.35:
            c["control"] = rng.choice(["cutoff", "resonance", "cc/7"])
        if 0.25 < r < 0.55:
            c["channel"] = rng.choice([None, "A", True])
        if r > 0.7:
            c["channel"] = "default"          # key omitted: DEFAULT_EVENT_CHANNEL
        if rng.random() < 0.3:
            for p in c["points"]:
                p["dur"] = "default"          # key omitted: DEFAULT_EVENT_DURATION
    elif stratum == "reject":
        c["form"] = "seq"
        c["points"] = gen_points(rng, N, rng.randint(2, 6), 600, allow_zero=rng.random() < 0.3)
        k = rng.randrange(len(c["points"]))
        for j in sorted(set([k] + ([rng.randrange(len(c["points"]))] if rng.random() < 0.25 else []))):
            c["points"][j]["kind"] = rng.choice(["note", "program_change", "osc_address"])
        c["ignore_exceptions"] = rng.random() < 0.3
    elif stratum == "edge":
        which = rng.choice(["first-zero", "last-zero", "zeros", "all-zero", "single", "half-tick", "negative", "ones"])
        c["edge"] = which
        pts = gen_points(rng, N, rng.randint(3, 6), 400, dset=[1, 2, 5, 29, N], allow_zero=False)
        def setD(p, D, dur=None):
            p["D"] = D
            p["dur"] = dur if dur is not None else dur_value(D, N, rng)
        if which == "first-zero":
            setD(pts[0], 0)
            if rng.random() < 0.5:
                setD(pts[1], 0)
        elif which == "last-zero":
            setD(pts[-2], 0)
            if rng.random() < 0.5:
                setD(pts[-1], 0)
        elif which == "zeros":
            for p in pts[1:-1]:
                if rng.random() < 0.6:
                    setD(p, 0)
        elif which == "all-zero":
            for p in pts:
                setD(p, 0)
        elif which == "single":
            pts = pts[:1]
        elif which == "half-tick":
            k = rng.randrange(len(pts) - 1)
            D = rng.choice([0, 1, 2, 5])
            pts[k]["D"] = D
            pts[k]["dur"] = (2 * D + 1) / (2 * N)          # D + 1/2 ticks: truncated to D steps
            pts[k]["frac"] = True
        elif which == "negative":
            k = rng.randrange(len(pts) - 1)
            pts[k]["D"] = 0
            pts[k]["dur"] = -rng.choice([1, 2, N]) / N      # negative duration: skipped like a zero-length point
            pts[k]["frac"] = True
        elif which == "ones":
            for p in pts:
                setD(p, 1)
        c["points"] = pts
    return c


# ---- the resolution is re-configured after the track was scheduled --------------------------------------
RETIME_WHERE = ["before-first-tick", "before-first-tick", "after-first-tick", "between", "boundary", "mid", "mid",
                "deferred", "deferred-then-mid", "twice", "twice-mid", "same", "reject"]
HOWS = ["set", "set", "swap", "clock"]


def res_at(case, k):
    """the resolution in force during tick k: every change is made before the tick it names"""
    n = case["N"]
    for ch in case["changes"]:
        if ch["tick"] <= k:
            n = ch["N"]
    return n


def new_resolution(rng, n):
    cand = [m for m in (2 * n, 3 * n, 20 * n, 4 * n) if m <= 1000]
    cand += [n // d for d in (2, 3, 4, 20) if n % d == 0 and n // d >= 1]
    if rng.random() < 0.6 and cand:
        return rng.choice(cand)
    return rng.choice([m for m in NS + [12, 48, 960] if m != n])


def start_under_changes(case):
    """The tick on which a track scheduled after case['pre'] ticks with quantize/delay starts when the resolution
    changes on the way: beats elapse at 1 / (the resolution in force) per tick (the repaired Timeline.tick: no snapping
    of the time onto the new grid), the track starts on the first tick at which the elapsed beats have reached
    quantize * ceil(now / quantize) + delay.  Exact Fractions.  None: too close to call (within 1e-8 beats)."""
    if not (case["quantize"] or case["delay"]):
        return case["pre"]
    t = Fraction(0)
    for k in range(case["pre"]):
        t += Fraction(1, res_at(case, k))
    q = Fraction(case["quantize"] or 0)
    d = Fraction(case.get("delay_exact") or case["delay"] or 0)
    when = (t if q == 0 else q * math.ceil(t / q)) + d
    for k in range(case["pre"], case["pre"] + 6000):
        gap = when - t
        if 0 < gap < Fraction(1, 10 ** 7):
            return None
        if gap <= 0:
            return k
        t += Fraction(1, res_at(case, k))
    return None


def make_retime_case(rng, c):
    """a track of 3-6 points on a timeline whose resolution changes once or twice after schedule(); every duration is a
    whole number of ticks at the resolution in force on the tick on which its segment is planned"""
    for _ in range(50):
        where = rng.choice(RETIME_WHERE)
        c["stratum"], c["edge"] = "retime", where
        c["changes"], c["quantize"], c["delay"], c["form"] = [], None, None, "dict"
        N0 = c["N"]
        c["pre"] = rng.choice([0, 0, 1, 3, N0])
        n = rng.randint(3, 6)
        rel, absolute = [], []          # (segment, "0" | "1" | "mid"), tick offsets after schedule()
        seg = lambda lo: rng.randint(lo, n - 2)
        if where == "before-first-tick":
            absolute = [0]
        elif where == "after-first-tick":
            rel = [(0, "1")]
        elif where == "between":
            rel = [(seg(1), "0")]
        elif where == "boundary":
            rel = [(seg(1), "1")]
        elif where == "mid":
            rel = [(seg(0), "mid")]
        elif where in ("deferred", "deferred-then-mid"):
            c["quantize"] = rng.choice([None, 1, 0.5, 0.25, 2])
            c["delay"] = rng.choice([0.5, 1, 0.25, 1.5]) if c["quantize"] is None or rng.random() < 0.4 else None
            absolute = [rng.choice([0, 0, 1, 2, 5])]
            if where == "deferred-then-mid":
                rel = [(seg(0), "mid")]
        elif where == "twice":
            absolute = [0]
            rel = [(seg(1), rng.choice(["0", "1"]))]
        elif where == "twice-mid":
            k = seg(0)
            rel = [(k, "mid"), (k, "mid")] if rng.random() < 0.5 else [(k, "mid"), (min(k + 1, n - 2), "mid")]
        elif where == "same":
            rel = [(seg(0), rng.choice(["0", "mid"]))]
        elif where == "reject":
            c["form"] = "seq"
            absolute = [0] if rng.random() < 0.5 else []
            rel = [(seg(0), rng.choice(["0", "mid"]))]
        cur = N0
        for off in absolute:
            m = cur if where == "same" else new_resolution(rng, cur)
            c["changes"].append({"tick": c["pre"] + off, "N": m, "how": rng.choice(HOWS)})
            cur = m
        T0 = start_under_changes(c)
        if T0 is None or T0 > c["pre"] + 2500:
            continue
        kinds = rng.choice([["int"], ["eighth"], ["int", "eighth"], ["unit"], ["wide"]])
        pts, T, first, ok = [], T0, True, True

        def add_change(tick):
            if any(ch["tick"] >= tick for ch in c["changes"]):
                return False
            here = res_at(c, tick)
            m = here if where == "same" else new_resolution(rng, here)
            c["changes"].append({"tick": tick, "N": m, "how": rng.choice(HOWS)})
            return True
        for k in range(n):
            v = gen_value(rng, rng.choice(kinds))
            mine = [w for (kk, w) in rel if kk == k]
            if k == n - 1:
                pts.append({"kind": "control", "value": v, "D": 1, "dur": 1 / res_at(c, T + 1)})
                break
            for w in mine:
                if w in ("0", "1"):
                    ok = add_change(T + int(w)) and ok
            Rp = res_at(c, T if first else T + 1)
            if not mine and k > 0 and rng.random() < 0.1:
                pts.append({"kind": "control", "value": v, "D": 0, "dur": 0})
                continue
            D = rng.choice([d for d in (3, 4, 5, 12, 29, 57, Rp, 2 * Rp, Rp // 2, Rp // 4) if 3 <= d <= 400] +
                           ([] if "mid" in mine else [1, 2, 2]))
            pts.append({"kind": "control", "value": v, "D": D, "dur": dur_value(D, Rp, rng)})
            for j in sorted(rng.sample(range(2, D), max(0, min(mine.count("mid"), D - 2)))):
                ok = add_change(T + j) and ok
            T += D
            first = False
        if not ok or not c["changes"] or T - T0 > 1500:
            continue
        if where == "reject":
            pts[rng.randrange(1, n)]["kind"] = rng.choice(["note", "program_change"])
            c["ignore_exceptions"] = rng.random() < 0.3
        c["points"], c["t0_plan"] = pts, T0
        return c
    raise CheckError("retime generator: no usable case in 50 attempts")


def default_dur_ticks(info, N):
    d = dec(info["default_duration"])
    return d, Fraction(d) * N


def stream_of(case, info):
    """the finite event stream the track will see (loops unrolled; the count limit is NOT applied here)"""
    pts = case["points"]
    if case.get("order") is not None:
        one = [pts[i] for i in case["order"]]
        pts = one * case["passes"] if case["passes"] is not None else [one[i % len(one)] for i in range(case["count"] + 2)]
    elif case["loop"]:
        k = (case["count"] or 0) + 2
        pts = [pts[i % len(pts)] for i in range(k)]
    out = []
    for p in pts:
        q = dict(p)
        if q["dur"] == "default":
            d, ticks = default_dur_ticks(info, case["N"])
            q["dur_eff"] = d
            q["D"] = int(ticks) if ticks.denominator == 1 else None
        else:
            q["dur_eff"] = q["dur"]
        out.append(q)
    return out


def payload_of(case):
    p = {k: case[k] for k in ("N", "mode", "pre", "quantize", "delay", "count", "ignore_exceptions", "form")}
    p["changes"] = case.get("changes", [])
    if case.get("supply"):
        p["supply"], p["order"], p["passes"] = case["supply"], case["order"], case["passes"]
    if case["form"] == "dict":
        one = case["points"] if case.get("order") is None else [case["points"][i] for i in case["order"]]
        f = {"control": {"const": case["control"]},
             "value": {"seq": [q["value"] for q in one], "loop": case["loop"]},
             "duration": {"seq": [q["dur"] for q in one], "loop": case["loop"]}}
        f["channel"] = {"const": case["channel"]}
        p["fields"] = f
    else:
        evs = []
        for q in case["points"]:
            if q["kind"] == "control":
                e = {"control": case["control"], "value": q["value"]}
            elif q["kind"] == "note":
                e = {"note": 60}
            elif q["kind"] == "program_change":
                e = {"program_change": 5}
            else:
                e = {"osc_address": "/verif"}
            if case["channel"] != "default":
                e["channel"] = case["channel"]
            if q["dur"] != "default":
                e["duration"] = q["dur"]
            evs.append(e)
        p["events"] = evs
    p["nticks"] = case["nticks"]
    return p


def snippet(case):
    kw = "".join(", %s=%r" % (k, case[k]) for k in ("quantize", "delay", "count") if case[k] is not None)
    pl = payload_of(case)
    setup = ""
    supply = case.get("supply")
    reps = "" if case.get("passes") is None else ", %d" % case["passes"]
    if case["form"] == "dict":
        seq = lambda s: "iso.PSequence(%r%s)" % (s["seq"], reps if supply else "" if s.get("loop") else ", 1")
        ev = "{'control': %r, 'value': %s, 'duration': %s, 'channel': %r}" % (
            case["control"], seq(pl["fields"]["value"]), seq(pl["fields"]["duration"]), case["channel"])
        if supply == "pdict":
            ev = "iso.PDict(%s)" % ev
    elif not supply:
        ev = "iso.PSequence(%r, 1)" % (pl["events"],)
    else:
        setup = "D = %r\nS = [D[i] for i in %r]     # one pass; the same dict object wherever an index recurs\n" % (pl["events"], pl["order"])
        if supply == "fresh":
            setup += ("class Fresh(iso.Pattern):\n    pos = 0\n    def __next__(self):\n"
                      "        if %s: raise StopIteration\n        self.pos += 1; return dict(S[(self.pos - 1) %% len(S)])\n" % (
                          "False" if case["passes"] is None else "self.pos >= %d * len(S)" % case["passes"]))
            ev = "Fresh()"
        elif supply == "pdict-list":
            ev = "iso.PDict(S)"
        elif supply == "shared-ploop":
            ev = "iso.PLoop(iso.PSequence(S, 1)%s)" % reps
        else:
            ev = "iso.PSequence(S%s)" % reps
    return ("import isobar as iso\n" + setup +
            "class Rec(iso.OutputDevice):\n"
            "    now = 0\n"
            "    def control(self, control=0, value=0, channel=0): print(self.now, control, value, channel)\n"
            "dev = Rec(); tl = iso.Timeline(output_device=dev, clock_source=iso.DummyClock(ticks_per_beat=%d), ignore_exceptions=%r)\n"
            "for t in range(%d):\n"
            "    dev.now = t\n"
            "    if t == %d: tl.schedule(%s, interpolate=%r%s)\n"
            "%s"
            "    tl.tick()\n" % (case["N"], case["ignore_exceptions"], case["nticks"], case["pre"], ev, case["mode"], kw,
                                "".join("    if t == %d: %s\n" % (ch["tick"], {
                                    "set": "tl.ticks_per_beat = %d" % ch["N"],
                                    "swap": "tl.clock_source = iso.DummyClock(ticks_per_beat=%d)" % ch["N"],
                                    "clock": "tl.clock_source.ticks_per_beat = %d" % ch["N"]}[ch["how"]])
                                        for ch in case.get("changes", []))))


# ---- independent oracle (property text, exact Fractions) -------------------------------------------------
def oracle_t0(case):
    N = case["N"]
    now = Fraction(case["pre"], N)
    q = Fraction(case["quantize"] or 0)
    d = Fraction(case.get("delay_exact") or case["delay"] or 0)
    t = now if q == 0 else q * math.ceil(now / q)
    return max(case["pre"], math.ceil((t + d) * N))


def is_double(fr):
    d = fr.denominator
    return d & (d - 1) == 0 and d <= 2 ** 40 and abs(fr.numerator) < 2 ** 50


def same(a, b):
    """the emitted field a (driver encoding) is the value b the user gave"""
    if is_num(b):
        x = dec(a)
        return x is not None and a[0] in ("i", "f") and x == b
    return a == enc_in(b)


def oracle(case, res, info):
    """Judge the implementation trace by the property text alone.  Returns (failures, judged_clauses);
    failures = [(kind, tick, detail)]"""
    bad = []
    stream = stream_of(case, info)
    cnt = case["count"]
    pts = stream[:cnt] if cnt else stream
    N, mode = case["N"], case["mode"]
    calls = res["calls"]
    t0 = oracle_t0(case)
    if case.get("changes"):
        t0, pts, why = oracle_replan(case, res, pts, t0)
        if pts is None:
            return bad, why
    control = case["control"]
    channel = dec(info["default_channel"]) if case["channel"] == "default" else case["channel"]
    if any(p.get("frac") or p["D"] is None for p in pts):
        return bad, "abstain:not-whole-ticks"
    if res["other"]:
        bad.append(("non-control-call", res["other"][0][0], "device method %s called by an interpolated track" % res["other"][0][1]))
    # --- reject clause
    badidx = [i for i, p in enumerate(pts) if p["kind"] != "control"]
    if badidx:
        i = badidx[0]
        if len(pts) < 2:
            return bad, "abstain:single-point"
        zero_near = (i > 0 and pts[i - 1]["D"] == 0) or (i < len(pts) - 1 and pts[i]["D"] == 0) or any(p["D"] == 0 for p in pts[:i])
        if zero_near:
            return bad, "abstain:reject-next-to-zero-length"
        # the first segment that touches the non-control event starts on tick `limit`: nothing from it may be emitted
        starts = [t0]
        for p in pts[:-1]:
            starts.append(starts[-1] + p["D"])
        limit = t0 if i <= 1 else starts[i - 1] + 1
        late = [c for c in calls if c[0] >= limit]
        if late:
            bad.append(("reject-emits", late[0][0], "control call on tick %d although the segment there has a non-control end (event %d is a %s event)" % (late[0][0], i, pts[i]["kind"])))
        if not case["ignore_exceptions"]:
            if res["exc"] is None:
                bad.append(("reject-missing", limit, "no InvalidEventException although event %d of the stream is a %s event" % (i, pts[i]["kind"])))
            elif res["exc"][1] != "InvalidEventException":
                bad.append(("reject-wrong-exception", res["exc"][0], "raised %s instead of InvalidEventException" % res["exc"][1]))
            elif res["exc"][0] > limit:
                bad.append(("reject-late", res["exc"][0], "InvalidEventException only on tick %d; the offending segment starts on tick %d" % (res["exc"][0], limit)))
        # the control-only prefix before the offending segment follows the curve
        keep = pts[:i - 1] if i >= 2 else []
        bad += curve_failures(keep, t0, N, mode, [c for c in calls if c[0] < limit], control, channel, closed=False)
        return bad, "reject"
    if res["exc"] is not None:
        bad.append(("unexpected-exception", res["exc"][0], "%s raised on tick %d by a stream of control events" % (res["exc"][1], res["exc"][0])))
        return bad, "curve"
    if len(pts) < 2:
        return bad, "abstain:single-point"
    if sum(p["D"] for p in pts[:-1]) == 0:
        return bad, "abstain:all-points-on-one-tick"
    if any(p["D"] < 0 for p in pts):
        return bad, "abstain:negative"
    if not is_num(control) or not is_num(channel) or True:
        pass
    bad += curve_failures(pts, t0, N, mode, calls, control, channel, closed=True)
    return bad, "curve"


def oracle_replan(case, res, pts, t0_fixed):
    """The property text under a resolution that changes after schedule(): "a segment of D ticks", "for all
    ticks_per_beat" - D_i = duration_i x the resolution in force when segment i begins; a change while a segment is
    under way does not re-plan it.  Segment 0 begins on the track's first tick; segment i >= 1 begins once point i has
    been sent (tick T_i); a change made between tick T_i and tick T_i + 1 is not attributed by the text to either
    segment, so the oracle abstains there.  The start tick ("with and without quantize/delay") is the first tick at which
    the beats elapsed - every tick counted with the tick length in force at that tick - have reached the scheduled time.
    Returns (t0, points with their D, None) or (t0, None, reason to abstain)."""
    changes = case["changes"]
    t0 = start_under_changes(case)
    if t0 is None:
        return None, None, "abstain:start-too-close-to-call"
    out, T, first = [], t0, True
    for i, p in enumerate(pts):
        q = dict(p)
        if i == len(pts) - 1:
            q["D"] = 0
            out.append(q)
            break
        if not first and any(ch["tick"] == T + 1 for ch in changes):
            return t0, None, "abstain:change-between-a-point-and-the-next-tick"
        prod = Fraction(p["dur_eff"]) * res_at(case, T if first else T + 1)
        D = round(prod)
        if abs(prod - D) >= Fraction(5, 10 ** 9) or p.get("frac"):
            return t0, None, "abstain:not-whole-ticks"
        q["D"] = D
        out.append(q)
        if D > 0:
            T, first = T + D, False
    return t0, out, None


def curve_failures(pts, t0, N, mode, calls, control, channel, closed):
    """calls against the closed-form curve through pts (all control events, whole ticks).  closed: the trace must also end
    exactly on the last point's tick."""
    bad = []
    if len(pts) < 2:
        return bad
    T = [t0]
    for p in pts[:-1]:
        T.append(T[-1] + p["D"])
    t_last = T[-1]
    ticks = [c[0] for c in calls]
    want = list(range(t0, t_last + 1))
    if not closed:
        ticks = [t for t in ticks if t <= t_last]
        calls = [c for c in calls if c[0] <= t_last]
    if ticks != want:
        seen = {}
        for t in ticks:
            seen[t] = seen.get(t, 0) + 1
        first = next((t for t in sorted(set(want) | set(seen)) if seen.get(t, 0) != (1 if t0 <= t <= t_last else 0)), None)
        bad.append(("one-per-tick", first, "tick %s carries %d control calls (expected %d); the track spans ticks %d..%d and sent %d calls on ticks %s..%s" % (
            first, seen.get(first, 0), 1 if first is not None and t0 <= first <= t_last else 0, t0, t_last, len(ticks),
            ticks[0] if ticks else None, ticks[-1] if ticks else None)))
        return bad
    kinds = set()
    for t, c_e, v_e, h_e in calls:
        def fail(kind, detail):
            if kind not in kinds:
                kinds.add(kind)
                bad.append((kind, t, detail))
        if not same(c_e, control):
            fail("passthrough-control", "control() got control=%r on tick %d, the track's control is %r" % (dec(c_e) if dec(c_e) is not None else c_e, t, control))
        if not same(h_e, channel):
            fail("passthrough-channel", "control() got channel=%r on tick %d, the track's channel is %r" % (dec(h_e) if dec(h_e) is not None else h_e, t, channel))
        v = dec(v_e)
        if v is None or (isinstance(v, float) and not math.isfinite(v)):
            fail("value-not-a-number", "value %r on tick %d" % (v_e, t)); continue
        at = [i for i in range(len(pts)) if T[i] == t]
        if at:
            if not any(v == pts[i]["value"] for i in at):
                fail("point-missed" if len(at) == 1 else "jump", "tick %d is the tick of control point(s) %s with value(s) %s, but %r was sent" % (
                    t, at, [pts[i]["value"] for i in at], v))
            continue
        i = max(k for k in range(len(pts) - 1) if T[k] < t)
        a, b, D, j = pts[i]["value"], pts[i + 1]["value"], pts[i]["D"], t - T[i]
        if not (min(a, b) <= v <= max(a, b)):
            fail("hull", "value %r on tick %d leaves the interval [%r, %r] of its segment" % (v, t, min(a, b), max(a, b)))
        if mode == "linear":
            ex = Fraction(a) + (Fraction(b) - Fraction(a)) * Fraction(j, D)
            if is_double(ex):
                if Fraction(v) != ex:
                    fail("curve", "tick %d is %d/%d into the segment %r -> %r: expected exactly %s, got %r" % (t, j, D, a, b, float(ex), v))
            elif abs(Fraction(v) - ex) > TOL:
                fail("curve", "tick %d is %d/%d into the segment %r -> %r: expected %s, got %r" % (t, j, D, a, b, float(ex), v))
        else:
            ex = a + (b - a) * 0.5 * (1.0 - math.cos(math.pi * j / D))
            if abs(v - ex) > 1e-9:
                fail("curve", "tick %d is %d/%d into the cosine segment %r -> %r: expected %r, got %r" % (t, j, D, a, b, ex, v))
    return bad


# ---- Coq side --------------------------------------------------------------------------------------------
def divisors(n):
    return [d for d in range(1, n + 1) if n % d == 0]


def cos_rows(ds):
    rows = []
    for d in sorted(ds):
        flat = []
        for j in range(d + 1):
            flat.extend(mk(math.cos(math.pi * j / d)))
        rows.append("crow %d %s" % (d, ilist(flat)))
    return "Definition ctab : cos_table := [\n" + ";\n".join(rows) + "].\nDefinition cosf := cospi_tab ctab.\n"


def model_term(case, res, info, fn="ok"):
    toks = Tokens()
    stream = stream_of(case, info)
    chan = dec(info["default_channel"]) if case["channel"] == "default" else case["channel"]
    evs = []
    for p in stream:
        d = qlit(p["dur_eff"])
        if p["kind"] == "control":
            evs.append("cev %s %s %s %s" % (fv_in(case["control"], toks), fv_in(p["value"], toks), fv_in(chan, toks), d))
        else:
            x = {"note": 60, "program_change": 5, "osc_address": "/verif"}[p["kind"]]
            evs.append("oev %s %s %s %s" % (slit(p["kind"]), fv_in(x, toks), fv_in(chan, toks), d))
    maxc = optlit(case["count"], zlit)
    if case.get("changes"):
        model = "(timeline_runv cosf (Z.to_nat %d) (res_of %d [%s]) %s %s (Z.to_nat %d) %s %s [%s])" % (
            case["nticks"], case["N"], "; ".join("(%d, %d)" % (ch["tick"], ch["N"]) for ch in case["changes"]),
            "Linear" if case["mode"] == "linear" else "Cosine", maxc, case["pre"],
            qlit(case["quantize"] or 0), qlit(case["delay"] or 0), "; ".join(evs))
    else:
        model = "(timeline_run cosf (Z.to_nat %d) %d %s %s %d %s %s [%s])" % (
            case["nticks"], case["N"], "Linear" if case["mode"] == "linear" else "Cosine", maxc, case["pre"],
            qlit(case["quantize"] or 0), qlit(case["delay"] or 0), "; ".join(evs))
    calls = res["calls"]
    canon = lambda e: repr(Fraction(dec(e))) if e[0] in ("i", "f") and math.isfinite(dec(e)) else json.dumps(e)
    cs = {canon(c[1]) for c in calls}
    hs = {canon(c[3]) for c in calls}
    numeric = all(c[2][0] in ("i", "f") and math.isfinite(dec(c[2])) for c in calls)
    try:
        enc_vals = [mk(dec(c[2])) for c in calls] if numeric else None
    except ValueError:
        enc_vals = None
    if calls and len(cs) == 1 and len(hs) == 1 and enc_vals is not None:
        ticks = [c[0] for c in calls]
        flat = []
        if ticks == list(range(ticks[0], ticks[0] + len(ticks))):
            for m, k in enc_vals:
                flat += [m, k]
            impl = "(calls_from %s %s %d %s)" % (fv_out(calls[0][1], toks), fv_out(calls[0][3], toks), ticks[0], ilist(flat))
        else:
            for t, (m, k) in zip(ticks, enc_vals):
                flat += [t, m, k]
            impl = "(calls_at %s %s %s)" % (fv_out(calls[0][1], toks), fv_out(calls[0][3], toks), ilist(flat))
    else:
        impl = "[" + "; ".join("(%d, 0, %s, %s, %s)" % (t, fv_out(c, toks), fv_out(v, toks), fv_out(h, toks)) for t, c, v, h in calls) + "]"
    if res["exc"] is not None:
        impl = "(%s ++ [exc %d %d])" % (impl, res["exc"][0], 1 if res["exc"][1] == "InvalidEventException" else 2)
    if res["other"]:
        return "false"
    return "%s %s %s %s %s" % (fn, blit(case["mode"] == "linear"), blit(case["ignore_exceptions"]), model, impl)


def needed_rows(case, info):
    if case["mode"] != "cosine":
        return set()
    ds = set()
    for p in stream_of(case, info):
        D = p["D"]
        if D and D > 0:
            ds.update(divisors(D))
        # a resolution change may land on the planning tick of a segment the generator planned at another resolution (the
        # oracle abstains there, the model plans D = round(duration x the resolution in force)): hand the model the cosine
        # rows of every D the segment can get, else its table lookup falls back to a default and model and code "differ"
        # (false alarm of the thorough tier at seed 3)
        for ch in case.get("changes", []):
            try:
                Dn = int(round(float(p["dur_eff"]) * ch["N"]))
            except (TypeError, ValueError):
                continue
            if 0 < Dn <= 20000:
                ds.update(divisors(Dn))
    return ds


def coq_compare(run, cases, results, info):
    """returns the indices of the cases whose implementation trace differs from the model's"""
    order = sorted(range(len(cases)), key=lambda i: (cases[i]["N"], cases[i]["mode"]))
    chunks, cur, size = [], [], 0
    for i in order:
        w = 50 + len(results[i]["calls"])
        if cur and (size + w > 3500 or cases[cur[0]]["N"] != cases[i]["N"]):
            chunks.append(cur); cur, size = [], 0
        cur.append(i); size += w
    if cur:
        chunks.append(cur)

    def one(ci):
        k, idx = ci
        rows = set()
        for i in idx:
            rows |= needed_rows(cases[i], info)
        src = HEADER + cos_rows(rows) + "Definition results : list bool := [\n" + \
            ";\n".join(model_term(cases[i], results[i], info) for i in idx) + "\n].\nEval vm_compute in failing results.\n"
        out = run.coqc_text("chunk%d" % k, src)
        return [idx[j] for j in parse_nat_list(out)]
    bad = []
    with ThreadPoolExecutor(max_workers=12) as ex:
        for r in ex.map(one, list(enumerate(chunks))):
            bad.extend(r)
    return sorted(bad)


def coq_diff(run, case, res, info):
    src_head = HEADER + cos_rows(needed_rows(case, info))
    try:
        return run.coq_eval(src_head, model_term(case, res, info, fn="diff"))[:1500]
    except CheckError as e:
        return "coq evaluation failed: %s" % str(e)[-300:]


# ---- driver ------------------------------------------------------------------------------------------------
def set_nticks(case, info):
    stream = stream_of(case, info)
    total = sum(p["D"] or 0 for p in stream if p["D"] and p["D"] > 0)
    case["nticks"] = case.get("t0_plan", oracle_t0(case)) + total + 4


def run_cases(run, cases, info):
    for c in cases:
        set_nticks(c, info)
    shards = [list(range(i, len(cases), 12)) for i in range(12) if i < len(cases)]
    outs = run.impl_parallel("c15_impl", [{"cases": [payload_of(cases[i]) for i in sh]} for sh in shards])
    results = [None] * len(cases)
    for sh, out in zip(shards, outs):
        for i, r in zip(sh, out["cases"]):
            results[i] = r
    explained = set()
    for i, (c, r) in enumerate(zip(cases, results)):
        run.count(c["nticks"])
        run.dist("stratum.%s" % c["stratum"] + (".%s" % c["edge"] if "edge" in c else ""))
        run.dist("N.%d" % c["N"])
        run.dist("mode.%s" % c["mode"])
        if c.get("supply"):
            run.dist("supply.passes.%s" % ("endless+count" if c["passes"] is None else c["passes"]))
            if c["supply"] in ("shared", "shared-endless", "shared-ploop", "shared-in-pass") and len(stream_of(c, info)[:c["count"] or None]) > len(set(c["order"])):
                run.dist("supply.same-dict-object-yielded-again")
            if c["quantize"]:
                run.dist("supply.deferred-start")
        if c.get("changes"):
            run.dist("retime.changes.%d" % len(c["changes"]))
            for ch in c["changes"]:
                run.dist("retime.how.%s" % ch["how"])
            ns = [c["N"]] + [ch["N"] for ch in c["changes"]]
            for a, b in zip(ns, ns[1:]):
                run.dist("retime.to." + ("same" if a == b else "finer" if b > a else "coarser") +
                         (".multiple" if a != b and (a % b == 0 or b % a == 0) else ""))
            if c["changes"][0]["tick"] <= c.get("t0_plan", 0):
                run.dist("retime.before-first-tick" + (".deferred" if c["quantize"] or c["delay"] else ".immediate"))
            if any(ch["tick"] > c.get("t0_plan", 0) for ch in c["changes"]):
                run.dist("retime.during-the-run")
        stream = stream_of(c, info)
        for p in stream:
            D = p["D"]
            run.dist("D." + ("none" if D is None else "0" if D == 0 else "1" if D == 1 else "N" if D == c["N"] else "3N" if D == 3 * c["N"] else "other"))
        if len(stream) >= 4:
            run.dist("segments>=3")
        vals = [p["value"] for p in stream]
        if any(b < a for a, b in zip(vals, vals[1:])):
            run.dist("falling")
        if any(b > a for a, b in zip(vals, vals[1:])):
            run.dist("rising")
        if any((p["dur_eff"] * c["N"]) != p["D"] for p in stream if p["D"] is not None and not p.get("frac")):
            run.dist("float-product-not-whole")
        bad, clause = oracle(c, r, info)
        run.cov["oracle_evaluations"] += len(r["calls"]) + 1
        if clause.startswith("abstain"):
            run.discard("oracle-" + clause)
        else:
            run.dist("oracle." + clause)
        if r["calls"] or r["exc"]:
            run.nontrivial(json.dumps(payload_of(c), sort_keys=True))
        run.sample({"N": c["N"], "mode": c["mode"], "points": [[p["value"], p["D"]] for p in c["points"]][:5],
                    "first_calls": [[x[0], dec(x[2])] for x in r["calls"][:4]], "n_calls": len(r["calls"])}, limit=3)
        for kind, tick, detail in bad:
            explained.add(i)
            run.violation({"kind": kind, "site": "interpolated-track"}, {
                "case": c, "tick": tick, "observed": detail, "oracle": "closed-form curve from the property text (Fractions)",
                "calls_near": [[x[0], dec(x[1]) if dec(x[1]) is not None else x[1], dec(x[2]), dec(x[3]) if dec(x[3]) is not None else x[3]]
                               for x in r["calls"] if tick is not None and abs(x[0] - tick) <= 2],
                "exception": r["exc"], "python": snippet(c)})
    failing = coq_compare(run, cases, results, info)
    run.cov["traces_validated_against_impl"] += len(cases) - len(failing)
    for i in failing:
        if i in explained:
            continue
        c, r = cases[i], results[i]
        d = coq_diff(run, c, r, info)
        run.violation({"kind": "correspondence", "site": "interpolated-track", "stratum": c["stratum"]}, {
            "broken": "correspondence between Sched/Interp.v (timeline_run) and Track.tick/PInterpolate: the theorems of Props/C15.v no longer describe this code",
            "case": c, "first_difference (model, implementation) as (tick, code, control, value, channel)": d,
            "exception": r["exc"], "n_calls": len(r["calls"]), "python": snippet(c)}, found_input=False)
    return results


# ---- segments longer than any internal limit of the library -------------------------------------------------------
# The dimension: duration * ticks_per_beat >= Pattern.LENGTH_MAX (read from Generated/TablesPat.v, regenerated from the source
# under test by the build step).  The oracle judges EVERY tick by the closed form of the property text; the model is read at
# chosen ticks through the pointwise closed form spec_at (Sched/InterpAt.v, C15_trace_at) - around LENGTH_MAX ticks into the
# long segment, at its end, at the later points, at the end of the track - plus the number of calls and the silence after.
HEADER_LONG = HEADER.replace("Sched.InterpCheck.", "Sched.InterpCheck Sched.InterpProofs Sched.InterpAt Sched.InterpLongCheck.")


def length_max():
    import re
    m = re.search(r"Definition LENGTH_MAX : Z := (\d+)\.", open(os.path.join(COQDIR, "Generated", "TablesPat.v")).read())
    if not m:
        raise CheckError("Generated/TablesPat.v carries no LENGTH_MAX")
    return int(m.group(1))


def make_long_case(rng, lm, which):
    """which = 0: the FIRST segment is the long one (D + 1 values needed), linear, 480 PPQN; 1: a LATER segment is long
    (1 skipped + D values), cosine, 96 PPQN, deferred start"""
    N, mode = (480, "linear") if which == 0 else (96, "cosine")
    c = {"stratum": "long", "N": N, "mode": mode, "pre": 0, "quantize": None, "delay": None, "count": None,
         "ignore_exceptions": False, "form": "dict", "loop": False, "changes": [],
         "control": rng.randint(0, 127), "channel": rng.randint(0, 15), "long": lm}
    extra = rng.randint(1, 1700)
    D = (-(-(lm + extra) // N)) * N                      # a whole number of beats, > LENGTH_MAX ticks
    if which == 1:
        D = lm                                           # exactly LENGTH_MAX ticks: the smallest segment that is too long
    mk_pt = lambda v, d: {"kind": "control", "value": v, "D": d, "dur": d / N}
    short = [rng.choice([1, 7, N // 4, N]) for _ in range(3)]
    vals = [rng.randint(0, 127) for _ in range(5)]
    if which == 0:
        c["points"] = [mk_pt(vals[0], D), mk_pt(vals[1], short[0]), mk_pt(vals[2], short[1]), mk_pt(vals[3], 0)]
    else:
        c["points"] = [mk_pt(vals[0], short[0]), mk_pt(vals[1], D), mk_pt(vals[2], short[1]), mk_pt(vals[3], short[2]), mk_pt(vals[4], 0)]
        c["pre"], c["quantize"] = 3, 1
    return c


def long_sample_ticks(case, t0, lm):
    pts = case["points"]
    T = [t0]
    for p in pts[:-1]:
        T.append(T[-1] + p["D"])
    want = set()
    for t in T:
        want.update(range(t - 2, t + 3))
    for i, p in enumerate(pts[:-1]):
        if p["D"] >= lm:
            want.update(range(T[i] + lm - 4, T[i] + lm + 3))
            want.update([T[i] + p["D"] // 2, T[i] + p["D"] // 3])
    return sorted(t for t in want if t0 <= t <= T[-1]), [T[-1] + 1, T[-1] + 2, T[-1] + 3], T


def run_long_cases(run, cases, info):
    lm = cases[0]["long"]
    for c in cases:
        set_nticks(c, info)
    outs = run.impl_parallel("c15_impl", [{"cases": [payload_of(c)]} for c in cases])
    terms, meta = [], []
    for c, out in zip(cases, outs):
        r = out["cases"][0]
        run.count(c["nticks"])
        run.dist("stratum.long")
        run.dist("long.%s-segment-is-long.%s.N%d" % ("first" if c["points"][0]["D"] >= lm else "later", c["mode"], c["N"]))
        run.dist("long.segment>=LENGTH_MAX" if max(p["D"] for p in c["points"]) >= lm else "long.segment<LENGTH_MAX")
        bad, clause = oracle(c, r, info)
        run.cov["oracle_evaluations"] += len(r["calls"]) + 1
        run.dist("oracle." + clause)
        run.nontrivial(json.dumps(payload_of(c), sort_keys=True))
        for kind, tick, detail in bad:
            run.violation({"kind": kind, "site": "interpolated-track"}, {
                "case": c, "tick": tick, "observed": detail, "oracle": "closed-form curve from the property text (Fractions), every tick of the run",
                "calls_near": [[x[0], dec(x[1]), dec(x[2]), dec(x[3])] for x in r["calls"] if tick is not None and abs(x[0] - tick) <= 2],
                "exception": r["exc"], "n_calls": len(r["calls"]), "python": snippet(c)})
        if bad or r["exc"] is not None or r["other"]:
            continue
        t0 = oracle_t0(c)
        ticks, silent, T = long_sample_ticks(c, t0, lm)
        by_tick = {x[0]: x for x in r["calls"]}
        toks = Tokens()
        chan = c["channel"]
        evs = ["cev %s %s %s %s" % (fv_in(c["control"], toks), fv_in(p["value"], toks), fv_in(chan, toks), qlit(p["dur"])) for p in c["points"]]
        samples = []
        for t in ticks:
            x = by_tick.get(t)
            if x is None:
                continue
            m, k = mk(dec(x[2]))
            samples.append("(%d, 0, %s, VNum (dq %d %d), %s)" % (t, fv_out(x[1], toks), m, k, fv_out(x[3], toks)))
        cos = []
        if c["mode"] == "cosine":
            seen = set()
            for t in ticks:
                i = max(k for k in range(len(T) - 1) if T[k] < t) if t > t0 else None
                if i is None:
                    continue
                fr = Fraction(t - T[i], c["points"][i]["D"])
                if fr not in seen:
                    seen.add(fr)
                    m, k = mk(math.cos(math.pi * fr.numerator / fr.denominator))
                    cos.append("centry %d %d %d %d" % (fr.numerator, fr.denominator, m, k))
        run.cov["long_segment_ticks_compared_with_the_model"] = run.cov.get("long_segment_ticks_compared_with_the_model", 0) + len(samples)
        terms.append("long_ok %s (cospi_sp [%s]) %d %s [%s] %d %d [%s] %s" % (
            blit(c["mode"] == "linear"), "; ".join(cos), c["N"], "Linear" if c["mode"] == "linear" else "Cosine", "; ".join(evs),
            t0, len(r["calls"]), "; ".join(samples), zlist([t for t in silent if t not in by_tick and t < c["nticks"]])))
        meta.append(c)
    src = HEADER_LONG
    failing = run.coq_failing(src, terms, chunk=1, jobs=4)
    run.cov["traces_validated_against_impl"] += len(terms) - len(failing)
    for i in failing:
        run.violation({"kind": "correspondence", "site": "interpolated-track", "stratum": "long"}, {
            "broken": "correspondence between the closed form spec_at (Sched/InterpAt.v, C15_trace_at) and Track.tick/PInterpolate on a segment of more than "
                      "LENGTH_MAX ticks (number of calls, values at the ticks around LENGTH_MAX, at the segment's end and at the later points, silence after)",
            "case": meta[i], "coq_term": terms[i][:3000], "python": snippet(meta[i])}, found_input=False)


def check(run):
    info = run.impl("c15_impl", {"info": True})
    if info.get("linear") != "linear" or info.get("cosine") != "cosine":
        run.violation({"kind": "mode-names", "site": "constants"}, {
            "case": info, "observed": "INTERPOLATION_LINEAR / INTERPOLATION_COSINE are no longer 'linear' / 'cosine'",
            "python": "import isobar as iso; print(iso.INTERPOLATION_LINEAR, iso.INTERPOLATION_COSINE)"})
        return
    rng = run.rng
    scale = 1 if run.tier == "quick" else 15
    plan = [("basic", 90), ("three-plus", 60), ("awkward", 40), ("sched", 50), ("count", 35), ("loop", 30),
            ("seq", 40), ("reject", 45), ("edge", 40), ("retime", 110), ("supply", 64)]
    cases = []
    # the documented scenario of DESIGN section 6 #10, always present
    fixed = make_case(rng, "awkward", N=100, mode="linear")
    fixed["points"] = [{"kind": "control", "value": v, "D": 29, "dur": 0.29} for v in (0, 29, 0)]
    fixed["control"], fixed["channel"] = 7, 3
    cases.append(fixed)
    for stratum, n in plan:
        for k in range(n * scale):
            # every resolution and both modes in every stratum
            N = NS[k % len(NS)] if k < 2 * len(NS) else None
            mode = ["linear", "cosine"][(k // len(NS)) % 2] if k < 2 * len(NS) else None
            cases.append(make_case(rng, stratum, N=N, mode=mode, sub=SUPPLY[(k + k // len(SUPPLY)) % len(SUPPLY)] if stratum == "supply" else None))
    for i in range(0, len(cases), 500):
        run_cases(run, cases[i:i + 500], info)
    again = run.cov["distribution"].get("supply.same-dict-object-yielded-again", 0)
    if again < 20 * scale:
        raise CheckError("supply stratum: only %d tracks whose event pattern yields the same dict object again (floor %d)" % (again, 20 * scale))
    # segments of LENGTH_MAX ticks and more (the constant of the source under test)
    lm = run.cov["LENGTH_MAX"] = length_max()
    if lm <= 200000:
        run_long_cases(run, [make_long_case(rng, lm, w) for w in ([0, 1] if run.tier == "quick" else [0, 1, 0, 1, 0])], info)
    else:
        run.discard("Pattern.LENGTH_MAX = %d: a segment beyond the limit is too long for this check" % lm)
    run.cov["exhaustive"] = False
    run.cov["rule"] = ("one case = one interpolated track on its own Timeline, ticked manually from tick 0 to 4 ticks past the expected end; "
                       "evaluations = ticks executed; distinct by the full schedule() payload; non-trivial = at least one control call or an exception. "
                       "Tick indices, control and channel compared exactly; values exactly where the exact value is a double (linear), else within 1e-9.")


def replay(run, doc):
    case = doc.get("case")
    if not isinstance(case, dict) or "points" not in case:
        print("replay: re-running the whole check")
        if run.build():
            check(run)
        return run.finish()
    info = run.impl("c15_impl", {"info": True})
    set_nticks(case, info)
    r = run.impl("c15_impl", {"cases": [payload_of(case)]})["cases"][0]
    bad, clause = oracle(case, r, info)
    for b in bad:
        print("REPLAY-FAILS:", b)
    d = None
    if coq_compare(run, [case], [r], info):
        d = coq_diff(run, case, r, info)
        print("REPLAY-FAILS: model/implementation differ first at", d)
    if bad or d:
        print("VIOLATION property=C15 replay=(replayed)")
        return 1
    print("replay: the case passes (oracle clause: %s)" % clause)
    return 0

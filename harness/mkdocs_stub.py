#!/venv/bin/python
"""developer tool: write docs/<ID>.md for a property that has none, from the check's META block, the theorem names of
Props/<ID>.v and the seeded-change results (never overwrites an existing file)."""
import importlib, json, os, re, sys
HERE = os.path.dirname(os.path.abspath(__file__)); VERIF = os.path.dirname(HERE)
sys.path.insert(0, HERE); sys.dont_write_bytecode = True
for pid in sys.argv[1:]:
    out = os.path.join(VERIF, "docs", pid + ".md")
    if os.path.exists(out):
        print("exists:", out); continue
    m = importlib.import_module(pid.lower())
    prop = [json.loads(l) for l in open(os.path.join(VERIF, "properties.jsonl")) if json.loads(l)["id"] == pid][0]
    txt = open(os.path.join(VERIF, "coq", "Props", pid + ".v")).read()
    names = re.findall(r"^(?:Theorem|Corollary|Example|Lemma)\s+([A-Za-z0-9_']+)", txt, re.M)
    L = ["# %s — %s" % (pid, prop["title"]), "", "**What the check claims** (from `harness/%s.py`): %s" % (pid.lower(), m.META["text"]), "",
         "**Trusted / modelled, not verified:** %s" % m.META["note"], "",
         "**Theorems of `coq/Props/%s.v`** (each followed by `Print Assumptions`, all closed under the global context): %s." % (pid, ", ".join("`%s`" % n for n in names)), ""]
    kf = []
    for p in [os.path.join(VERIF, "known_findings.json")] + [os.path.join(VERIF, "known_findings.d", pid + ".json")]:
        if os.path.exists(p):
            kf += [k for k in json.load(open(p)) if k["property"] == pid]
    if kf:
        L += ["**Defects found by this check:**", ""] + ["* (%s) %s" % (k["status"], k["what"]) for k in kf] + [""]
    rows = []
    sd = os.path.join(VERIF, "seeded")
    for nm in sorted(os.listdir(sd)):
        mp = os.path.join(sd, nm, "meta.json")
        if nm.startswith(pid + "-") and os.path.exists(mp):
            mm = json.load(open(mp)); ran = mm.get("ran", {})
            kinds = sorted(set((v.get("signature") or {}).get("kind", "?") for v in ran.get("violation_kinds", [])))
            head = re.sub(r"\s+", " ", mm.get("notes_head", "")).replace("|", "/")[:220]
            rows.append("| %s | %s | %s | %s |" % (nm, head, "caught" if ran.get("caught") else "missed", ", ".join(kinds) + ("; " + mm["strengthened"] if mm.get("strengthened") else "")))
    if rows:
        L += ["**Seeded changes** (`seeded/%s-*`, written by engineers who saw only the property text):" % pid, "", "| id | change | result | reported as |", "|---|---|---|---|"] + rows + [""]
    open(out, "w").write("\n".join(L))
    print("wrote", out)

"""C02 — every note-on is released exactly once and on time; no stuck notes.
Theorems: coq/Props/C02.v (conservation of sounding notes over all histories, silence, on-time release, no early stop).
Correspondence: lifecycle histories (schedule / update / mute / unmute / unschedule / clear / nudge interleaved with ticks,
faulting streams and devices, both tolerance modes, stop-when-done) on isobar's Timeline and on the model.
Oracle: trace-level pairing of note-ons and note-offs with exact release ticks."""
from common import *
import sched_common as S
import sched_gen as G
from fractions import Fraction as F
from math import ceil

PROP = "C02"
META = {

 "engine": "S-scheduler",
 "text": "Coq theorems (Props/C02.v) about the executable model of Timeline/Track (Sched/Model.v), over ALL histories - any interleaving of ticks with schedule/update/mute/unmute/unschedule/clear/nudge, calls made from action callbacks, streams that raise at any index, device faults, both tolerance modes (induction over the history, no bound): for every weight on (note, channel), pending releases + note-offs sent = note-ons sent, hence #note-ons - #note-offs = #pending entries >= 0 for every key after every history (no stuck note, no double release); a stop-when-done timeline stops only with nothing pending; inactive/muted/zero-or-None amplitude or gate voices emit nothing and every other voice emits exactly one note-on and registers one release due duration*gate later; each release happens on the first tick at or after its due time (never early, never late, never in the onset's tick). Tied to /repo on every run by a correspondence check of random lifecycle histories executed on the real Timeline with a recording device and on the model inside Coq, plus an independent trace oracle (FIFO pairing per (note, channel), exact release tick, empty sounding set at StopIteration and at the end). Float layer: Props/C02Float.v proves that the note-off due test as the source writes it decides like the exact comparison at every resolution (also where tick times are decimal ties of round(., 8): 512 | ticks_per_beat); a stratum of 130 histories at resolutions 512..5120 with sounding lengths that are whole ticks written as inexact float products (non-dyadic duration, gate = (j/tpb)/duration) and onsets on many ticks is judged by the exact-fraction release tick and reports the tie defect repaired by 9bb39e5 if it returns. Several output devices (Sched/Devices.v, Props/C02Devices.v: a track on device d and channel c is the model's track on the tagged channel c + 16 d; C02_device_conservation, C02_device_pending_is_sounding: the pairing holds PER DEVICE over all histories): 140 histories with 2-3 recording devices (tracks on different devices, named tracks re-scheduled with another output_device while a note sounds, updates, unschedule/clear) and 120 histories that blank a running track (update(None), update({}), schedule({}, name=existing)) mid-note and later give it events again are judged per device by the same oracle and compared with the model.",
 "note": "Trusted: Coq kernel+VM; the Python harness. Modelled, not verified: float arithmetic of isobar (exact integer units in the model); events are taken already resolved (C03 covers resolution); a scalar amplitude of None (TypeError in isobar) and callbacks that unschedule tracks from inside a tick are outside the generated domain. On-time release is proved on the track's clock per scheduler cycle; that track and timeline clocks run in step is validated by the correspondence, not proved.",
}

OPTS = {"faults": True, "dev_faults": True, "counts": True, "quantize": True, "callbacks": True, "cb_raise": True,
        "rwd": True, "names": True, "silent": True, "controls": True}


def oracle(sc, pit, r):
    """judge the implementation's trace alone; returns list of (kind, detail)"""
    tpb = sc["tpb"]
    tick = F(1, tpb)
    bad = []
    sounding = {}
    eff = 0                 # number of completed ticks so far = timeline time / tick
    tainted = False         # an exception escaped tick(): track and timeline clocks are out of step from here on
    idx = S.tick_indices(sc)
    obs = {i: (calls, res, ids) for i, calls, res, ids in r["obs"]}
    for i, (kind, _) in enumerate(idx):
        calls, res, ids = obs.get(i, ([], "ok", None))
        for c in calls:
            if c[0] == "on":
                key = (c[1], c[3])
                v = pit.voices.get(key)
                if v is None or not v["on"] or c[2] != v["vel"]:
                    bad.append(("spurious-note-on", "note_on %r (velocity %r) on op %d: this voice is a rest / inactive / zero amplitude or gate, or unknown" % (key, c[2], i)))
                sounding.setdefault(key, []).append((eff, tainted))
            elif c[0] == "off":
                key = (c[1], c[2])
                if not sounding.get(key):
                    bad.append(("note-off-without-note-on", "note_off %r on op %d with no such note sounding" % (key, i)))
                    continue
                on_eff, on_taint = sounding[key].pop(0)
                v = pit.voices.get(key)
                if v is not None and v["glen"] is not None and not tainted and not on_taint:
                    want = on_eff + max(1, ceil(v["glen"] / tick))
                    if eff != want:
                        bad.append(("release-tick", "note %r on at tick %d, duration*gate = %s beats at %d ticks/beat: released on tick %d, expected tick %d"
                                    % (key, on_eff, v["glen"], tpb, eff, want)))
        if kind == "tick":
            if res == "ok":
                eff += 1
            elif res == "stop":
                left = {k: v for k, v in sounding.items() if v}
                if left:
                    bad.append(("stopped-while-sounding", "tick() raised StopIteration on op %d while %r still sounding" % (i, sorted(left))))
            elif res == "exc":
                tainted = True
    # a note still sounding when the history ends is stuck only if its release was due on a tick that has been run
    # (a cyclic stream, or a callback that keeps scheduling tracks, legitimately leaves young notes sounding)
    if not tainted:
        overdue = []
        for key, lst_ in sorted(sounding.items()):
            v = pit.voices.get(key)
            for on_eff, on_taint in lst_:
                if on_taint or v is None or v["glen"] is None:
                    continue
                due = on_eff + max(1, ceil(v["glen"] / tick))
                if due <= eff - 1:
                    overdue.append((key, on_eff, due))
        if overdue:
            bad.append(("stuck-note", "still sounding after %d ticks although their release was due: %r (key, onset tick, due tick)"
                        % (eff, overdue[:6])))
    return bad


# ---- the float layer: releases that fall on a decimal tie of round(., 8) ---------------------------------------------
# When 512 divides ticks_per_beat, tick times k/tpb with exactly nine decimals (k/512: every odd k) are ties of round(x, 8).
# A sounding length duration*gate that is a whole number of ticks MATHEMATICALLY but an inexact float product puts the release
# time a last bit beside such a tie; a due test that rounds both operands separately then says "not due" on the exact tick.
TIE_TPBS = [512, 512, 1024, 1536, 2560, 2560, 5120]
TIE_DURS = [F(11, 10), F(3, 10), F(7, 3), F(7, 10), F(9, 10), F(13, 10), F(1, 3), F(2, 3), F(1, 5), F(1, 10), F(6, 5), F(17, 10),
            F(5, 7), F(3, 7), F(1, 9), F(21, 10), F(1, 6), F(4, 3)]


def gen_tie_release(rng):
    """1-3 tracks started (quantize = delay = 0) on arbitrary ticks of a timeline whose resolution is a multiple of 512; every
    note has a non-dyadic duration d and the gate (j/tpb)/d, so that duration*gate = j ticks exactly in the rationals and an
    inexact product in binary64.  Returns (scenario, Pitches) in the format of sched_gen.gen_lifecycle."""
    tpb = rng.choice(TIE_TPBS)
    tick = F(1, tpb)
    pit = G.Pitches()
    ops, done, end = [], 0, 0
    starts = sorted(rng.choice([0, 0, 1, 2, 3, 5, rng.randint(0, 64), rng.randint(0, tpb), rng.randint(0, 2 * tpb)])
                    for _ in range(rng.randint(1, 3)))
    for chan, k0 in enumerate(starts):
        n = rng.randint(2, 5)
        items, N = [], F(0)
        for i in range(n):
            last = i == n - 1
            d = rng.choice(TIE_DURS if last else [x for x in TIE_DURS if x * tpb <= 900] or [F(1, 10)])
            r = rng.random()
            j = (2 * rng.randint(0, 7) + 1 if r < 0.35 else 2 * rng.randint(0, 350) + 1 if r < 0.85 else rng.randint(1, 700))
            if not last and r >= 0.35 and rng.random() < 0.5:
                j = min(j, int(d * tpb))               # mostly released before the next event
            nv = 1 if rng.random() < 0.8 else 2
            base = pit.take(nv)
            if base is None:
                break
            if rng.random() < 0.12 and not last:
                items.append({"k": "note", "dur": d, "note": None, "amp": 64, "gate": [1, 1], "chan": chan})     # a rest shifts the onsets
                N += d
                continue
            g = F(j, tpb) / d
            amp = rng.choice([1, 64, 127])
            notes = [base + v for v in range(nv)]
            items.append({"k": "note", "dur": d, "note": notes if nv > 1 else base, "amp": amp,
                          "gate": [g.numerator, g.denominator], "chan": chan})
            for nt in notes:
                pit.voices[(nt, chan)] = {"glen": F(j, tpb), "on": True, "vel": amp, "track": chan}
            end = max(end, k0 + ceil(N / tick) + j)
            N += d
        if not items:
            continue
        if k0 > done:
            ops.append(["tick", k0 - done]); done = k0
        ops.append(G.sched_op(G.stream(items, False, rng.choice(["scripted", "psequence", "pdict"])), F(0), F(0), None, rng.random() < 0.5))
    ops.append(["tick", max(1, end + 3 - done)])
    return {"tpb": tpb, "config": {"stop_when_done": False, "ignore": False}, "callbacks": [], "ops": ops, "stratum": "tie-release"}, pit


# ---- several output devices; updates that blank a running track ---------------------------------------------------------
DEV_OPTS = {"faults": False, "callbacks": False, "controls": True, "silent": True, "cyclic_share": 0.6,
            "gates": [(1, 4), (1, 2), (1, 1), (3, 2), (2, 1), (2, 1), (4, 1), (8, 1)]}


def gen_devices(rng):
    """A timeline with 2-3 output devices.  Channel c + 16 * d of the scenario = MIDI channel c on device d (sched_impl.py), so
    the observation, the oracle's (note, channel) keys and the model's calls are all PER DEVICE.  Tracks on different devices
    (the same MIDI channel on several of them), named tracks re-scheduled by name with another output_device while a note
    sounds (immediately or quantized; the unchanged library leaves the track on its device), updates, unschedule / clear
    with notes pending.  Returns (scenario, Pitches)."""
    tpb = rng.choice([1, 7, 10, 24, 96, 480])
    tick = F(1, tpb)
    K = rng.choice([2, 2, 3])
    pit = G.Pitches()
    cfg = {"devices": K, "stop_when_done": False, "ignore": rng.random() < 0.5}
    ops, op_device = [], {}
    created, dev_of_track, named = 0, {}, {}          # named: name -> track index, for tracks still on the timeline
    midi = rng.randrange(16)

    def stream_for(d):
        c = (midi if rng.random() < 0.6 else rng.randrange(16)) + 16 * d
        return G.lifecycle_stream(rng, tpb, pit, c, DEV_OPTS, 0)

    def qd():
        return rng.choice([None, F(0), F(0), F(1), F(1, 2), F(1, 4)]), rng.choice([None, F(0), F(0), F(0), F(1, 4), tick])

    def schedule(name=None, dev=None):
        nonlocal created
        if name is not None and name in named:                       # replace: the existing track gets the new stream
            t = named[name]
            d_new = dev if dev is not None else rng.randrange(K)
            q, d = qd()
            ops.append(G.sched_op(stream_for(dev_of_track[t]), q, d, None, False, name, True))
            op_device[str(len(ops) - 1)] = d_new
            return
        d0 = rng.randrange(K) if dev is None else dev
        q, d = qd()
        rwd = False if name is not None else rng.random() < 0.7
        ops.append(G.sched_op(stream_for(d0), q, d, None, rwd, name, True))
        op_device[str(len(ops) - 1)] = d0
        dev_of_track[created] = d0
        if name is not None:
            named[name] = created
        created += 1

    for i in range(rng.randint(2, 3)):
        schedule(name=i if rng.random() < 0.75 else None)
    used = 0
    for _ in range(rng.randint(3, 7)):
        n = min(500 - used, rng.choice([1, 2, 3, tpb // 2 + 1, tpb, tpb + 1, 2 * tpb, rng.randint(1, 3 * tpb)]))
        if n <= 0:
            break
        ops.append(["tick", n]); used += n
        r = rng.random()
        t = rng.randrange(created)
        if r < 0.45 and named:
            name = rng.choice(sorted(named))
            schedule(name=name, dev=rng.choice([d for d in range(K) if d != dev_of_track[named[name]]]))
        elif r < 0.6:
            q, d = qd()
            ops.append(["update", t, stream_for(dev_of_track[t]), q, d, None])
        elif r < 0.7:
            ops.append(["unschedule", t])
            named = {k: v for k, v in named.items() if v != t}
        elif r < 0.75:
            ops.append(["clear"]); named = {}
        elif r < 0.85:
            ops.append([rng.choice(["mute", "unmute"]), t])
        else:
            schedule(name=rng.choice([None, 0, 1, 2]))
    longest = max([v["glen"] for v in pit.voices.values() if v["glen"] is not None] + [F(1)])
    ops.append(["tick", min(int(longest / tick) + 3 * tpb + 5, 6000)])
    return {"tpb": tpb, "config": cfg, "callbacks": [], "ops": ops, "op_device": op_device, "stratum": "devices"}, pit


def gen_blank(rng):
    """Updates that leave a RUNNING track without events - update(None), update({}), schedule(None / {}, name=existing) - while a
    note sounds, then ticks, then (often) an update that gives it events again; also the documented use: a track scheduled
    empty and filled later.  On the unchanged library the blanked track raises InvalidEventException at its next event; in the
    tolerant mode it is removed and its pending notes are released by the timeline on time.  Returns (scenario, Pitches)."""
    tpb = rng.choice([1, 7, 10, 24, 96, 480])
    tick = F(1, tpb)
    pit = G.Pitches()
    cfg = {"stop_when_done": False, "ignore": rng.random() < 0.85}
    ops = []
    blank = lambda: G.stream([{"k": "raise_ctor"}], True, rng.choice(["blank_none", "blank_dict"]))
    qd = lambda: (rng.choice([None, F(0), F(0), F(0), F(1), F(1, 2)]), rng.choice([None, F(0), F(0), F(0), F(1, 4), tick]))
    ntr = rng.randint(1, 3)
    names = {}
    for i in range(ntr):
        name = i if rng.random() < 0.5 else None
        if rng.random() < 0.15:
            ops.append(G.sched_op(blank(), F(0), F(0), None, False, name, True))        # scheduled empty, filled later
        else:
            q, d = qd()
            ops.append(G.sched_op(G.lifecycle_stream(rng, tpb, pit, i, DEV_OPTS, 0), q, d, None, rng.random() < 0.5, name, True))
        if name is not None:
            names[name] = i
    used = 0
    for step in range(rng.randint(2, 6)):
        n = min(400 - used, rng.choice([1, 2, 3, tpb // 2 + 1, tpb, tpb + 1, 2 * tpb, rng.randint(1, 2 * tpb)]))
        if n <= 0:
            break
        ops.append(["tick", n]); used += n
        t = rng.randrange(ntr)
        r = rng.random()
        q, d = qd()
        if r < 0.5:
            if names and rng.random() < 0.3:
                name = rng.choice(sorted(names))
                ops.append(G.sched_op(blank(), q, d, None, False, name, True))
            else:
                ops.append(["update", t, blank(), q, d, None])
        elif r < 0.9:
            ops.append(["update", t, G.lifecycle_stream(rng, tpb, pit, t, DEV_OPTS, 0), q, d, None])
        else:
            ops.append([rng.choice(["mute", "unmute", "unschedule"]), t])
    longest = max([v["glen"] for v in pit.voices.values() if v["glen"] is not None] + [F(1)])
    ops.append(["tick", min(int(longest / tick) + 3 * tpb + 5, 6000)])
    return {"tpb": tpb, "config": cfg, "callbacks": [], "ops": ops, "stratum": "blank"}, pit


def check(run):
    rng = run.rng
    n = 2000 if run.tier == "quick" else 20000
    scs, pits = [], []
    for _ in range(n):
        sc, pit = G.gen_lifecycle(rng, OPTS)
        scs.append(sc); pits.append(pit)
    for _ in range(130 if run.tier == "quick" else 2600):
        sc, pit = gen_tie_release(rng)
        scs.append(sc); pits.append(pit)
    for _ in range(140 if run.tier == "quick" else 3000):
        sc, pit = gen_devices(rng)
        scs.append(sc); pits.append(pit)
    for _ in range(120 if run.tier == "quick" else 3000):
        sc, pit = gen_blank(rng)
        scs.append(sc); pits.append(pit)
    fin = [G.finalize(sc) for sc in scs]
    results = S.run_impl(run, fin, shards=14)
    flagged = set()
    for i, (sc, pit, fsc, r) in enumerate(zip(scs, pits, fin, results)):
        run.count()
        run.dist("tpb.%d" % sc["tpb"])
        if sc.get("stratum") in ("devices", "blank"):
            run.dist("stratum." + sc["stratum"])
            for pos, o in enumerate(sc["ops"]):
                if o[0] in ("schedule", "update") and o[1 if o[0] == "schedule" else 2]["form"].startswith("blank"):
                    run.dist("blank." + o[0] + "." + o[1 if o[0] == "schedule" else 2]["form"])
                if sc["stratum"] == "devices" and o[0] == "schedule" and o[6] is not None:
                    run.dist("devices.named-schedule")
            if sc["stratum"] == "devices":
                run.dist("devices.%d" % sc["config"]["devices"])
        elif sc.get("stratum"):
            run.dist("stratum." + sc["stratum"])
            if fsc["U"] * 2 > 10 ** 8:
                raise CheckError("tie stratum: U = %d is too large for the exactness lemmas" % fsc["U"])
            for v in pit.voices.values():
                k = int(v["glen"] * sc["tpb"])
                run.dist("tie.length." + ("odd-ticks" if k % 2 else "even-ticks"))
        for o in sc["ops"]:
            run.dist("op." + o[0])
        if "driver_error" in r:
            flagged.add(i)
            run.violation({"kind": "driver-error", "site": "Timeline"}, {"scenario": fsc, "observed": r}, found_input=True)
            continue
        bad = oracle(sc, pit, r)
        run.cov["oracle_evaluations"] += 1
        n_on = sum(1 for _, calls, _, _ in r["obs"] for c in calls if c[0] == "on")
        # non-trivial: a note was sounding across a lifecycle operation or a fault
        if n_on >= 1 and len(sc["ops"]) > 3:
            run.nontrivial(json.dumps(fsc, sort_keys=True))
        if any(res != "ok" for _, _, res, _ in r["obs"]):
            run.dist("has-nonok-result")
        seen = set()
        for kind, detail in bad:
            if kind in seen:
                continue
            seen.add(kind); flagged.add(i)
            run.violation({"kind": kind, "site": "Timeline/Track"}, {
                "scenario": fsc, "observed": detail, "oracle": "trace pairing oracle (FIFO per (note, channel), exact release tick)",
                "trace_head": r["obs"][:25], "python": S.python_snippet(fsc)})
        if i < 2:
            run.sample({"ops": [o[0] if o[0] != "tick" else o for o in sc["ops"]], "config": sc["config"], "first_observations": r["obs"][:5]})
    bad = S.model_disagreements(run, fin, results, chunk=30)
    run.cov["traces_validated_against_impl"] = len(fin) - len(bad)
    for i in bad:
        if i in flagged:
            continue
        S.report_disagreement(run, fin[i], results[i], "correspondence", "Timeline/Track")
    run.cov["rule"] = ("one case = one random lifecycle history (1-4 tracks of notes/chords/rests/controls/actions with gates 1/16..8, "
                       "ops update/mute/unmute/unschedule/clear/schedule/nudge between tick runs, faults, both tolerance modes); "
                       "distinct by scenario text; non-trivial = at least one note-on and at least one lifecycle operation")


def replay(run, doc):
    fsc = doc["scenario"]
    r = S.run_impl(run, [fsc], shards=1)[0]
    bad = S.model_disagreements(run, [fsc], [r]) if "driver_error" not in r else [0]
    print("replay: implementation/model agree:", not bad)
    if bad:
        print("implementation:", json.dumps(r.get("obs", r))[:1500])
        print("model:", S.model_trace(run, fsc)[:1500])
    return 1 if bad else 0

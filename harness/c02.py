"""C02 — every note-on is released exactly once and on time; no stuck notes.
Theorems: coq/Props/C02.v (conservation of sounding notes over all histories, silence, on-time release, no early stop).
Correspondence: lifecycle histories (schedule / update / mute / unmute / unschedule / clear / nudge interleaved with ticks,
faulting streams and devices, both tolerance modes, stop-when-done) on isobar's Timeline and on the model.
Oracle: trace-level pairing of note-ons and note-offs with exact release ticks."""
from common import *
import sched_common as S
import sched_gen as G
from fractions import Fraction as F
from math import ceil

PROP = "C02"
META = {

 "engine": "S-scheduler",
 "text": "Coq theorems (Props/C02.v) about the executable model of Timeline/Track (Sched/Model.v), over ALL histories - any interleaving of ticks with schedule/update/mute/unmute/unschedule/clear/nudge, calls made from action callbacks, streams that raise at any index, device faults, both tolerance modes (induction over the history, no bound): for every weight on (note, channel), pending releases + note-offs sent = note-ons sent, hence #note-ons - #note-offs = #pending entries >= 0 for every key after every history (no stuck note, no double release); a stop-when-done timeline stops only with nothing pending; inactive/muted/zero-or-None amplitude or gate voices emit nothing and every other voice emits exactly one note-on and registers one release due duration*gate later; each release happens on the first tick at or after its due time (never early, never late, never in the onset's tick). Tied to /repo on every run by a correspondence check of random lifecycle histories executed on the real Timeline with a recording device and on the model inside Coq, plus an independent trace oracle (FIFO pairing per (note, channel), exact release tick, empty sounding set at StopIteration and at the end). Float layer: Props/C02Float.v proves that the note-off due test as the source writes it decides like the exact comparison at every resolution (also where tick times are decimal ties of round(., 8): 512 | ticks_per_beat); a stratum of 130 histories at resolutions 512..5120 with sounding lengths that are whole ticks written as inexact float products (non-dyadic duration, gate = (j/tpb)/duration) and onsets on many ticks is judged by the exact-fraction release tick and reports the tie defect repaired by 9bb39e5 if it returns.",
 "note": "Trusted: Coq kernel+VM; the Python harness. Modelled, not verified: float arithmetic of isobar (exact integer units in the model); events are taken already resolved (C03 covers resolution); a scalar amplitude of None (TypeError in isobar) and callbacks that unschedule tracks from inside a tick are outside the generated domain. On-time release is proved on the track's clock per scheduler cycle; that track and timeline clocks run in step is validated by the correspondence, not proved.",
}

OPTS = {"faults": True, "dev_faults": True, "counts": True, "quantize": True, "callbacks": True, "cb_raise": True,
        "rwd": True, "names": True, "silent": True, "controls": True}


def oracle(sc, pit, r):
    """judge the implementation's trace alone; returns list of (kind, detail)"""
    tpb = sc["tpb"]
    tick = F(1, tpb)
    bad = []
    sounding = {}
    eff = 0                 # number of completed ticks so far = timeline time / tick
    tainted = False         # an exception escaped tick(): track and timeline clocks are out of step from here on
    idx = S.tick_indices(sc)
    obs = {i: (calls, res, ids) for i, calls, res, ids in r["obs"]}
    for i, (kind, _) in enumerate(idx):
        calls, res, ids = obs.get(i, ([], "ok", None))
        for c in calls:
            if c[0] == "on":
                key = (c[1], c[3])
                v = pit.voices.get(key)
                if v is None or not v["on"] or c[2] != v["vel"]:
                    bad.append(("spurious-note-on", "note_on %r (velocity %r) on op %d: this voice is a rest / inactive / zero amplitude or gate, or unknown" % (key, c[2], i)))
                sounding.setdefault(key, []).append((eff, tainted))
            elif c[0] == "off":
                key = (c[1], c[2])
                if not sounding.get(key):
                    bad.append(("note-off-without-note-on", "note_off %r on op %d with no such note sounding" % (key, i)))
                    continue
                on_eff, on_taint = sounding[key].pop(0)
                v = pit.voices.get(key)
                if v is not None and v["glen"] is not None and not tainted and not on_taint:
                    want = on_eff + max(1, ceil(v["glen"] / tick))
                    if eff != want:
                        bad.append(("release-tick", "note %r on at tick %d, duration*gate = %s beats at %d ticks/beat: released on tick %d, expected tick %d"
                                    % (key, on_eff, v["glen"], tpb, eff, want)))
        if kind == "tick":
            if res == "ok":
                eff += 1
            elif res == "stop":
                left = {k: v for k, v in sounding.items() if v}
                if left:
                    bad.append(("stopped-while-sounding", "tick() raised StopIteration on op %d while %r still sounding" % (i, sorted(left))))
            elif res == "exc":
                tainted = True
    # a note still sounding when the history ends is stuck only if its release was due on a tick that has been run
    # (a cyclic stream, or a callback that keeps scheduling tracks, legitimately leaves young notes sounding)
    if not tainted:
        overdue = []
        for key, lst_ in sorted(sounding.items()):
            v = pit.voices.get(key)
            for on_eff, on_taint in lst_:
                if on_taint or v is None or v["glen"] is None:
                    continue
                due = on_eff + max(1, ceil(v["glen"] / tick))
                if due <= eff - 1:
                    overdue.append((key, on_eff, due))
        if overdue:
            bad.append(("stuck-note", "still sounding after %d ticks although their release was due: %r (key, onset tick, due tick)"
                        % (eff, overdue[:6])))
    return bad


# ---- the float layer: releases that fall on a decimal tie of round(., 8) ---------------------------------------------
# When 512 divides ticks_per_beat, tick times k/tpb with exactly nine decimals (k/512: every odd k) are ties of round(x, 8).
# A sounding length duration*gate that is a whole number of ticks MATHEMATICALLY but an inexact float product puts the release
# time a last bit beside such a tie; a due test that rounds both operands separately then says "not due" on the exact tick.
TIE_TPBS = [512, 512, 1024, 1536, 2560, 2560, 5120]
TIE_DURS = [F(11, 10), F(3, 10), F(7, 3), F(7, 10), F(9, 10), F(13, 10), F(1, 3), F(2, 3), F(1, 5), F(1, 10), F(6, 5), F(17, 10),
            F(5, 7), F(3, 7), F(1, 9), F(21, 10), F(1, 6), F(4, 3)]


def gen_tie_release(rng):
    """1-3 tracks started (quantize = delay = 0) on arbitrary ticks of a timeline whose resolution is a multiple of 512; every
    note has a non-dyadic duration d and the gate (j/tpb)/d, so that duration*gate = j ticks exactly in the rationals and an
    inexact product in binary64.  Returns (scenario, Pitches) in the format of sched_gen.gen_lifecycle."""
    tpb = rng.choice(TIE_TPBS)
    tick = F(1, tpb)
    pit = G.Pitches()
    ops, done, end = [], 0, 0
    starts = sorted(rng.choice([0, 0, 1, 2, 3, 5, rng.randint(0, 64), rng.randint(0, tpb), rng.randint(0, 2 * tpb)])
                    for _ in range(rng.randint(1, 3)))
    for chan, k0 in enumerate(starts):
        n = rng.randint(2, 5)
        items, N = [], F(0)
        for i in range(n):
            last = i == n - 1
            d = rng.choice(TIE_DURS if last else [x for x in TIE_DURS if x * tpb <= 900] or [F(1, 10)])
            r = rng.random()
            j = (2 * rng.randint(0, 7) + 1 if r < 0.35 else 2 * rng.randint(0, 350) + 1 if r < 0.85 else rng.randint(1, 700))
            if not last and r >= 0.35 and rng.random() < 0.5:
                j = min(j, int(d * tpb))               # mostly released before the next event
            nv = 1 if rng.random() < 0.8 else 2
            base = pit.take(nv)
            if base is None:
                break
            if rng.random() < 0.12 and not last:
                items.append({"k": "note", "dur": d, "note": None, "amp": 64, "gate": [1, 1], "chan": chan})     # a rest shifts the onsets
                N += d
                continue
            g = F(j, tpb) / d
            amp = rng.choice([1, 64, 127])
            notes = [base + v for v in range(nv)]
            items.append({"k": "note", "dur": d, "note": notes if nv > 1 else base, "amp": amp,
                          "gate": [g.numerator, g.denominator], "chan": chan})
            for nt in notes:
                pit.voices[(nt, chan)] = {"glen": F(j, tpb), "on": True, "vel": amp, "track": chan}
            end = max(end, k0 + ceil(N / tick) + j)
            N += d
        if not items:
            continue
        if k0 > done:
            ops.append(["tick", k0 - done]); done = k0
        ops.append(G.sched_op(G.stream(items, False, rng.choice(["scripted", "psequence", "pdict"])), F(0), F(0), None, rng.random() < 0.5))
    ops.append(["tick", max(1, end + 3 - done)])
    return {"tpb": tpb, "config": {"stop_when_done": False, "ignore": False}, "callbacks": [], "ops": ops, "stratum": "tie-release"}, pit


def check(run):
    rng = run.rng
    n = 2000 if run.tier == "quick" else 20000
    scs, pits = [], []
    for _ in range(n):
        sc, pit = G.gen_lifecycle(rng, OPTS)
        scs.append(sc); pits.append(pit)
    for _ in range(130 if run.tier == "quick" else 2600):
        sc, pit = gen_tie_release(rng)
        scs.append(sc); pits.append(pit)
    fin = [G.finalize(sc) for sc in scs]
    results = S.run_impl(run, fin, shards=14)
    flagged = set()
    for i, (sc, pit, fsc, r) in enumerate(zip(scs, pits, fin, results)):
        run.count()
        run.dist("tpb.%d" % sc["tpb"])
        if sc.get("stratum"):
            run.dist("stratum." + sc["stratum"])
            if fsc["U"] * 2 > 10 ** 8:
                raise CheckError("tie stratum: U = %d is too large for the exactness lemmas" % fsc["U"])
            for v in pit.voices.values():
                k = int(v["glen"] * sc["tpb"])
                run.dist("tie.length." + ("odd-ticks" if k % 2 else "even-ticks"))
        for o in sc["ops"]:
            run.dist("op." + o[0])
        if "driver_error" in r:
            flagged.add(i)
            run.violation({"kind": "driver-error", "site": "Timeline"}, {"scenario": fsc, "observed": r}, found_input=True)
            continue
        bad = oracle(sc, pit, r)
        run.cov["oracle_evaluations"] += 1
        n_on = sum(1 for _, calls, _, _ in r["obs"] for c in calls if c[0] == "on")
        # non-trivial: a note was sounding across a lifecycle operation or a fault
        if n_on >= 1 and len(sc["ops"]) > 3:
            run.nontrivial(json.dumps(fsc, sort_keys=True))
        if any(res != "ok" for _, _, res, _ in r["obs"]):
            run.dist("has-nonok-result")
        seen = set()
        for kind, detail in bad:
            if kind in seen:
                continue
            seen.add(kind); flagged.add(i)
            run.violation({"kind": kind, "site": "Timeline/Track"}, {
                "scenario": fsc, "observed": detail, "oracle": "trace pairing oracle (FIFO per (note, channel), exact release tick)",
                "trace_head": r["obs"][:25], "python": S.python_snippet(fsc)})
        if i < 2:
            run.sample({"ops": [o[0] if o[0] != "tick" else o for o in sc["ops"]], "config": sc["config"], "first_observations": r["obs"][:5]})
    bad = S.model_disagreements(run, fin, results, chunk=30)
    run.cov["traces_validated_against_impl"] = len(fin) - len(bad)
    for i in bad:
        if i in flagged:
            continue
        S.report_disagreement(run, fin[i], results[i], "correspondence", "Timeline/Track")
    run.cov["rule"] = ("one case = one random lifecycle history (1-4 tracks of notes/chords/rests/controls/actions with gates 1/16..8, "
                       "ops update/mute/unmute/unschedule/clear/schedule/nudge between tick runs, faults, both tolerance modes); "
                       "distinct by scenario text; non-trivial = at least one note-on and at least one lifecycle operation")


def replay(run, doc):
    fsc = doc["scenario"]
    r = S.run_impl(run, [fsc], shards=1)[0]
    bad = S.model_disagreements(run, [fsc], [r]) if "driver_error" not in r else [0]
    print("replay: implementation/model agree:", not bad)
    if bad:
        print("implementation:", json.dumps(r.get("obs", r))[:1500])
        print("model:", S.model_trace(run, fsc)[:1500])
    return 1 if bad else 0

#!/venv/bin/python
"""Translator: the BODY of parse_notation (isobar/notation/notation.py) - the depth-counter loop - read from the source text
with `ast`, rendered as Gallina -> coq/Generated/TablesNotation.v.  Core: harness/src2coq.py; docs/TRANSLATOR2.md.

  parse_notation(string)  -> src_parse_notation (uword : Z -> bool) (fuel : nat) (string : str) : outcome (list tree)

What is translated: the control skeleton and the depth arithmetic of parse_notation - the if/elif/else on the token, `depth += 1`,
`depth -= 1`, `if depth < 0: raise`, the advance of the string (`string[len(token):]`, `.lstrip()`), the exit test
`if len(string) == 0: break`, the final `if depth > 0: raise ... else: return groups`, and which exceptions the
`try ... except IndexError: raise ValueError` turns into ValueError.
What is NOT translated (it stays in the hand-written model, tied to the code by harness/c20.py only): the three helpers.
A call of a helper is rendered by the model's function for it:
  token = _parser_get_next_token(string)   match next_token uword string with LexTok token _ => ... | LexIndexError => <IndexError> | LexNoMatch => Reject
  _parser_push(obj, groups, depth)         groups <- on_index_error <IndexError> (push (Z.to_nat depth) obj groups)      (in-place mutation of `groups`)
  _parser_token_to_value(token)            token_to_value token
  s.lstrip()                               lstrip s
  <IndexError> = Reject inside `try: ... except IndexError: raise ValueError(...)`, Crash outside; raise ValueError(...) = Reject.
A PSequence is its list of children (`PSequence([])` = [] as the root, Node [] as a pushed object); a str is a list of code
points; `while True:` becomes Notation/PyOutcome.v's loop_break over the variables the loop assigns.
Anything else -> exit 3.  Notation/ParserSrc.v proves src_parse_notation equal to the model's `parse`."""
import ast, sys
from src2coq import Reject, Block, load, top_function, plain_args, body_of, lines_of, write_if_changed, main_wrap

HELPERS = ("_parser_get_next_token", "_parser_push", "_parser_token_to_value")


def is_call(n, name, nargs):
    return isinstance(n, ast.Call) and isinstance(n.func, ast.Name) and n.func.id == name and len(n.args) == nargs and not n.keywords


def raises_value_error(st):
    return isinstance(st, ast.Raise) and st.cause is None and isinstance(st.exc, ast.Call) and isinstance(st.exc.func, ast.Name) \
        and st.exc.func.id == "ValueError"


class NotationBlock(Block):
    in_try = False
    loop_state = None

    def ix(self):
        return "Reject" if self.in_try else "Crash"

    def special_expr(self, n, env):
        if isinstance(n, ast.Constant) and isinstance(n.value, str) and 0 < len(n.value) < 16:
            return ("str", "[" + "; ".join("%d" % ord(c) for c in n.value) + "]")
        if is_call(n, "PSequence", 1) and isinstance(n.args[0], ast.List) and not n.args[0].elts:
            return ("pseq", "[]")
        if is_call(n, "_parser_token_to_value", 1):
            a = self.ex(n.args[0], env)
            if a[0] != "str":
                raise Reject("_parser_token_to_value of a %s" % a[0])
            return ("value", "(token_to_value %s)" % a[1])
        if is_call(n, "len", 1):
            a = self.ex(n.args[0], env)
            if a[0] == "str":
                return ("int", "(Z.of_nat (List.length %s))" % a[1])
            return None
        if isinstance(n, ast.Call) and isinstance(n.func, ast.Attribute) and n.func.attr == "lstrip" and not n.args and not n.keywords:
            a = self.ex(n.func.value, env)
            if a[0] != "str":
                raise Reject(".lstrip() of a %s" % a[0])
            return ("str", "(lstrip %s)" % a[1])
        if isinstance(n, ast.Subscript) and isinstance(n.slice, ast.Slice):
            s, sl = self.ex(n.value, env), n.slice
            if s[0] == "str" and sl.upper is None and sl.step is None and is_call(sl.lower, "len", 1):
                t = self.ex(sl.lower.args[0], env)
                if t[0] == "str":
                    return ("str", "(skipn (List.length %s) %s)" % (t[1], s[1]))
            raise Reject("slice not understood: " + ast.unparse(n))
        if isinstance(n, ast.Compare) and len(n.ops) == 1 and type(n.ops[0]) in (ast.Eq, ast.NotEq):
            saved = list(self.guards)
            a, b = self.ex(n.left, env), self.ex(n.comparators[0], env)
            if a[0] == "str" and b[0] == "str":
                t = "(str_eqb %s %s)" % (a[1], b[1])
                return ("bool", t if isinstance(n.ops[0], ast.Eq) else "(negb %s)" % t)
            self.guards = saved
        return None

    def state_of(self, env):
        return "(" + ", ".join(env[n][1] for n in self.loop_state) + ")"

    def special_stmt(self, st, rest, env, go):
        # token = _parser_get_next_token(string)
        if isinstance(st, ast.Assign) and is_call(st.value, "_parser_get_next_token", 1):
            if not (len(st.targets) == 1 and isinstance(st.targets[0], ast.Name)):
                raise Reject("unexpected target of _parser_get_next_token")
            a = self.ex(st.value.args[0], env)
            if a[0] != "str":
                raise Reject("_parser_get_next_token of a %s" % a[0])
            t = st.targets[0].id
            e2 = dict(env)
            e2[t] = ("str", t)
            return "match next_token uword %s with\n  | LexIndexError => %s\n  | LexNoMatch => Reject\n  | LexTok %s _ => %s\n  end" % (
                a[1], self.ix(), t, go(e2))
        # _parser_push(obj, groups, depth): mutates groups
        if isinstance(st, ast.Expr) and is_call(st.value, "_parser_push", 3):
            obj, seq, depth = st.value.args
            if not isinstance(seq, ast.Name) or env.get(seq.id, ("?",))[0] != "pseq":
                raise Reject("_parser_push into something that is not a local PSequence")
            o, d = self.ex(obj, env), self.ex(depth, env)
            if d[0] != "int":
                raise Reject("_parser_push: depth is a %s" % d[0])
            tree = {"pseq": "(Node %s)", "value": "(Leaf %s)"}.get(o[0])
            if tree is None:
                raise Reject("_parser_push of a %s" % o[0])
            e2 = dict(env)
            e2[seq.id] = ("pseq", seq.id)
            return "bind (on_index_error %s (push (Z.to_nat %s) %s %s)) (fun %s =>\n  %s)" % (
                self.ix(), d[1], tree % o[1], env[seq.id][1], seq.id, go(e2))
        if isinstance(st, ast.Expr) and isinstance(st.value, ast.Call):
            raise Reject("call not understood: " + ast.unparse(st))
        if isinstance(st, ast.Try):
            h = st.handlers
            if not (len(h) == 1 and isinstance(h[0].type, ast.Name) and h[0].type.id == "IndexError" and h[0].name is None
                    and len(h[0].body) == 1 and raises_value_error(h[0].body[0]) and not st.orelse and not st.finalbody
                    and len(st.body) == 1 and isinstance(st.body[0], ast.While)) or self.in_try or self.loop_state:
                raise Reject("try statement not understood")
            return self.true_loop(st.body[0], env, go, True)
        if isinstance(st, ast.While):
            if self.loop_state:
                raise Reject("nested loop")
            return self.true_loop(st, env, go, False)
        if isinstance(st, ast.Break):
            if not self.loop_state or rest:
                raise Reject("break outside the loop / statements after break")
            return "Ok (false, %s)" % self.state_of(env)
        return None

    def true_loop(self, w, env, go, in_try):
        if not (isinstance(w.test, ast.Constant) and w.test.value is True and not w.orelse):
            raise Reject("the loop is not `while True:`")
        assigned = set()
        for n in ast.walk(w):
            if isinstance(n, (ast.Assign, ast.AugAssign)):
                for t in (n.targets if isinstance(n, ast.Assign) else [n.target]):
                    if not isinstance(t, ast.Name):
                        raise Reject("assignment target not understood: " + ast.unparse(t))
                    assigned.add(t.id)
            if isinstance(n, ast.Expr) and is_call(n.value, "_parser_push", 3) and isinstance(n.value.args[1], ast.Name):
                assigned.add(n.value.args[1].id)
            if isinstance(n, (ast.While, ast.For, ast.Try, ast.Return, ast.Continue)) and n is not w:
                raise Reject("%s inside the loop" % type(n).__name__)
        state = [n for n in env if n in assigned]
        local = assigned - set(state)
        if not state:
            raise Reject("loop without state")
        kinds = {n: env[n][0] for n in state}
        inner = {n: (env[n][0], n) if n in state else env[n] for n in env}
        self.in_try, self.loop_state = in_try, state

        def end(e):
            for n in state:
                if e[n][0] != kinds[n]:
                    raise Reject("the loop changes the kind of %s" % n)
            return "Ok (true, %s)" % self.state_of(e)
        body = self.block(list(w.body), inner, end, 0)
        self.in_try, self.loop_state = False, None
        after = {n: v for n, v in inner.items() if n not in local}
        pat = "'(" + ", ".join(state) + ")"
        return "bind (loop_break (fun %s =>\n  %s) fuel (%s)) (fun %s =>\n  %s)" % (
            pat, body, ", ".join(env[n][1] for n in state), pat, go(after))

    def on_raise(self, st, env):
        if not raises_value_error(st):
            raise Reject("raise of something else than ValueError(...)")
        return "Reject"

    def on_return(self, v, env):
        if v[0] != "pseq":
            raise Reject("parse_notation returns a %s" % v[0])
        return "Ok %s" % v[1]


def main(out_path):
    tree = load("isobar/notation/notation.py")
    for h in HELPERS:
        top_function(tree, h)                     # each helper is defined exactly once, at the top level, undecorated
    for n in ast.walk(tree):
        if isinstance(n, ast.Name) and n.id in HELPERS + ("PSequence", "len", "ValueError", "IndexError") and not isinstance(n.ctx, ast.Load):
            raise Reject("%s is rebound" % n.id)
    fn = top_function(tree, "parse_notation")
    (string,) = plain_args(fn, 1)
    for n in ast.walk(fn):
        if isinstance(n, (ast.Yield, ast.YieldFrom, ast.Await, ast.With, ast.Global, ast.Nonlocal, ast.Lambda, ast.For, ast.Delete,
                          ast.Import, ast.ImportFrom, ast.Assert)) or (isinstance(n, ast.FunctionDef) and n is not fn):
            raise Reject("parse_notation: %s" % type(n).__name__)
    b = NotationBlock(fn, reserved={"uword", "push", "bind", "next_token", "lstrip", "token_to_value", "str_eqb", "loop_break",
                                    "on_index_error", "Node", "Leaf", "Ok", "Reject", "Crash", "skipn", "LexTok", "LexNoMatch",
                                    "LexIndexError", "str", "tree", "outcome"})

    def fall_off(e):
        raise Reject("parse_notation can fall off its end")
    value = b.run(body_of(fn), {string: ("str", string)}, fall_off)
    text = ("(* GENERATED by harness/gen_tables_notation.py from the source text of isobar/notation/notation.py, lines %s (def parse_notation).\n"
            "   Do not edit.  The helpers _parser_get_next_token / _parser_push / _parser_token_to_value and str.lstrip are rendered by\n"
            "   next_token / push / token_to_value / lstrip of Notation/Lexer.v, Notation/Parser.v; loop_break, on_index_error: Notation/PyOutcome.v. *)\n"
            "From Isobar Require Import Base.Prelude Notation.Lexer Notation.Parser Notation.PyOutcome.\n\n"
            "Definition src_parse_notation (uword : Z -> bool) (fuel : nat) (%s : str) : outcome (list tree) :=\n  %s.\n"
            % (lines_of(fn), string, value))
    write_if_changed(out_path, text, "tables-notation")


if __name__ == "__main__":
    main_wrap("gen_tables_notation", main)

"""C14 — clock domains stay in ratio; the internal clock holds tempo under delay.
Theorems: coq/Props/C14.v over the models coq/Clock/{Multiplier,ClockRun,MidiIn,MidiInTimed,MidiInWired}.v.
Correspondence (every run): make_clock_multiplier on ALL ordered rate pairs up to 1920 with one dividing the other
(+ sampled non-dividing pairs, None/0 rates), Timeline.tick() with 1-3 recording devices (and a MidiOutputDevice on a
fake port), Clock.run against a scripted virtual clock (jitter, stalls, tempo changes from the callback and between
wake-ups, exact-boundary dyadic scripts), MidiInputDevice._callback on message sequences under a virtual wall clock
(gaps from microseconds to hours, time standing still / going backwards), the MidiInputDevice wired to a real Timeline
(stop/start/songpos messages and user-level timeline.stop()/start()/reset() travelling Timeline -> clock_source and back,
followed by further clock messages), ONE clock run 2-4 times with virtual time passing while it is stopped, each compared inside Coq
(vm_compute) with the model.  Oracle: closed forms in exact arithmetic (fractions.Fraction) from the property text."""
from common import *
import math

PROP = "C14"
MAXRATE = 1920
META = {
 "engine": "S-scheduler",
 "text": "Coq theorems (Props/C14.v, closed under the global context) prove, for ALL positive rates below 10^8 and all run lengths: after n timeline ticks a device has received exactly ceil(n*out/in) ticks (out | in: one tick on timeline tick 0 and then on every (in/out)-th, so every window of in/out ticks holds exactly one; in | out: exactly out/in per tick; any window of `in` timeline ticks = one beat holds exactly `out` device ticks, hence 24 MIDI clocks per beat), the code's round(pos, 8) > 1 test agrees with the exact comparison, a pair is refused on the first next() exactly when neither rate divides the other and never otherwise, a device without a rate gets one tick per tick; for the internal clock, for ANY non-decreasing sequence of clock readings (arbitrary lateness, stalls) the total number of ticks delivered after each wake-up is floor((t - t0)/delta) (none dropped or doubled), after a tempo change the ticks follow the new duration exactly from the next tick, and an external MIDI clock produces exactly one tick per clock message (start/stop/songpos 0 -> start/stop/reset, nothing else ticks) whatever the wall-clock readings the callback takes for its tempo estimate (any integers: equal, decreasing, microseconds or hours apart); on a steady clock the estimate is exactly 2.5/interval bpm. The models are tied to the repository on every run: make_clock_multiplier on every ordered dividing pair up to 1920 (exhaustive) and sampled non-dividing pairs, Timeline.tick with 1-3 devices incl. a MidiOutputDevice on a fake port, Clock.run on a scripted virtual clock, MidiInputDevice._callback with the time module it sees replaced by a scripted clock (13 time profiles); all compared inside Coq (vm_compute) and judged by an independent exact-arithmetic oracle that supplies the failing input. With the device wired to a real Timeline (Clock/MidiInWired.v: the callback composed with the Timeline's reactions, which call back into the device — Timeline.stop() -> clock_source.stop(), Timeline.start() -> clock_source.run()) the number of Timeline.tick() calls equals the number of clock messages after every event of ANY history of messages and user-level timeline.stop()/start()/reset() calls, and the k-th clock message carries the device ticks of the k-th tick of an uninterrupted timeline (C14_midi_wired_*); checked on every run against a real Timeline clocked by a MidiInputDevice on a fake port, with stop/start/songpos messages and user-level calls followed by further clock messages. Re-configuration after construction (Clock/Reconfig.v): when the timeline's rate has changed (clock source replaced by a Clock / DummyClock / MidiInputDevice of another PPQN, ticks_per_beat assigned) the devices are ticked exactly as on a timeline built at the new rate, send_clock switches never change the device.tick() calls and decide only whether a pulse reaches the port, and a replacing Clock made without a target delivers floor(elapsed / new tick duration) ticks whatever the old rate was (C14_reconfig_*, C14_send_clock_*, C14_replaced_clock); checked on every run on histories of ticks, rate changes, added / replaced devices and send_clock switches, on Clock.run scripts whose clock replaced another, and on a MIDI output switched on after it was attached. One clock object run several times (Clock/Rerun.v, Props/C14Rerun.v): for ALL lists of runs with any pauses between them and the tempo possibly changed while stopped, every run delivers floor(elapsed since that run began / tick duration) ticks and the anchor left by earlier runs never matters (C14_rerun_*); checked on every run on scripts of 2-4 runs of one Clock / Timeline, stopped from a tick callback or from outside, with virtual time passing in between.",
 "note": "Partial in the DESIGN sense: threads, time.sleep and the OS scheduler are outside the model (the theorem covers every sequence of readings, not the mechanism producing them); float rounding of `pos`/`clock0` accumulation is validated by the correspondence runs (readings kept >= 2e-6 s from deadlines except in the exactly-representable dyadic stratum), not proved; warpers and jitter>0 are not modelled; the tempo estimate of MidiInputDevice is modelled exactly and compared with relative tolerance 1e-9 on strictly increasing readings only. Trusted: Coq kernel + VM; the Python harness; Python int //, % = Z.div/Z.modulo.",
}
HEADER = """From Isobar Require Import Base.Prelude Clock.Multiplier Clock.ClockRun Clock.MidiIn.
"""
HEADER_MIDI = """From Coq Require Import QArith.
From Isobar Require Import Base.Prelude Clock.Multiplier Clock.ClockRun Clock.MidiIn Clock.MidiInTimed.
Local Open Scope Z_scope.
"""
SITE_MULT = "make_clock_multiplier"


def rlit(r):
    return "None" if r is None else "(Some %s)" % zlit(r)


def plist(pairs):
    return "[" + "; ".join("(%s, %s)" % (zlit(a), zlit(b)) for a, b in pairs) + "]"


def truthy(r):
    return r is not None and r != 0


def divides_either(a, b):
    return a % b == 0 or b % a == 0


def E(n, a, b):
    """device ticks owed after n timeline ticks at ratio a/b: ceil(n * a / b), exact"""
    return math.ceil(Fraction(n * a, b))


def expected_codes(out, inn, steps):
    """property-level expectation for `steps` next() calls (cut after the first error)"""
    if not (truthy(out) and truthy(inn)):
        return [1] * steps
    if not divides_either(out, inn):
        return [-1] if steps else []
    return [E(j + 1, out, inn) - E(j, out, inn) for j in range(steps)]


def to_sparse(codes, dflt):
    return [[i, c] for i, c in enumerate(codes) if c != dflt]


def mode(xs, fallback=0):
    best, cnt = fallback, {}
    for x in xs:
        cnt[x] = cnt.get(x, 0) + 1
    for x, c in cnt.items():
        if c > cnt.get(best, 0):
            best = x
    return best


def sparse_prefix(res, n):
    """the sparse result restricted to the first n entries"""
    ln = min(res["len"], n)
    return ln, [p for p in res["sparse"] if p[0] < ln]


def shard(cases, weight, k=12):
    order = sorted(range(len(cases)), key=lambda i: -weight(cases[i]))
    bins = [[] for _ in range(k)]
    for pos, i in enumerate(order):
        bins[pos % k].append(i)
    return [b for b in bins if b]


def run_sharded(run, key, cases, weight=lambda c: 1):
    bins = shard(cases, weight)
    outs = run.impl_parallel("c14_impl", [{key: [cases[i] for i in b]} for b in bins])
    res = [None] * len(cases)
    for b, o in zip(bins, outs):
        for i, r in zip(b, o[key]):
            res[i] = r
    return res


# ================================================================================================
# 1. make_clock_multiplier
# ================================================================================================
def mult_snippet(out, inn, steps):
    return ("from isobar.util import make_clock_multiplier; g = make_clock_multiplier(%r, %r); "
            "print([next(g) for _ in range(%d)])" % (out, inn, steps))


def check_multiplier(run):
    rng = run.rng
    cases = []
    # every ordered pair (out, in) up to MAXRATE with one dividing the other
    for b in range(1, MAXRATE + 1):
        for a in range(1, b + 1):
            if b % a == 0:
                m = b // a
                cases.append({"out": a, "in": b, "steps": 4 * m + 1, "dflt": 0 if m > 1 else 1, "kind": "div"})
                if a != b:
                    cases.append({"out": b, "in": a, "steps": 6, "dflt": m, "kind": "mul"})
    n_div = len(cases)
    # sampled non-dividing pairs (all of them in the thorough tier would be 3.7e6; sampled there too, 10x)
    n_non = 20000 if run.tier == "quick" else 200000
    seen = set()
    while len(seen) < n_non:
        a, b = rng.randint(2, MAXRATE), rng.randint(2, MAXRATE)
        if rng.random() < 0.3:          # near-misses: one off a dividing pair
            b = min(MAXRATE, max(2, a * rng.randint(1, max(1, MAXRATE // a)) + rng.choice((-1, 1))))
        if rng.random() < 0.5:
            a, b = b, a
        if not divides_either(a, b):
            seen.add((a, b))
    for a, b in sorted(seen):
        cases.append({"out": a, "in": b, "steps": 3, "dflt": 0, "kind": "non"})
    # rates that are None / 0: one tick per tick
    for a, b in [(None, 480), (480, None), (None, None), (0, 24), (24, 0), (0, 0), (None, 0), (7, None), (None, 7)]:
        cases.append({"out": a, "in": b, "steps": 8, "dflt": 1, "kind": "none"})
    t0 = time.time()
    res = run_sharded(run, "mult", cases, lambda c: c["steps"])
    run.cov["impl_seconds_multiplier"] = round(time.time() - t0, 1)
    run.cov["exhaustive"] = True
    run.cov["exhaustive_domain"] = ("make_clock_multiplier: all %d ordered pairs (out, in) <= %d with one rate dividing the other "
                                    "(complete), 4*(in/out)+1 steps each" % (n_div, MAXRATE))
    fails = {}           # kind -> list of (case, detail)
    terms, meta = [], []
    for c, r in zip(cases, res):
        out, inn, steps, kind = c["out"], c["in"], c["steps"], c["kind"]
        run.count(steps)
        run.dist("mult." + kind)
        if "error" in r:
            fails.setdefault("multiplier-raises", []).append((c, "unexpected %s" % r["error"]))
            continue
        # ---- oracle (closed form) ----
        run.cov["oracle_evaluations"] += 1
        if kind == "div":
            m = inn // out
            exp_len, exp_sparse = steps, ([[j, 1] for j in range(0, steps, m)] if m > 1 else [])
            exp_total = E(steps, out, inn)
        elif kind == "mul":
            exp_len, exp_sparse, exp_total = steps, [], steps * (out // inn)
        elif kind == "non":
            exp_len, exp_sparse, exp_total = 1, [[0, -1]], 0
        else:
            exp_len, exp_sparse, exp_total = steps, [], steps
        if (r["len"], r["sparse"], r["total"]) != (exp_len, exp_sparse, exp_total):
            if kind in ("div", "mul") and r["sparse"][:1] == [[0, -1]]:
                k = "dividing-pair-refused"
                d = "ClockException on the first next() although %d %s %d" % (
                    min(out, inn), "divides", max(out, inn))
            elif kind == "non" and not any(p[1] < 0 for p in r["sparse"]):
                k, d = "non-dividing-pair-accepted", "no ClockException in the first %d ticks" % steps
            elif kind == "non":
                k, d = "refusal-late-or-wrong", "observed (index, code) %r, expected ClockException on the first next()" % (r["sparse"][:3],)
            else:
                k = "ratio"
                firstbad = next((p for p in r["sparse"] if p not in exp_sparse), None) or \
                    next((p for p in exp_sparse if p not in r["sparse"]), None)
                d = "ticks per next() differ from the closed form ceil((j+1)*out/in) - ceil(j*out/in): first at (index, value) %r; total %d, expected %d" % (
                    firstbad, r["total"], exp_total)
            fails.setdefault(k, []).append((c, d))
            if kind == "div":
                run.nontrivial("mult %r/%r" % (out, inn))
            continue        # already reported with a failing input; nothing to learn from the model comparison
        # ---- correspondence term ----
        if kind == "div":
            n = min(steps, 2 * m + 2 if m <= 64 else m + 2)      # at least one whole period and the next emission
        else:
            n = steps
        ln, sp = sparse_prefix(r, n)
        if kind in ("div", "mul"):
            terms.append("mult_sparse_ok_x %s %s %d %s %d %s" % (rlit(out), rlit(inn), n, zlit(c["dflt"]), ln, plist(sp)))
            meta.append(c)
        # the r8 (round(pos, 8)) model itself on a sub-family: short runs for every pair with small period, samples of the rest
        ratio_ = max(out, inn) // min(out, inn) if kind in ("div", "mul") else 1
        if kind in ("non", "none") or ratio_ <= 24 or rng.random() < 0.03:
            n2 = min(n, 60 if kind == "div" else 3 if kind == "mul" else n)
            ln, sp = sparse_prefix(r, n2)
            terms.append("mult_sparse_ok %s %s %d %s %d %s" % (rlit(out), rlit(inn), n2, zlit(c["dflt"]), ln, plist(sp)))
            meta.append(c)
        if kind == "div":
            run.nontrivial("mult %r/%r" % (out, inn))
    for k, lst_ in sorted(fails.items()):
        c, d = lst_[0]
        run.violation({"kind": k, "site": SITE_MULT}, {
            "case": {"out": c["out"], "in": c["in"], "steps": c["steps"]}, "observed": d,
            "oracle": "closed form: ceil(n*out/in) device ticks after n timeline ticks; refusal iff neither rate divides the other",
            "python": mult_snippet(c["out"], c["in"], min(c["steps"], 12)),
            "all_failures_of_this_kind": len(lst_),
            "more_failing_pairs(out,in)": [(x["out"], x["in"]) for x, _ in lst_[1:25]]})
    run.sample({"multiplier": "out=1 in=3", "codes": expected_codes(1, 3, 7)})
    t0 = time.time()
    failing = run.coq_failing(HEADER, terms, chunk=2200, jobs=14)      # ~1.4 s start-up per coqc: few large chunks
    run.cov["coq_seconds_multiplier"] = round(time.time() - t0, 1)
    run.cov["traces_validated_against_impl"] += len(terms) - len(failing)
    oracle_bad = {(c["out"], c["in"]) for l in fails.values() for c, _ in l}
    for i in failing:
        c = meta[i]
        if (c["out"], c["in"]) in oracle_bad:
            continue
        run.violation({"kind": "correspondence", "site": SITE_MULT}, {
            "broken": "correspondence model/implementation on make_clock_multiplier (Props/C14.v C14_ratio_* no longer speak about this code)",
            "case": {"out": c["out"], "in": c["in"], "steps": c["steps"]}, "coq_term": terms[i][:1500],
            "python": mult_snippet(c["out"], c["in"], 12)}, found_input=False)


# ================================================================================================
# 2. Timeline.tick with recording devices
# ================================================================================================
RICH = [1, 2, 3, 4, 6, 8, 12, 16, 24, 36, 48, 60, 96, 120, 192, 240, 384, 480, 960, 1920]


def dev_rate(spec):
    return 24 if spec == "midi" else spec


def enc_calls(calls):
    v = 0
    for c in calls:
        v = v * 4 + (c + 1)
    return v


def expected_timeline(rate, devs, ticks):
    """per-tick device call lists demanded by the property, and the end code"""
    per, code = [], 0
    for j in range(ticks):
        calls = []
        for i, s in enumerate(devs):
            r = dev_rate(s)
            if truthy(r) and truthy(rate):
                if not divides_either(r, rate):
                    code = -1
                    break
                calls += [i] * (E(j + 1, r, rate) - E(j, r, rate))
            else:
                calls.append(i)
        per.append(calls)
        if code:
            break
    return per, code


def gen_timeline_case(rng):
    rate = rng.choice(RICH) if rng.random() < 0.75 else rng.randint(1, MAXRATE)
    nd = rng.choice((1, 1, 2, 2, 3))
    devs, maxm = [], 1
    for _ in range(nd):
        u = rng.random()
        if u < 0.40:
            ds = [d for d in range(1, rate + 1) if rate % d == 0]
            r = rng.choice(ds); maxm = max(maxm, rate // r)
        elif u < 0.55:
            r = rate * rng.randint(1, max(1, min(8, MAXRATE // rate)))
        elif u < 0.70:
            r = "midi"
            if rate % 24 == 0:
                maxm = max(maxm, rate // 24)
        elif u < 0.80:
            r = None
        elif u < 0.84:
            r = 0
        elif u < 0.90:
            r = rate
        else:
            r = rng.randint(1, MAXRATE)
        devs.append(r)
    ticks = min(2 * maxm + 3, 1300)
    if "midi" in devs and truthy(rate) and divides_either(24, rate):
        ticks = min(max(ticks, 2 * rate + 1), 2000)      # at least two whole beats
    return {"rate": rate, "devs": devs, "ticks": ticks}


def tl_snippet(c):
    return ("import isobar as iso\nclass Rec(iso.OutputDevice):\n    def __init__(s, r, i, log): super().__init__(); s.r, s.i, s.log = r, i, log\n"
            "    ticks_per_beat = property(lambda s: s.r)\n    def tick(s): s.log.append(s.i)\n"
            "log = []; devs = [Rec(24 if r == 'midi' else r, i, log) for i, r in enumerate(%r)]\n"
            "tl = iso.Timeline(output_device=devs[0], clock_source=iso.DummyClock(ticks_per_beat=%r))\n"
            "for d in devs[1:]: tl.add_output_device(d)\n"
            "for j in range(%d):\n    del log[:]; tl.tick(); print(j, log)" % (c["devs"], c["rate"], min(c["ticks"], 60)))


def check_timeline(run):
    rng = run.rng
    n = 160 if run.tier == "quick" else 2500
    cases = [gen_timeline_case(rng) for _ in range(n)]
    # fixed cases: the default 480 PPQN timeline feeding a MIDI clock output, 24 PPQN timelines, the pinned witness 1:49
    cases += [{"rate": 480, "devs": ["midi"], "ticks": 1921}, {"rate": 24, "devs": ["midi", None], "ticks": 49},
              {"rate": 12, "devs": ["midi", 12, 6], "ticks": 49}, {"rate": 49, "devs": [1, 7], "ticks": 150},
              {"rate": 1920, "devs": [None, "midi", 1], "ticks": 1925}, {"rate": 100, "devs": [None, "midi"], "ticks": 3},
              {"rate": 96, "devs": [480, 7, None], "ticks": 3}]
    exp = []
    for c in cases:
        per, code = expected_timeline(c["rate"], c["devs"], c["ticks"])
        encs = [enc_calls(x) for x in per]
        c["dflt"] = mode(encs)
        exp.append((per, code, encs))
    res = run_sharded(run, "timeline", cases, lambda c: c["ticks"])
    terms, meta = [], []
    for c, r, (per, code, encs) in zip(cases, res, exp):
        run.count(c["ticks"])
        run.cov["oracle_evaluations"] += len(per)
        strat = "timeline.devs%d%s%s" % (len(c["devs"]), ".midi24" if "midi" in c["devs"] else "", ".refused" if code else "")
        run.dist(strat)
        run.nontrivial("tl %r" % (c,))
        sig = None
        if "error" in r:
            sig, d = "timeline-raises", "unexpected %s" % r["error"]
        elif (r["len"], r["sparse"], r["code"]) != (len(encs), to_sparse(encs, c["dflt"]), code):
            if code == 0 and r["code"] == -1:
                sig, d = "dividing-pair-refused", "ClockException from Timeline.tick() number %d although every device rate divides / is a multiple of the timeline rate" % (r["len"] - 1)
            elif code == -1 and r["code"] == 0:
                sig, d = "non-dividing-pair-accepted", "no ClockException although a device rate is not a whole multiple/divisor of the timeline rate"
            else:
                got = dict((i, v) for i, v in r["sparse"])
                j = next((j for j in range(max(len(encs), r["len"])) if (encs[j] if j < len(encs) else None) != (got.get(j, c["dflt"]) if j < r["len"] else None)), None)
                sig = "device-ticks"
                d = "device.tick() calls on timeline tick %r differ: expected (device indices in call order) %r, observed encoding %r (base-4 digits = index+1); end code %r expected %r" % (
                    j, per[j] if j is not None and j < len(per) else None, got.get(j, c["dflt"]) if j is not None else None, r["code"], code)
            if "midi" in c["devs"] and sig == "device-ticks":
                d += " [a MidiOutputDevice must receive exactly 24 'clock' messages per beat]"
        if sig:
            run.violation({"kind": sig, "site": "Timeline.tick"}, {
                "case": c, "observed": d, "oracle": "per device ceil((j+1)*rate/tl) - ceil(j*rate/tl) ticks on timeline tick j, devices served in order",
                "python": tl_snippet(c)})
        if "error" in r or sig:
            continue        # (a case the oracle has reported is not sent to Coq: its observed encodings can be huge)
        if r.get("ticks_per_beat") != c["rate"]:
            run.violation({"kind": "timeline-rate", "site": "Timeline.ticks_per_beat"}, {
                "case": c, "observed": "Timeline.ticks_per_beat = %r with DummyClock(ticks_per_beat=%r)" % (r.get("ticks_per_beat"), c["rate"]),
                "python": tl_snippet(c)})
        terms.append("tl_sparse_ok %s %s %d %s %d %s %s" % (
            rlit(c["rate"]), lst([rlit(dev_rate(s)) for s in c["devs"]]), c["ticks"], zlit(c["dflt"]), r["len"],
            plist(r["sparse"]), zlit(r["code"])))
        meta.append((c, sig))
    run.sample({"timeline": cases[0], "expected_first_ticks": exp[0][0][:6]})
    failing = run.coq_failing(HEADER, terms, chunk=16, jobs=14)
    run.cov["traces_validated_against_impl"] += len(terms) - len(failing)
    for i in failing:
        c, sig = meta[i]
        if sig:
            continue
        run.violation({"kind": "correspondence", "site": "Timeline.tick"}, {
            "broken": "correspondence model/implementation on the device-clock phase of Timeline.tick",
            "case": c, "coq_term": terms[i][:1500], "python": tl_snippet(c)}, found_input=False)


# ================================================================================================
# 3. Clock.run on a scripted virtual clock
# ================================================================================================
MARGIN = Fraction(2, 10 ** 6)
GRID = 10 ** 7
TEMPOS = [60, 90, 100, 120, 125, 140, 174, 33, 250, 87.5, 72.25, 200, 45]


def delta(tempo, tpb):
    return Fraction(60) / (Fraction(tempo) * tpb)


class RefClock:
    """Exact (Fraction) re-statement of the deadline bookkeeping, used ONLY by the generator to keep readings away from
    comparison boundaries (so that float and exact comparisons agree) and never as the judge."""
    def __init__(self, t0, tempo, tpb, a, b, cb):
        self.c0, self.tpb, self.dur = t0, tpb, delta(tempo, tpb)
        self.a, self.b, self.cb = a, b, cb
        self.it, self.total = 0, 0

    def copy(self):
        o = RefClock.__new__(RefClock)
        o.__dict__.update(self.__dict__)
        return o

    def step(self, t, between=None):
        """returns the smallest |t - clock0 - threshold| over the comparisons made"""
        if between is not None:
            self.dur = delta(between, self.tpb)
        ntd, mm = self.dur, None
        unit = self.a is None or self.a == self.b
        while True:
            diff = t - self.c0 - ntd
            mm = abs(diff) if mm is None else min(mm, abs(diff))
            if diff < 0:
                return mm
            if unit and diff >= 3 * self.dur:
                # long catch-up with nothing happening: jump (the comparisons skipped are further from 0 than the last ones)
                skip = int(diff // self.dur) - 2
                nxt = min((i for i in self.cb if i >= self.total), default=None)
                if nxt is not None:
                    skip = min(skip, nxt - self.total)
                if skip > 0:
                    self.it += skip
                    self.total += skip
                    self.c0 += skip * self.dur
                    continue
            if self.a is None:
                k = 1
            else:
                if not divides_either(self.a, self.b):
                    return mm
                k = E(self.it + 1, self.a, self.b) - E(self.it, self.a, self.b)
            self.it += 1
            for _ in range(k):
                i = self.total
                self.total += 1
                if i in self.cb:
                    self.dur = delta(self.cb[i], self.tpb)
            self.c0 += self.dur


def gen_clock_case(rng, kind, midi_late=False):
    dyadic = kind == "dyadic"
    if dyadic:
        tpb = rng.choice([32, 64, 256, 512, 1024])
        tempos = [15, 30, 60, 120, 240, 480]
        tempo = rng.choice(tempos)
        t0 = Fraction(rng.choice([0, 1024, 4096, 8]))+ Fraction(rng.randint(0, 3), 4)
    else:
        tpb = rng.choice([24, 48, 96, 120, 480, 480, 960, 1920, rng.randint(1, 1920)])
        tempos = TEMPOS + [rng.randint(30, 300)]
        tempo = rng.choice(tempos)
        t0 = Fraction(rng.randint(0, 5000 * GRID), GRID)
    target, a, b = rng.choice(["obj", "obj", "timeline"]), None, None
    target_rate = None
    if midi_late:
        # the clock's target is a real MidiOutputDevice opened with clock output off, switched on afterwards: 24 pulses per beat
        tpb = rng.choice([480, 480, 96, 960, 24, 48, 120, 1920, 12, 8, 100, 36])
        target, target_rate, a, b = "midi_late", 24, 24, tpb
    elif kind == "ratio":
        target = "obj"
        u = rng.random()
        ds = [d for d in range(1, tpb + 1) if tpb % d == 0]
        if u < 0.45:
            target_rate = rng.choice(ds)
        elif u < 0.8:
            target_rate = tpb * rng.randint(1, max(1, min(6, MAXRATE // tpb)))
        else:
            target_rate = rng.randint(1, MAXRATE)
        a, b = target_rate, tpb
    elif target == "obj":
        target_rate = rng.choice([None, tpb])
        if target_rate is not None:
            a, b = tpb, tpb
    with_changes = kind in ("tempo", "dyadic", "ratio") and rng.random() < (0.9 if kind == "tempo" else 0.5)
    cb, between, readings = {}, {}, [t0]
    ref = RefClock(t0, tempo, tpb, a, b, cb)
    ref.step(t0)
    n_read = rng.randint(25, 110)
    budget = 12000 if rng.random() < 0.3 else 1200       # bound on the ticks of one script (keeps the Coq side fast)
    t = t0
    for j in range(1, n_read + 1):
        d = ref.dur
        btw = None
        if with_changes and rng.random() < 0.06:
            btw = rng.choice(tempos)
        if with_changes and rng.random() < 0.10:
            # a tempo change from inside an upcoming tick (possibly in the middle of a catch-up burst)
            cb[ref.total + rng.choice([0, 0, 1, 2, 5, rng.randint(0, 40)])] = rng.choice(tempos)
        u = rng.random()
        if dyadic:
            q = d / 4
            if u < 0.45:
                adv = q * rng.randint(0, 9)
            elif u < 0.85:
                # land exactly on a deadline of the current grid
                k = rng.randint(1, 6)
                adv = max(Fraction(0), ref.c0 + k * d - t)
            else:
                adv = d * rng.randint(10, max(10, min(2000, budget - ref.total))) + q * rng.randint(0, 3)
        else:
            base = Fraction(1, 10 ** 4)
            if u < 0.08:
                adv = Fraction(0)
            elif u < 0.80:
                adv = base + Fraction(int(rng.expovariate(1.0) * float(d) * rng.choice([0.05, 0.3, 1.0, 2.5]) * GRID), GRID)
            elif u < 0.93:
                adv = base + d * Fraction(rng.randint(1000, 60000), 1000)           # stall of 1..60 ticks
            else:
                room = max(10.0, min(10000.0, budget - ref.total))
                adv = base + d * Fraction(int(10 ** rng.uniform(1.0, math.log10(room)) * 1000), 1000)   # 10 .. 10^4 tick lengths
            adv = Fraction(int(adv * GRID), GRID)
        t1 = t + adv
        ok = False
        for _ in range(8):
            trial = ref.copy()
            trial.cb = cb
            mm = trial.step(t1, btw)
            if dyadic or mm >= MARGIN:
                ok = True
                break
            t1 += MARGIN * 3 / 2 + Fraction(rng.randint(0, 30), GRID)
            t1 = Fraction(int(t1 * GRID), GRID)
        if not ok:
            return None
        ref = trial
        t = t1
        readings.append(t)
        if btw is not None:
            between[j] = btw
    cb = {i: v for i, v in cb.items() if i < ref.total}     # only the changes that are reached matter
    acc = 1.0
    if dyadic and rng.random() < 0.3:
        acc = rng.choice([2.0, 0.5])
    case = {"kind": kind, "target": target, "target_rate": target_rate, "tempo": tempo, "tpb": tpb,
            "readings_exact": readings, "cb": cb, "between": between, "accelerate": acc}
    return case


def clock_payload(c):
    acc = Fraction(c["accelerate"])
    p = {"target": c["target"], "target_rate": c["target_rate"], "tempo": c["tempo"], "tpb": c["tpb"],
         "readings": [float(t / acc) for t in c["readings_exact"]],
         "cb": {str(i): v for i, v in c["cb"].items()}, "between": {str(i): v for i, v in c["between"].items()}}
    if c["accelerate"] != 1.0:
        p["accelerate"] = c["accelerate"]
    if c.get("replace"):
        p["replace"] = c["replace"]
    return p


def clock_snippet(c):
    p = clock_payload(c)
    return ("import json, subprocess; print(subprocess.run(['/venv/bin/python', 'harness/impl/c14_impl.py'], "
            "input=json.dumps({'clock': [%s]}), capture_output=True, text=True, env={'PYTHONPATH': '<repo>'}).stdout)" % json.dumps(p))


def oracle_clock(c, counts, code):
    """independent judgement from the property text.  Returns None or (kind, detail)."""
    ts = c["readings_exact"]
    tpb, a, b = c["tpb"], c["target_rate"], c["tpb"]
    if c["target"] == "timeline":
        a = None
    ratio = (lambda n: n) if not truthy(a) else (lambda n: E(n, a, b))
    refused = truthy(a) and not divides_either(a, b)
    d0 = delta(c["tempo"], tpb)
    if refused:
        # a clock error no later than the first tick
        j = next((j for j, t in enumerate(ts) if (t - ts[0]) >= d0), None)
        if c["cb"] or any(k <= (j or 0) for k in c["between"]):
            return None
        if j is None:
            return None if code == 0 and all(x == 0 for x in counts) else ("refusal", "ticks or an error before any tick was due")
        if code != -1 or len(counts) != j + 1 or any(x != 0 for x in counts):
            return ("non-dividing-pair-accepted" if code == 0 else "refusal",
                    "target rate %r vs clock rate %r: expected a ClockException at wake-up %d (first due tick), observed code %r, counts %r" % (a, b, j, code, counts[:j + 2]))
        return None
    if code != 0:
        return ("dividing-pair-refused" if code == -1 else "clock-raises", "Clock.run ended with code %r" % code)
    if len(counts) != len(ts):
        return ("wakeups", "%d counts for %d wake-ups" % (len(counts), len(ts)))
    if any(y < x for x, y in zip(counts, counts[1:])):
        return ("count-decreases", "cumulative counts %r" % counts[:30])
    # which wake-ups carry a change
    ev = set(c["between"])
    for i in c["cb"]:
        j = next((j for j, n in enumerate(counts) if n > i), None)
        if j is not None:
            ev.add(j)
    if not ev:
        for j, (t, n) in enumerate(zip(ts, counts)):
            want = ratio((t - ts[0]) // d0)
            if n != want:
                return ("tick-count", "after wake-up %d (elapsed %s s = %s tick durations) %d ticks delivered, floor(elapsed/duration)%s = %d" % (
                    j, float(t - ts[0]), float((t - ts[0]) / d0), n, " through the rate converter" if truthy(a) and a != b else "", want))
        return None
    if truthy(a) and a != b:
        return None      # ratio + tempo changes: judged by the model only
    # segments between changes: the ticks must lie on ONE grid of the duration in force, with its phase within one
    # tick length of the change (rate exact, none dropped or doubled)
    durs = {0: d0}
    cur_events = sorted(ev)
    bounds = cur_events + [len(ts)]
    # duration in force after each event wake-up: replay the changes in the order they take effect
    def durs_at(j):
        out = [delta(c["between"][j], tpb)] if j in c["between"] else []
        for i, v in c["cb"].items():
            if next((x for x, n in enumerate(counts) if n > i), None) == j:
                out.append(delta(v, tpb))
        return out

    def dur_after(j):
        cands = []
        if j in c["between"]:
            cands.append((j, -1, c["between"][j]))
        for i, v in c["cb"].items():
            jj = next((x for x, n in enumerate(counts) if n > i), None)
            if jj == j:
                cands.append((j, i, v))
        return delta(sorted(cands)[-1][2], tpb)
    prev_d, prev_big = d0, d0
    # segment before the first event: exact closed form
    for j in range(0, bounds[0]):
        want = (ts[j] - ts[0]) // d0
        if counts[j] != want:
            return ("tick-count", "before any tempo change: after wake-up %d, %d ticks, floor(elapsed/duration) = %d" % (j, counts[j], want))
    for k, j0 in enumerate(cur_events):
        d = dur_after(j0)
        j1 = bounds[k + 1]
        base_t = ts[j0]
        big = max([prev_d, d] + durs_at(j0))       # every duration that was in force during the change wake-up
        if k > 0 and counts[j0] == counts[cur_events[k - 1]]:
            # no tick has been delivered since the previous change: the "next tick" after this change is still the next
            # tick after that one, and its deadline was placed with the durations in force then (a change made in a
            # tick callback in mid-burst to a much slower tempo, then two quick changes between wake-ups)
            big = max(big, prev_big)
        prev_big = big
        lo, hi, lo_strict = base_t - big, base_t + 2 * big, True
        for j in range(j0 + 1, j1):
            n = counts[j] - counts[j0]
            if n == 0:
                if ts[j] >= lo:
                    lo, lo_strict = ts[j], True
            else:
                l2, h2 = ts[j] - n * d, ts[j] - (n - 1) * d
                if l2 >= lo:
                    lo, lo_strict = l2, True
                hi = min(hi, h2)
            if lo > hi or (lo == hi and lo_strict):
                return ("tempo-follow", "after the tempo change at wake-up %d (new tick duration %s s): the ticks delivered up to wake-up %d (%d since the change, %s s later) "
                        "do not lie on any grid of that duration starting within one tick of the change" % (j0, float(d), j, n, float(ts[j] - base_t)))
        prev_d = d
    return None


def check_clock(run):
    rng = run.rng
    n = 300 if run.tier == "quick" else 5000
    kinds = ["plain"] * 30 + ["tempo"] * 40 + ["dyadic"] * 18 + ["ratio"] * 12
    cases = []
    while len(cases) < n:
        kind = kinds[len(cases) % len(kinds)]
        c = gen_clock_case(rng, kind, midi_late=(kind == "ratio" and len(cases) % 3 == 0))
        if c is None:
            run.discard("clock script: no reading >= 2e-6 s away from every deadline found in 8 tries")
            continue
        if c["target"] == "timeline" and len(cases) % 2 == 0:
            # the clock that runs REPLACED the clock source the timeline was built with (another PPQN, mostly): the timeline
            # is created at old_tpb, then `timeline.clock_source = Clock(tempo=.., ticks_per_beat=tpb)`
            u = rng.random()
            tpb = c["tpb"]
            rel = [r for r in (24, 48, 96, 120, 240, 480, 960, 1920) if r != tpb and divides_either(r, tpb)]
            old = rng.choice(rel) if rel and u < 0.45 else rng.choice([r for r in (100, 36, 7, 1000, 480, 96) if r != tpb]) if u < 0.8 else \
                tpb if u < 0.9 else rng.randint(1, MAXRATE)
            c["replace"] = {"old_tpb": old, "old_tempo": rng.choice(TEMPOS)}
        cases.append(c)
    res = run_sharded(run, "clock", [clock_payload(c) for c in cases], lambda p: len(p["readings"]))
    terms, meta = [], []
    for c, r in zip(cases, res):
        ts = c["readings_exact"]
        run.count(len(ts))
        strat = "clock.%s.%s" % (c["kind"], c["target"])
        run.dist(strat)
        if c.get("replace"):
            o, nw = c["replace"]["old_tpb"], c["tpb"]
            run.dist("clock.replaced-clock-source.%s" % ("same PPQN" if o == nw else "old PPQN divides / is a multiple of the new" if divides_either(o, nw) else "old and new PPQN do not divide"))
        if c["cb"]:
            run.dist("clock.change-in-callback")
        if c["between"]:
            run.dist("clock.change-between-wakeups")
        run.nontrivial("clock %r" % (clock_payload(c),))
        if "error" in r:
            run.violation({"kind": "clock-raises", "site": "Clock.run"}, {
                "case": clock_payload(c), "observed": "unexpected %s" % r["error"], "python": clock_snippet(c)})
            continue
        counts, code = r["counts"], r["code"]
        run.cov["oracle_evaluations"] += len(ts)
        verdict = oracle_clock(c, counts, code)
        if verdict:
            run.violation({"kind": verdict[0], "site": "Clock.run"}, {
                "case": clock_payload(c), "observed": verdict[1], "counts_observed": counts[:80],
                "oracle": "floor(elapsed / tick duration) ticks after every wake-up; after a tempo change the ticks lie on one grid of the new duration",
                "python": clock_snippet(c)})
            continue
        if counts:
            run.dist("clock.max-burst.%s" % ("<10" if max(y - x for x, y in zip([0] + counts, counts)) < 10 else
                                             "<1000" if max(y - x for x, y in zip([0] + counts, counts)) < 1000 else ">=1000"))
        # exact integer units for the model
        tpb = c["tpb"]
        fr = list(ts) + [delta(c["tempo"], tpb)] + [delta(v, tpb) for v in c["cb"].values()] + [delta(v, tpb) for v in c["between"].values()]
        D = 1
        for x in fr:
            D = D * x.denominator // math.gcd(D, x.denominator)
        U = lambda x: int(x * D)
        rds = "[" + "; ".join("(%s, %s)" % (zlit(U(t)), "None" if j not in c["between"] else "(Some %s)" % zlit(U(delta(c["between"][j], tpb))))
                              for j, t in enumerate(ts)) + "]"
        out = None if c["target"] == "timeline" else c["target_rate"]       # a replaced clock: made without a target, 1:1 (C14_replaced_clock)
        args = "%s %s %s %s %s %s %s %s" % (
            rlit(out), rlit(tpb), plist(sorted((i, U(delta(v, tpb))) for i, v in c["cb"].items())),
            zlit(U(delta(c["tempo"], tpb))), zlit(U(ts[0])), rds, zlist(counts), zlit(code))
        # clock_ok_x = clock_ok (Props/C14.v C14_fast_variants_agree); the model with the round(pos, 8) arithmetic itself
        # is evaluated on the scripts with few ticks
        terms.append("clock_ok_x " + args)
        meta.append((c, verdict, counts))
        if (counts[-1] if counts else 0) <= 400:
            terms.append("clock_ok " + args)
            meta.append((c, verdict, counts))
            run.dist("clock.also-with-round8-model")
    run.sample({"clock_script": {k: v for k, v in clock_payload(cases[0]).items() if k != "readings"},
                "first_readings": clock_payload(cases[0])["readings"][:5], "counts": res[0].get("counts", [])[:5]})
    t0 = time.time()
    failing = run.coq_failing(HEADER, terms, chunk=12, jobs=14)
    run.cov["coq_seconds_clock"] = round(time.time() - t0, 1)
    run.cov["traces_validated_against_impl"] += len(terms) - len(failing)
    for i in failing:
        c, verdict, counts = meta[i]
        if verdict:
            continue
        run.violation({"kind": "correspondence", "site": "Clock.run"}, {
            "broken": "correspondence model/implementation on Clock.run (C14_catch_up / C14_tempo no longer speak about this code)",
            "case": clock_payload(c), "counts_observed": counts[:80], "coq_term": terms[i][:3000], "python": clock_snippet(c)},
            found_input=False)


# ================================================================================================
# 3b. ONE clock run several times: run, stop (from a tick callback / from outside), time passes, run again
# ================================================================================================
HEADER_RERUN = """From Isobar Require Import Base.Prelude Clock.Multiplier Clock.ClockRun Clock.Rerun.
"""


def gen_rerun_segment(rng, ref, t, cb, dyadic, with_changes, tempos, budget):
    """the wake-ups of one run that begins at reading t (ref: the deadline bookkeeping anchored at t).  Returns
    (readings, between, ref, total before the last wake-up) or None."""
    readings, between = [t], {}
    ref.step(t)
    before_last = ref.total
    n_read = rng.randint(3, 28)
    for j in range(1, n_read + 1):
        d = ref.dur
        btw = None
        if with_changes and rng.random() < 0.05:
            btw = rng.choice(tempos)
        if with_changes and rng.random() < 0.06:
            cb[ref.total + rng.choice([0, 0, 1, 2, 5, rng.randint(0, 20)])] = rng.choice(tempos)
        u = rng.random()
        room = max(2, budget - ref.total)
        if dyadic:
            q = d / 4
            if u < 0.45:
                adv = q * rng.randint(0, 9)
            elif u < 0.85:
                adv = max(Fraction(0), ref.c0 + rng.randint(1, 6) * d - t)       # exactly on a deadline of the current grid
            else:
                adv = d * rng.randint(2, max(2, min(60, room))) + q * rng.randint(0, 3)
        else:
            base = Fraction(1, 10 ** 4)
            if u < 0.08:
                adv = Fraction(0)
            elif u < 0.80:
                adv = base + Fraction(int(rng.expovariate(1.0) * float(d) * rng.choice([0.05, 0.3, 1.0, 2.5]) * GRID), GRID)
            else:
                adv = base + d * Fraction(rng.randint(1000, 1000 * max(2, min(60, room))), 1000)       # a stall
            adv = Fraction(int(adv * GRID), GRID)
        t1 = t + adv
        ok = False
        for _ in range(8):
            trial = ref.copy()
            trial.cb = cb
            mm = trial.step(t1, btw)
            if dyadic or mm >= MARGIN:
                ok = True
                break
            t1 += MARGIN * 3 / 2 + Fraction(rng.randint(0, 30), GRID)
            t1 = Fraction(int(t1 * GRID), GRID)
        if not ok:
            return None
        before_last = ref.total
        ref = trial
        t = t1
        readings.append(t)
        if btw is not None:
            between[j] = btw
    return readings, between, ref, before_last


def gen_rerun_case(rng, kind):
    dyadic = kind == "dyadic"
    if dyadic:
        tpb = rng.choice([32, 64, 256, 512, 1024])
        tempos = [15, 30, 60, 120, 240, 480]
        t0 = Fraction(rng.choice([0, 1024, 4096, 8])) + Fraction(rng.randint(0, 3), 4)
    else:
        tpb = rng.choice([24, 48, 96, 120, 480, 480, 960, rng.randint(1, 1920)])
        tempos = TEMPOS + [rng.randint(30, 300)]
        t0 = Fraction(rng.randint(0, 5000 * GRID), GRID)
    tempo = rng.choice(tempos)
    target, a, b, target_rate = rng.choice(["obj", "timeline"]), None, None, None
    if kind == "ratio":
        # the clock's own rate converter goes on where it was: target rate divides / is a multiple of the clock rate
        target = "obj"
        ds = [d for d in range(1, tpb + 1) if tpb % d == 0]
        target_rate = rng.choice(ds) if rng.random() < 0.6 else tpb * rng.randint(1, 3)
        a, b = target_rate, tpb
    elif target == "obj":
        target_rate = rng.choice([None, tpb])
        if target_rate is not None:
            a, b = tpb, tpb
    with_changes = kind in ("tempo", "dyadic") and rng.random() < 0.7
    n_seg = rng.choice([2, 2, 3, 3, 4])
    cb, segs = {}, []
    ref = RefClock(t0, tempo, tpb, a, b, cb)
    t = t0
    budget_each = 500 // n_seg
    for k in range(n_seg):
        pre = None
        if k > 0:
            # the time spent stopped: nothing, a fraction of a tick, a few ticks, seconds, minutes
            d = ref.dur
            u = rng.random()
            if dyadic:
                pause = rng.choice([Fraction(0), d / 4 * rng.randint(1, 7), d * rng.randint(1, 40), Fraction(rng.randint(1, 600)),
                                    max(Fraction(0), ref.c0 + rng.randint(1, 9) * d - t)])
            elif u < 0.1:
                pause = Fraction(0)
            elif u < 0.35:
                pause = Fraction(int(d * rng.uniform(0.05, 3.0) * GRID), GRID)
            elif u < 0.7:
                pause = Fraction(int(d * rng.uniform(3.0, 3000.0) * GRID), GRID)
            else:
                pause = Fraction(rng.randint(1, 3600 * 1000), 1000)
            t = t + pause
            if kind != "plain" and rng.random() < 0.5:
                pre = rng.choice(tempos)
            ref = ref.copy()
            ref.c0 = t                          # every run starts from "now"
            if pre is not None:
                ref.dur = delta(pre, tpb)
        g = gen_rerun_segment(rng, ref, t, cb, dyadic, with_changes, tempos, ref.total + budget_each)
        if g is None:
            return None
        readings, between, ref, before_last = g
        stop_tick, spare = None, []
        if ref.total > before_last and rng.random() < 0.5:
            # this run is ended by clock.stop() / timeline.stop() from inside a tick of its last wake-up
            stop_tick = rng.randint(before_last, ref.total - 1)
            spare = [readings[-1] + ref.dur * Fraction(i, 2) for i in range(0, 7)]
        segs.append({"pre_tempo": pre, "readings_exact": readings, "between": between, "stop_tick": stop_tick, "spare_exact": spare,
                     "pause": None if k == 0 else pause})
        t = readings[-1]
    cb = {i: v for i, v in cb.items() if i < ref.total}
    return {"kind": kind, "target": target, "target_rate": target_rate, "tempo": tempo, "tpb": tpb, "cb": cb, "segments": segs}


def rerun_payload(c):
    return {"target": c["target"], "target_rate": c["target_rate"], "tempo": c["tempo"], "tpb": c["tpb"],
            "cb": {str(i): v for i, v in c["cb"].items()},
            "segments": [{"pre_tempo": s["pre_tempo"], "readings": [float(t) for t in s["readings_exact"]],
                          "between": {str(j): v for j, v in s["between"].items()}, "stop_tick": s["stop_tick"],
                          "spare": [float(t) for t in s["spare_exact"]]} for s in c["segments"]]}


def rerun_snippet(c):
    return ("import json, subprocess; print(subprocess.run(['/venv/bin/python', 'harness/impl/c14_impl.py'], "
            "input=json.dumps({'rerun': [%s]}), capture_output=True, text=True, env={'PYTHONPATH': '<repo>'}).stdout)" % json.dumps(rerun_payload(c)))


def oracle_rerun(c, all_counts, code):
    """independent judgement from the property text: EVERY run of the clock delivers floor(elapsed since that run began /
    tick duration) ticks - the time the clock spent stopped is not caught up, nothing is lost.  Returns None or
    (kind, detail, index of the run)."""
    segs = c["segments"]
    tpb, a = c["tpb"], c["target_rate"]
    unit = (not truthy(a)) or a == tpb or c["target"] == "timeline"
    if code != 0:
        return ("clock-raises", "Clock.run ended with code %r in run %d" % (code, len(all_counts)), len(all_counts) - 1)
    if len(all_counts) != len(segs):
        return ("runs", "%d runs recorded for %d runs made" % (len(all_counts), len(segs)), 0)
    base, cur, J = 0, c["tempo"], 0
    for k, (s, counts) in enumerate(zip(segs, all_counts)):
        ts = s["readings_exact"]
        where = "run %d of the same clock%s: " % (k + 1, "" if k == 0 else " (stopped for %s s before it%s)" % (
            float(s["pause"]), "" if s["pre_tempo"] is None else ", tempo set to %s meanwhile" % s["pre_tempo"]))
        if s["pre_tempo"] is not None:
            cur = s["pre_tempo"]
        if len(counts) != len(ts):
            return ("wakeups", where + "%d wake-ups for %d readings%s" % (
                len(counts), len(ts), " (stop() was called from inside tick %d: the run must end with that wake-up)" % s["stop_tick"] if s["stop_tick"] is not None else ""), k)
        if counts and counts[0] != base:
            return ("tick-count", where + "%d ticks delivered on entry to run(), before any time has elapsed in this run (floor(0 / duration) = 0)" % (counts[0] - base), k)
        if unit:
            sub = {"readings_exact": ts, "tpb": tpb, "target_rate": a, "target": c["target"], "tempo": cur,
                   "cb": {i - base: v for i, v in c["cb"].items() if i >= base}, "between": s["between"]}
            v = oracle_clock(sub, [n - base for n in counts], 0)
            if v:
                return (v[0], where + v[1], k)
        else:
            d = delta(cur, tpb)
            for j, (t, n) in enumerate(zip(ts, counts)):
                want = E(J + (t - ts[0]) // d, a, tpb)
                if n != want:
                    return ("tick-count", where + "after wake-up %d (elapsed in this run %s s = %s tick durations; %d clock ticks in earlier runs) %d target ticks in all, "
                            "the rate converter owes %d" % (j, float(t - ts[0]), float((t - ts[0]) / d), J, n, want), k)
            J += (ts[-1] - ts[0]) // d
        # the tempo in force when this run ended: the changes in the order they took effect
        prev = base
        for j, n in enumerate(counts):
            if j in s["between"]:
                cur = s["between"][j]
            for i in sorted(c["cb"]):
                if prev <= i < n:
                    cur = c["cb"][i]
            prev = n
        base = counts[-1] if counts else base
    return None


def check_rerun(run):
    rng = run.rng
    n = 72 if run.tier == "quick" else 1200
    kinds = ["plain"] * 4 + ["tempo"] * 4 + ["dyadic"] * 3 + ["ratio"] * 1
    cases = []
    while len(cases) < n:
        c = gen_rerun_case(rng, kinds[len(cases) % len(kinds)])
        if c is None:
            run.discard("re-run script: no reading >= 2e-6 s away from every deadline found in 8 tries")
            continue
        cases.append(c)
    res = run_sharded(run, "rerun", [rerun_payload(c) for c in cases], lambda p: sum(len(s["readings"]) for s in p["segments"]))
    terms, meta = [], []
    for c, r in zip(cases, res):
        segs = c["segments"]
        run.count(sum(len(s["readings_exact"]) for s in segs))
        run.dist("rerun.%s.%s.%d-runs" % (c["kind"], c["target"], len(segs)))
        for s in segs[1:]:
            d_est = delta(c["tempo"], c["tpb"])
            run.dist("rerun.pause.%s" % ("zero" if s["pause"] == 0 else "<1 initial tick duration" if s["pause"] < d_est else "<100 initial tick durations" if s["pause"] < 100 * d_est else ">=100 initial tick durations"))
            if s["pre_tempo"] is not None:
                run.dist("rerun.tempo-changed-while-stopped")
        for s in segs:
            run.dist("rerun.stopped-from-%s" % ("tick-callback" if s["stop_tick"] is not None else "outside"))
        if c["cb"] or any(s["between"] for s in segs):
            run.dist("rerun.tempo-changed-while-running")
        run.nontrivial("rerun %r" % (rerun_payload(c),))
        if "error" in r:
            run.violation({"kind": "clock-raises", "site": "Clock.run (run again)"}, {
                "case": rerun_payload(c), "observed": "unexpected %s" % r["error"], "python": rerun_snippet(c)})
            continue
        counts, code = r["counts"], r["code"]
        run.cov["oracle_evaluations"] += sum(len(s["readings_exact"]) for s in segs)
        verdict = oracle_rerun(c, counts, code)
        if verdict:
            k = verdict[2]
            run.violation({"kind": verdict[0], "site": "Clock.run (run again)"}, {
                "case": rerun_payload(c), "observed": verdict[1], "run": k + 1,
                "counts_observed_per_run": [x[:40] for x in counts],
                "oracle": "each run of a clock delivers floor(elapsed since THAT run began / tick duration) ticks after every wake-up; the time spent stopped is not caught up",
                "python": rerun_snippet(c)})
            continue
        tpb = c["tpb"]
        fr = [t for s in segs for t in s["readings_exact"]] + [delta(c["tempo"], tpb)] + [delta(v, tpb) for v in c["cb"].values()] + \
             [delta(v, tpb) for s in segs for v in list(s["between"].values()) + ([s["pre_tempo"]] if s["pre_tempo"] is not None else [])]
        D = 1
        for x in fr:
            D = D * x.denominator // math.gcd(D, x.denominator)
        U = lambda x: int(x * D)
        dl = lambda v: "None" if v is None else "(Some %s)" % zlit(U(delta(v, tpb)))
        seg_lits = []
        for s in segs:
            ts = s["readings_exact"]
            rds = "[" + "; ".join("(%s, %s)" % (zlit(U(t)), dl(s["between"].get(j))) for j, t in enumerate(ts)) + "]"
            seg_lits.append("mkSeg %s %s %s" % (dl(s["pre_tempo"]), zlit(U(ts[0])), rds))
        out = None if c["target"] == "timeline" else c["target_rate"]
        terms.append("rerun_ok %s %s %s %s [%s] [%s] %s" % (
            rlit(out), rlit(tpb), plist(sorted((i, U(delta(v, tpb))) for i, v in c["cb"].items())), zlit(U(delta(c["tempo"], tpb))),
            "; ".join(seg_lits), "; ".join(zlist(x) for x in counts), zlit(code)))
        meta.append((c, counts))
    if cases:
        run.sample({"rerun_script": {k: v for k, v in rerun_payload(cases[0]).items() if k != "segments"},
                    "runs": [{"first_readings": s["readings"][:4], "pre_tempo": s["pre_tempo"], "stop_tick": s["stop_tick"]} for s in rerun_payload(cases[0])["segments"]],
                    "counts": [x[:5] for x in res[0].get("counts", [])]})
    t0 = time.time()
    failing = run.coq_failing(HEADER_RERUN, terms, chunk=6, jobs=12)
    run.cov["coq_seconds_rerun"] = round(time.time() - t0, 1)
    run.cov["traces_validated_against_impl"] += len(terms) - len(failing)
    for i in failing:
        c, counts = meta[i]
        run.violation({"kind": "correspondence", "site": "Clock.run (run again)"}, {
            "broken": "correspondence model/implementation on a Clock run several times (C14_rerun_* no longer speak about this code)",
            "case": rerun_payload(c), "counts_observed_per_run": [x[:40] for x in counts], "coq_term": terms[i][:3000], "python": rerun_snippet(c)},
            found_input=False)


# ================================================================================================
# 4. MidiInputDevice._callback
# ================================================================================================
NOTELIKE = ["note_on", "note_off", "control_change", "pitchwheel"]
OTHER = ["continue", "active_sensing", "reset", "tune_request", "program_change", "aftertouch", "polytouch", "song_select", "sysex"]


def gen_msgs(rng, n, allow_startstop=True):
    msgs = []
    while len(msgs) < n:
        u = rng.random()
        if u < 0.45:
            msgs.append(["clock"])
        elif u < 0.60:
            for _ in range(rng.randint(1, 12)):          # a burst of non-clock traffic
                msgs.append([rng.choice(NOTELIKE + OTHER), rng.randint(0, 127)])
        elif u < 0.72:
            msgs.append([rng.choice(NOTELIKE), rng.randint(0, 127)])
        elif u < 0.80:
            msgs.append([rng.choice(OTHER), rng.randint(0, 127)])
        elif u < 0.90:
            msgs.append(["songpos", rng.choice([0, 0, 1, 2, 16, 16383])])
        elif allow_startstop:
            msgs.append([rng.choice(["start", "stop"])])
        else:
            msgs.append(["clock"])
    return msgs[:n]


def msg_lit(m, idx):
    k = m[0]
    if k == "clock":
        return "Clock"
    if k == "start":
        return "Start"
    if k == "stop":
        return "Stop"
    if k == "songpos":
        return "(SongPos %s)" % zlit(m[1])
    if k in NOTELIKE:
        return "(NoteLike %d)" % idx
    return "(Other %d)" % idx


# ---- the wall clock seen by the callback ---------------------------------------------------------------------
# The property quantifies over ALL sequences of clock/start/stop/song-position messages: nothing about WHEN they arrive
# may decide whether a 'clock' ticks the target.  Every message therefore carries the instant `time.time()` (and
# monotonic/perf_counter) shows while the callback handles it, in units of 2^-20 s (exactly representable floats).
UNIT = 2 ** 20
PROFILES = ["back-to-back", "steady", "jitter", "tempo-jumps", "fast", "slow", "pauses", "dropouts", "frozen", "still",
            "backwards", "wild", "intra"]
TRANSPORT = ("start", "stop", "continue", "songpos")


def loguniform(rng, lo, hi):
    return max(lo, min(hi, int(round(math.exp(rng.uniform(math.log(lo), math.log(hi)))))))


def gen_transport(rng, n):
    """what a sequencer sends: runs of clocks, transport messages (stop ... continue / songpos 0, start), some notes"""
    msgs = []
    while len(msgs) < n:
        for _ in range(rng.choice([1, 2, 6, 12, 24, 24, 48, 96])):
            msgs.append(["clock"])
            if rng.random() < 0.05:
                msgs.append([rng.choice(NOTELIKE), rng.randint(0, 127)])
        u = rng.random()
        if u < 0.35:
            msgs += [["stop"], ["continue"]]
        elif u < 0.6:
            msgs += [["stop"], ["songpos", 0], ["start"]]
        elif u < 0.7:
            msgs += [["stop"], ["songpos", rng.choice([0, 4, 16])], ["continue"]]
        elif u < 0.8:
            msgs.append(["start"])
        elif u < 0.9:
            msgs.append(["stop"])
    return msgs[:n]


def strip_startstop(msgs):
    return [m for m in msgs if m[0] not in ("start", "stop")] or [["clock"]]


def gen_times(rng, msgs, profile):
    """instants (units) for the messages and the advance of the clock per reading inside one callback"""
    t = rng.choice([1000, 1700000000]) * UNIT + rng.randrange(UNIT)
    intra = 0
    sub = profile
    if profile == "intra":
        intra = rng.choice([1, 7, 100, 5000])
        sub = rng.choice(["steady", "wild", "pauses", "fast"])
    bpm = rng.choice([20, 30, 60, 90, 120, 125, 140, 174, 200, 300]) if rng.random() < 0.6 else rng.uniform(20, 300)
    if sub == "frozen":
        bpm = rng.choice([120, 174, 200, 300])
    d = max(1, int(round(2.5 / bpm * UNIT)))
    coarse = rng.choice([16384, 16384, 1024, UNIT]) if sub == "frozen" else None      # a timer of 15.6 ms / 1 ms / 1 s resolution
    times, last_clock, after_transport = [], None, False
    for m in msgs:
        if m[0] != "clock":
            t += rng.randrange(0, max(1, d // 16)) if rng.random() < 0.7 else 0
            after_transport = after_transport or m[0] in TRANSPORT
            times.append(t)
            continue
        if last_clock is None:
            t += rng.randrange(0, d)
        else:
            u = rng.random()
            if sub == "back-to-back":
                iv = rng.randint(3, 60)
            elif sub == "steady" or sub == "frozen":
                iv = d
            elif sub == "jitter":
                iv = max(1, int(round(d * rng.uniform(0.8, 1.2))))
            elif sub == "tempo-jumps":
                if u < 0.08:
                    d = max(1, int(round(2.5 / rng.uniform(20, 300) * UNIT)))
                iv = d
            elif sub == "fast":
                iv = loguniform(rng, 1, 1000)
            elif sub == "slow":
                iv = loguniform(rng, UNIT // 2, 120 * UNIT)
            elif sub == "pauses":
                iv = loguniform(rng, UNIT // 2, 3600 * UNIT) if (after_transport and u < 0.8) or u < 0.04 else d
            elif sub == "dropouts":
                iv = d * rng.choice([2, 3, 4, 10]) if u < 0.1 else d
            elif sub == "still":
                iv = 0 if u < 0.3 else d
            elif sub == "backwards":
                iv = -loguniform(rng, 1, 7200 * UNIT) if u < 0.08 else d
            else:       # wild
                iv = 0 if u < 0.05 else -loguniform(rng, 1, 2 ** 33) if u < 0.1 else loguniform(rng, 1, 2 ** 33)
            t = max(t, last_clock + iv) if iv > 0 else last_clock + iv
        t = max(t, UNIT)
        last_clock, after_transport = t, False
        times.append(t)
    if coarse:
        times = [x // coarse * coarse for x in times]
    return times, intra


def clock_intervals(c):
    """per message: None, or for a 'clock' the difference between the reading the callback takes first and the last
    reading taken while handling the previous 'clock' (None for the first clock)"""
    out, last, intra = [], None, c.get("intra", 0)
    for m, t in zip(c["msgs"], c["times"]):
        if m[0] != "clock":
            out.append(None)
        elif last is None:
            out.append(None)
            last = t
        else:
            out.append(t - last)
            last = t + intra
    return out


def raise_when(c, j):
    """classifies an exception for the signature: 'zero-interval-clock' = a clock message handled at (within the few
    readings one callback takes of) the instant of the previous clock message"""
    if c["msgs"][j][0] != "clock":
        return "other"
    prev = [i for i in range(j) if c["msgs"][i][0] == "clock"]
    if prev and abs(c["times"][j] - c["times"][prev[-1]]) <= 3 * c.get("intra", 0):
        return "zero-interval-clock"
    return "clock"


def secs(units):
    return "%.9g s" % (units / UNIT)


SNIPPET = """import mido, isobar as iso, isobar.io.midi.input as mi
mido.open_input = lambda *a, **k: type("FakePort", (), {"name": "fake"})()
now = [0.0]
def read():
    now[0] += %r / 2**20; return now[0] - %r / 2**20
class VirtualTime: time = monotonic = perf_counter = staticmethod(read)
mi.time = VirtualTime
ticks = []
class Target:
    def tick(self): ticks.append(1)
    def start(self): pass
    stop = reset = start
dev = iso.MidiInputDevice(clock_target=Target())
sent = 0
for kind, arg, t in %s:
    now[0] = t / 2**20; sent += kind == "clock"
    try: dev._callback(mido.Message(kind, pos=arg) if kind == "songpos" else mido.Message(kind))
    except Exception as e: print("raises", type(e).__name__)
print(len(ticks), "ticks for", sent, "clock messages")"""


def midi_snippet(c):
    if all(m[0] in ("clock",) + TRANSPORT for m in c["msgs"]) and len(c["msgs"]) <= 60:
        seq = [[m[0], m[1] if len(m) > 1 else 0, t] for m, t in zip(c["msgs"], c["times"])]
        return SNIPPET % (c.get("intra", 0), c.get("intra", 0), json.dumps(seq))
    return "see harness/impl/c14_impl.py run_midi_in (instants in units of 2^-20 s); case: %s" % json.dumps(c)[:1500]


def judge_midi_in(run, c, r):
    """independent oracle: per message the calls on the clock target, no exception.  Returns the list of
    (index, kind, extra signature keys, text) of the FIRST offence of each kind."""
    want = {"clock": [0], "start": [1], "stop": [2]}
    raised = dict((j, name) for j, name in r.get("exc", []))
    ivs = clock_intervals(c)
    bad, seen = [], set()
    for j, (m, got) in enumerate(zip(c["msgs"], r["per_msg"])):
        w = want.get(m[0], [3] if m[0] == "songpos" and m[1] == 0 else [])
        if not c["has_target"]:
            w = []
        run.cov["oracle_evaluations"] += 1
        iv = ivs[j]
        since = "" if iv is None else ", %s (%d units of 2^-20 s) after the previous clock message by time.time()" % (secs(iv), iv)
        if j in raised:
            when = raise_when(c, j)
            key = ("midi-in-raises", raised[j], when)
            if key not in seen:
                seen.add(key)
                bad.append((j, "midi-in-raises", {"error": raised[j], "when": when},
                            "message %d %r raised %s%s" % (j, m, raised[j], since)))
        elif got != w:
            kind = "clock-message-not-one-tick" if m[0] == "clock" else "non-clock-message-calls-target"
            if kind not in seen:
                seen.add(kind)
                bad.append((j, kind, {}, "message %d %r made the clock-target calls %r (0 tick, 1 start, 2 stop, 3 reset), expected %r%s"
                            % (j, m, got, w, since)))
    return bad


def shrink_midi_in(run, c, j, kind):
    """neighbouring smaller inputs that still fail in the same way: the two clock messages around the offence alone,
    then the clock/transport messages alone; otherwise the case cut after the offence"""
    cut = {"has_target": c["has_target"], "has_cb": c["has_cb"], "intra": c.get("intra", 0),
           "msgs": c["msgs"][:j + 1], "times": c["times"][:j + 1]}
    idx = [i for i in range(j + 1) if c["msgs"][i][0] == "clock"]
    cands = []
    if c["msgs"][j][0] == "clock" and len(idx) >= 2:
        cands.append(idx[-2:])
    cands.append([i for i in range(j + 1) if c["msgs"][i][0] in ("clock",) + TRANSPORT])
    for keep in cands:
        if not keep or len(keep) > j:
            continue
        small = dict(cut, msgs=[c["msgs"][i] for i in keep], times=[c["times"][i] for i in keep])
        try:
            rr = run.impl("c14_impl", {"midi_in": [small]})["midi_in"][0]
        except Exception:
            continue
        if "error" in rr:
            continue
        b = [x for x in judge_midi_in(run, small, rr) if x[1] == kind]
        if b:
            return small, b[0]
    return cut, None


def enc5(calls):
    v = 0
    for x in calls:
        v = v * 5 + (x + 1)
    return v


def tempo_lits(c, r):
    """(k, literals): the estimates the harness compares — after every clock message among the first k messages, while
    the readings are strictly increasing and the clock does not move inside a callback (what the estimate is otherwise
    the property does not say), and while the exact rational of the model stays below ~1500 bits"""
    if c.get("intra", 0):
        return 0, []
    out, k, bits = [], 0, 0.0
    ivs = clock_intervals(c)
    tempos = iter(r.get("tempos", []))
    for j, m in enumerate(c["msgs"]):
        if m[0] != "clock":
            continue
        iv = ivs[j]
        t = next(tempos, "missing")
        if iv is not None:
            if iv <= 0:
                break
            bits += math.log2(800 * iv)
            if bits > 1500 or len(out) >= 200:
                break
        if t is None:
            out += [0, -1]
        elif isinstance(t, list) and t[1] > 0 and t[1] & (t[1] - 1) == 0:
            out += [t[0], t[1].bit_length() - 1]
        else:
            out += [0, 0]           # not a finite float: cannot agree with a positive estimate
        k = j + 1
    return k, out


def check_midi(run):
    rng = run.rng
    per = 11 if run.tier == "quick" else 120
    cases = []
    for i in range(per * len(PROFILES)):
        profile = PROFILES[i % len(PROFILES)]
        n = rng.randint(5, 160)
        msgs = gen_transport(rng, n) if rng.random() < 0.35 else gen_msgs(rng, n)
        times, intra = gen_times(rng, msgs, profile)
        cases.append({"has_target": rng.random() < 0.85, "has_cb": rng.random() < 0.4, "msgs": msgs, "times": times,
                      "intra": intra, "profile": profile})
    fixed = [["start"], ["clock"], ["stop"], ["songpos", 0], ["songpos", 5], ["continue"]]
    cases.append({"has_target": True, "has_cb": False, "msgs": fixed, "times": [1000 * UNIT + 10 * i for i in range(len(fixed))],
                  "intra": 0, "profile": "back-to-back"})
    res = run_sharded(run, "midi_in", cases, lambda c: len(c["msgs"]))
    terms, meta = [], []
    for c, r in zip(cases, res):
        run.count(len(c["msgs"]))
        run.dist("midi_in.target=%s.cb=%s" % (c["has_target"], c["has_cb"]))
        run.dist("midi_in.time=%s" % c["profile"])
        ivs = [iv for iv in clock_intervals(c) if iv is not None]
        for name, f in (("zero", lambda x: x == 0), ("negative", lambda x: x < 0), ("<1ms", lambda x: 0 < x < UNIT // 1000),
                        ("1ms-1s", lambda x: UNIT // 1000 <= x <= UNIT), ("1s-10s", lambda x: UNIT < x <= 10 * UNIT),
                        (">10s", lambda x: x > 10 * UNIT)):
            if any(f(x) for x in ivs):
                run.dist("midi_in.clock-interval %s" % name)
        run.nontrivial("midi_in %r" % (c,))
        if "error" in r:
            run.violation({"kind": "midi-in-raises", "site": "MidiInputDevice._callback"},
                          {"case": c, "observed": r["error"], "python": midi_snippet(c)})
            continue
        bad = judge_midi_in(run, c, r)
        for j, kind, extra, text in bad:
            sig = {"kind": kind, "site": "MidiInputDevice._callback"}
            sig.update(extra)
            probe = dict(sig)
            if any(k.get("status") == "known" and all(probe.get(a) == b for a, b in k.get("match", {}).items()) for k in run.known) \
                    or any(v["sig"] == json.dumps(sig, sort_keys=True) for v in run.violations):
                run.violation(sig, {})          # known / already reported: no shrinking run
                continue
            small, b = shrink_midi_in(run, c, j, kind)
            run.violation(sig, {"case": small, "observed": (b[3] if b else text), "profile": c["profile"],
                                "expected": "exactly one clock_target.tick() per 'clock' message, start/stop/songpos 0 -> start/stop/reset, "
                                            "nothing else, no exception — whatever the wall-clock instants of the messages",
                                "python": midi_snippet(small)})
        if bad:
            continue
        if r.get("ticks_per_beat") != 24:
            run.violation({"kind": "midi-in-rate", "site": "MidiInputDevice.ticks_per_beat"}, {
                "case": {}, "observed": "MidiInputDevice.ticks_per_beat = %r, MIDI clock is 24 PPQN" % r.get("ticks_per_beat"), "python": midi_snippet(c)})
        t0 = min(c["times"])
        k, tempos = tempo_lits(c, r)
        run.cov["midi_tempo_estimates_compared"] = run.cov.get("midi_tempo_estimates_compared", 0) + len(tempos) // 2
        terms.append("(let ms := %s in midi_in_ok %s %s ms %s %s %s && midi_in_timed_ok %d %s %s %s ms %d%%nat %s %s)" % (
            lst([msg_lit(m, i) for i, m in enumerate(c["msgs"])]),
            blit(c["has_target"]), blit(c["has_cb"]), zlist(r["calls"]), zlist(r["user"]), zlist(r["queue"]),
            UNIT, blit(c["has_target"]), zlit(c["intra"]), zlist([t - t0 for t in c["times"]]), k,
            zlist([enc5(x) for x in r["per_msg"]]), zlist(tempos)))
        meta.append((c, None, "MidiInputDevice._callback"))
    # a Timeline clocked by the MIDI input
    per2 = 5 if run.tier == "quick" else 60
    tcases = []
    for i in range(per2 * len(PROFILES)):
        profile = PROFILES[i % len(PROFILES)]
        nd = rng.choice((1, 2, 3))
        devs = []
        for _ in range(nd):
            u = rng.random()
            devs.append(rng.choice([1, 2, 3, 4, 6, 8, 12, 24]) if u < 0.35 else 24 * rng.randint(1, 80) if u < 0.55 else
                        "midi" if u < 0.72 else None if u < 0.85 else rng.choice([5, 7, 9, 10, 16, 36, 100, 480 + 1]))
        n = rng.randint(5, 120)
        msgs = strip_startstop(gen_transport(rng, n)) if rng.random() < 0.35 else gen_msgs(rng, n, allow_startstop=False)
        times, intra = gen_times(rng, msgs, profile)
        tcases.append({"devs": devs, "msgs": msgs, "times": times, "intra": intra, "profile": profile})
    tres = run_sharded(run, "midi_tl", tcases, lambda c: len(c["msgs"]))
    for c, r in zip(tcases, tres):
        run.count(len(c["msgs"]))
        run.nontrivial("midi_tl %r" % (c,))
        run.dist("midi_tl.time=%s" % c["profile"])
        snippet = "see harness/impl/c14_impl.py run_midi_tl (instants in units of 2^-20 s); case: %s" % json.dumps(c)[:1500]
        if "error" in r:
            run.violation({"kind": "midi-in-raises", "site": "MidiInputDevice->Timeline"}, {"case": c, "observed": r["error"], "python": snippet})
            continue
        refused = any(truthy(dev_rate(s)) and not divides_either(dev_rate(s), 24) for s in c["devs"])
        run.dist("midi_tl.%s" % ("refused" if refused else "ok"))
        if r.get("exc"):
            j, name = r["exc"][0]
            iv = clock_intervals(c)[j]
            when = raise_when(c, j)
            run.violation({"kind": "midi-in-raises", "site": "MidiInputDevice->Timeline", "error": name, "when": when}, {
                "case": {"devs": c["devs"], "msgs": c["msgs"][:j + 1], "times": c["times"][:j + 1], "intra": c["intra"]},
                "observed": "message %d %r raised %s%s" % (j, c["msgs"][j], name, "" if iv is None else " (%s after the previous clock message)" % secs(iv)),
                "python": snippet})
            continue
        # oracle
        pos, nclk, bad = 0, 0, None
        ivs = clock_intervals(c)
        per, code = expected_timeline(24, c["devs"], sum(1 for m in c["msgs"] if m[0] == "clock"))
        for j, m in enumerate(c["msgs"]):
            if j >= len(r["obs"]):
                bad = (j, m, None, "missing")
                break
            calls, p = r["obs"][j]
            run.cov["oracle_evaluations"] += 1
            if m[0] == "clock":
                if code:
                    if r["code"] != -1 or len(r["obs"]) != j + 1:
                        bad = (j, m, (calls, p, r["code"]), "a ClockException on the first clock message")
                    break
                pos += 1
                w = per[nclk]
                nclk += 1
            else:
                w = []
                if m[0] == "songpos" and m[1] == 0:
                    pos = 0
            if calls != w or p != pos:
                bad = (j, m, (calls, p), (w, pos))
                break
        if bad is None and not refused and r["code"] != 0:
            bad = (len(r["obs"]) - 1, None, r["code"], 0)
        if bad:
            j, m, got, w = bad
            iv = ivs[j] if j < len(ivs) else None
            run.violation({"kind": "midi-clock-timeline", "site": "MidiInputDevice->Timeline"}, {
                "case": {"devs": c["devs"], "msgs": c["msgs"][:j + 1], "times": c["times"][:j + 1], "intra": c["intra"]}, "profile": c["profile"],
                "observed": "message %d %r%s: (device ticks, timeline position in ticks) = %r, expected %r" % (
                    j, m, "" if iv is None else " arriving %s after the previous clock message by time.time()" % secs(iv), got, w),
                "python": snippet})
            continue
        mslit = lst([msg_lit(m, i) for i, m in enumerate(c["msgs"])])
        obs = "[" + "; ".join("(%s, %s)" % (zlist(o[0]), zlit(o[1])) for o in r["obs"]) + "]"
        terms.append("midi_tl_ok %s %s %s %s" % (lst([rlit(dev_rate(s)) for s in c["devs"]]), mslit, obs, zlit(r["code"])))
        meta.append((c, bad, "MidiInputDevice->Timeline"))
    run.sample({"midi_in_msgs": cases[0]["msgs"][:8], "target_calls": res[0].get("calls", [])[:8]})
    failing = run.coq_failing(HEADER_MIDI, terms, chunk=12, jobs=14)
    run.cov["traces_validated_against_impl"] += len(terms) - len(failing)
    for i in failing:
        c, bad, site = meta[i]
        if bad:
            continue
        run.violation({"kind": "correspondence", "site": site}, {
            "broken": "correspondence model/implementation on %s (calls per message, tempo estimate on increasing readings; "
                      "C14_midi_in / C14_midi_in_timed / C14_midi_tempo_* no longer speak about this code)" % site,
            "case": c, "coq_term": terms[i][:2000]}, found_input=False)


# ================================================================================================
# 5. MidiInputDevice wired to a REAL Timeline (clock_target = the timeline, clock_source = the device)
# ================================================================================================
# The dimension: start / stop / songpos messages travel _callback -> Timeline.start/stop/reset -> and BACK into the
# device (clock_source.run()/stop()); user-level timeline.stop()/start()/reset() between two messages; further clock
# messages afterwards.  Model: Clock/MidiInWired.v; theorems C14_midi_wired_*.
HEADER_WIRED = """From Coq Require Import QArith.
From Isobar Require Import Base.Prelude Clock.Multiplier Clock.MidiIn Clock.MidiInTimed Clock.MidiInWired.
Local Open Scope Z_scope.
"""
SITE_WIRED = "MidiInputDevice<->Timeline"
USER_EVENTS = ("user_stop", "user_start", "user_reset")
EV_CODE = {"clock": 0, "start": 1, "stop": 2, "songpos": 3, "user_stop": 6, "user_start": 7, "user_reset": 8}


def ev_code(m, idx):
    k = m[0]
    if k in EV_CODE:
        return EV_CODE[k], (m[1] if k == "songpos" else 0)
    return (4 if k in NOTELIKE else 5), idx


def gen_wired_events(rng, n):
    """message sequences with transport messages and user-level timeline calls in between, clock messages after each"""
    u = rng.random()
    if u < 0.55:
        msgs = gen_transport(rng, n)
    elif u < 0.85:
        msgs = gen_msgs(rng, n)
    else:                                   # dense: short clock runs separated by one transport event each
        msgs = []
        while len(msgs) < n:
            msgs += [["clock"]] * rng.randint(1, 4)
            msgs.append(rng.choice([["stop"], ["start"], ["songpos", 0], ["songpos", 7], ["continue"], ["stop"], ["user_stop"],
                                    ["user_start"], ["user_reset"], ["note_on", rng.randint(0, 127)]]))
        msgs = msgs[:n]
    out = []
    p_user = rng.choice([0.0, 0.03, 0.08, 0.15])
    for m in msgs:
        if rng.random() < p_user:
            out.append([rng.choice(["user_stop", "user_stop", "user_start", "user_reset"])])
        out.append(m)
    out += [["clock"]] * rng.randint(1, 6)          # whatever came last is followed by clock messages
    return out


def wired_strata(evs):
    """which orders of events the history holds (each needs a clock message AFTER the transport event)"""
    seen, state = set(), "fresh"
    for m in evs:
        k = m[0]
        if k == "clock":
            if state != "fresh":
                seen.add("clock after " + state)
            continue
        if k in ("stop", "user_stop"):
            if state.endswith("stop"):
                seen.add("stop twice")
            state = "stop message" if k == "stop" else "user-level stop"
        elif k in ("start", "user_start"):
            seen.add("start after stop" if "stop" in state else "start without a stop before")
            state = "start message" if k == "start" else "user-level start"
        elif (k == "songpos" and m[1] == 0) or k == "user_reset":
            if "stop" in state:
                state = "stop, then rewind"
            elif state == "fresh":
                state = "rewind"
        elif k == "continue" and "stop" in state:
            state = "stop, then continue"
    return seen


WIRED_SNIPPET = """import time as _t, mido, isobar as iso, isobar.io.midi.input as mi
mido.open_input = lambda *a, **k: type("FakePort", (), {"name": "fake"})()
now = [0.0]
def read():
    now[0] += %r / 2**20; return now[0] - %r / 2**20
class VirtualTime: time = monotonic = perf_counter = staticmethod(read); sleep = staticmethod(_t.sleep)
mi.time = VirtualTime
class Dev(iso.OutputDevice):
    def __init__(self, rate): super().__init__(); self.rate, self.ticks = rate, 0
    ticks_per_beat = property(lambda self: self.rate)
    def tick(self): self.ticks += 1
    def all_notes_off(self): pass
class CountingTimeline(iso.Timeline):
    n_ticks = 0
    def tick(self): self.n_ticks += 1; super().tick()
devs = [Dev(r) for r in %r]
midi_in = iso.MidiInputDevice()
tl = CountingTimeline(output_device=devs[0], clock_source=midi_in)
for d in devs[1:]: tl.add_output_device(d)
sent = 0
for kind, arg, t in %s:
    now[0] = t / 2**20; sent += kind == "clock"
    if kind == "user_stop": tl.stop()
    elif kind == "user_start": tl.start()
    elif kind == "user_reset": tl.reset()
    else: midi_in._callback(mido.Message(kind, pos=arg) if kind == "songpos" else mido.Message(kind))
    print(kind, "->", tl.n_ticks, "Timeline.tick() calls for", sent, "clock messages; position", round(tl.current_time * 24), "ticks")"""


def wired_snippet(c):
    simple = ("clock",) + TRANSPORT + USER_EVENTS
    if all(m[0] in simple for m in c["evs"]) and len(c["evs"]) <= 80:
        seq = [[m[0], m[1] if len(m) > 1 else 0, t] for m, t in zip(c["evs"], c["times"])]
        return WIRED_SNIPPET % (c.get("intra", 0), c.get("intra", 0), [dev_rate(d) for d in c["devs"]], json.dumps(seq))
    return "see harness/impl/c14_impl.py run_midi_wired (instants in units of 2^-20 s); case: %s" % json.dumps(c)[:1500]


def judge_wired(run, c, r):
    """independent oracle from the property text: exactly one Timeline.tick() per 'clock' message (cumulative count after
    EVERY event; the position advances by exactly one tick on every clock message — where a transport event leaves it is
    compared with the model only), the device ticks of the k-th clock message = those of the k-th tick of a 24-PPQN
    timeline, no device tick on any other event, a refused rate raises on the first clock message.
    Returns (index, text) of the first offence or None."""
    nclk_total = sum(1 for m in c["evs"] if m[0] == "clock")
    per, code = expected_timeline(24, c["devs"], nclk_total)
    pos, nclk = 0, 0
    for j, m in enumerate(c["evs"]):
        if j >= len(r["obs"]):
            return j, "event %d %r: the run ended early (code %r)" % (j, m, r["code"])
        calls, p, nt = r["obs"][j]
        if m[0] != "clock":
            pos = p         # where a transport event leaves the position is the model's business (correspondence), not the property's
        dticks = [x for x in calls if isinstance(x, int) and x < 10]
        run.cov["oracle_evaluations"] += 1
        if m[0] == "clock":
            if code and nclk == len(per) - 1:
                if r["code"] != -1 or len(r["obs"]) != j + 1:
                    return j, "event %d %r: a device rate that neither divides nor is a multiple of 24 must raise a ClockException here; got code %r" % (j, m, r["code"])
                return None
            pos += 1
            w = per[nclk]
            nclk += 1
        else:
            w = []
        if nt != nclk or p != pos or dticks != w:
            before = [x[0] for x in c["evs"][:j] if x[0] != "clock" and x[0] in ("start", "stop", "songpos", "continue") + USER_EVENTS]
            return j, ("event %d %r: %d Timeline.tick() calls so far for %d clock messages, position %d ticks (expected %d), device ticks %r "
                       "(expected %r); transport events before it: %r" % (j, m, nt, nclk, p, pos, dticks, w, before[-6:]))
    if r["code"] != 0:
        return len(r["obs"]) - 1, "the run ended with code %r although every device rate is accepted" % (r["code"],)
    return None


def shrink_wired(run, c, j):
    """smaller histories that still fail: the clock / transport / user events up to the offence, then that with the
    clock runs before the last transport event shortened"""
    cut = dict(c, evs=c["evs"][:j + 1], times=c["times"][:j + 1])
    keep = [i for i in range(j + 1) if c["evs"][i][0] in ("clock",) + TRANSPORT + USER_EVENTS]
    cands = [keep]
    tr = [i for i in keep if c["evs"][i][0] != "clock"]
    if tr:
        for back in (1, 2, 3):
            first = tr[-back] if len(tr) >= back else tr[0]
            cands.append([i for i in keep if i >= first - 1])
    best = (cut, None)
    for k in cands:
        if not k or len(k) >= len(best[0]["evs"]):
            continue
        small = dict(c, evs=[c["evs"][i] for i in k], times=[c["times"][i] for i in k])
        try:
            rr = run.impl("c14_impl", {"midi_wired": [small]})["midi_wired"][0]
        except Exception:
            continue
        if "error" in rr or rr.get("exc"):
            continue
        b = judge_wired(run, small, rr)
        if b:
            best = (small, b[1])
    return best


def check_midi_wired(run):
    rng = run.rng
    per = 5 if run.tier == "quick" else 40
    cases = []
    profiles = ["back-to-back", "steady", "jitter", "pauses", "slow", "still", "backwards", "wild", "intra", "fast"]
    fixed_evs = [["clock"]] * 3 + [["stop"]] + [["clock"]] * 3 + [["songpos", 0]] + [["clock"]] * 2 + [["start"]] + [["clock"]] * 2 \
        + [["user_stop"]] + [["clock"]] * 2 + [["user_start"]] + [["clock"]] + [["user_reset"]] + [["clock"]]
    cases.append({"devs": [24, "midi", None], "evs": fixed_evs, "times": [1000 * UNIT + 21845 * i for i in range(len(fixed_evs))],
                  "intra": 0, "profile": "steady"})
    for i in range(per * len(profiles)):
        profile = profiles[i % len(profiles)]
        nd = rng.choice((1, 2, 3))
        devs = []
        for _ in range(nd):
            u = rng.random()
            devs.append(rng.choice([1, 2, 3, 4, 6, 8, 12, 24]) if u < 0.4 else 24 * rng.randint(1, 20) if u < 0.6 else
                        "midi" if u < 0.78 else None if u < 0.93 else rng.choice([5, 7, 9, 10, 16, 36, 100]))
        evs = gen_wired_events(rng, rng.randint(6, 90))
        times, intra = gen_times(rng, evs, profile)
        cases.append({"devs": devs, "evs": evs, "times": times, "intra": intra, "profile": profile})
    res = run_sharded(run, "midi_wired", cases, lambda c: len(c["evs"]) * (1 + 8 * sum(1 for d in c["devs"] if d == "midi")))
    terms, meta = [], []
    for c, r in zip(cases, res):
        run.count(len(c["evs"]))
        run.nontrivial("midi_wired %r" % (c,))
        run.dist("midi_wired.devices=%d" % len(c["devs"]))
        for st in sorted(wired_strata(c["evs"])):
            run.dist("midi_wired.%s" % st)
        if "error" in r:
            run.violation({"kind": "midi-in-raises", "site": SITE_WIRED}, {"case": c, "observed": r["error"], "python": wired_snippet(c)})
            continue
        refused = any(truthy(dev_rate(s)) and not divides_either(dev_rate(s), 24) for s in c["devs"])
        run.dist("midi_wired.%s" % ("refused" if refused else "ok"))
        view = {"msgs": c["evs"], "times": c["times"], "intra": c["intra"]}
        if r.get("exc"):
            j, name = r["exc"][0]
            run.violation({"kind": "midi-in-raises", "site": SITE_WIRED, "error": name, "when": raise_when(view, j)}, {
                "case": dict(c, evs=c["evs"][:j + 1], times=c["times"][:j + 1]),
                "observed": "event %d %r raised %s" % (j, c["evs"][j], name), "python": wired_snippet(dict(c, evs=c["evs"][:j + 1], times=c["times"][:j + 1]))})
            continue
        bad = judge_wired(run, c, r)
        if bad:
            j, text = bad
            sig = {"kind": "midi-clock-wired-timeline", "site": SITE_WIRED}
            if any(v["sig"] == json.dumps(sig, sort_keys=True) for v in run.violations):
                run.violation(sig, {})
                continue
            small, t2 = shrink_wired(run, c, j)
            run.violation(sig, {
                "case": small, "profile": c["profile"], "observed": t2 or text,
                "expected": "an external MIDI clock advances the timeline by exactly one tick per clock message, for all sequences of "
                            "clock/start/stop/song-position messages (and user-level timeline.stop()/start()/reset() between them)",
                "python": wired_snippet(small)})
            continue
        if r.get("problems"):
            run.violation({"kind": "wired-thread", "site": SITE_WIRED}, {
                "case": c, "observed": "the thread spawned by Timeline.start(): %r" % (r["problems"][:3],), "python": wired_snippet(c)})
            continue
        ks, args = zip(*[ev_code(m, i) for i, m in enumerate(c["evs"])])
        t0 = min(c["times"])
        obs = "[" + "; ".join("(%s, (%s, %s))" % (zlist([x if isinstance(x, int) else 99 for x in o[0]]), zlit(o[1]), zlit(o[2]))
                              for o in r["obs"]) + "]"
        terms.append("wired_ok %d %s %s %s %s %s %s %s" % (
            UNIT, lst([rlit(dev_rate(s)) for s in c["devs"]]), zlit(c["intra"]), zlist(list(ks)), zlist(list(args)),
            zlist([t - t0 for t in c["times"]]), obs, zlit(r["code"])))
        meta.append(c)
    run.sample({"midi_wired_events": cases[0]["evs"][:12], "obs": res[0].get("obs", [])[:12]})
    failing = run.coq_failing(HEADER_WIRED, terms, chunk=10, jobs=8)
    run.cov["traces_validated_against_impl"] += len(terms) - len(failing)
    for i in failing:
        run.violation({"kind": "correspondence", "site": SITE_WIRED}, {
            "broken": "correspondence model/implementation on a MidiInputDevice wired to a Timeline (calls made by the Timeline per event incl. "
                      "clock_source.stop()/run(), position, Timeline.tick() count; Clock/MidiInWired.v, C14_midi_wired_* no longer speak about this code)",
            "case": meta[i], "coq_term": terms[i][:2000]}, found_input=False)


# ================================================================================================
# 6. A timeline that is RE-CONFIGURED after construction
# ================================================================================================
# The dimension: the clock source is replaced on an existing timeline (another PPQN, the same PPQN; Clock / DummyClock /
# MidiInputDevice) or ticks_per_beat is assigned; devices are added / replaced while it runs; send_clock of a MIDI output is
# switched after the device was attached.  Then: device ratios exact for the rate the timeline HAS, 24 pulses per beat on a
# MIDI clock output.  Model: Clock/Reconfig.v; theorems C14_reconfig_*, C14_send_clock_*, C14_replaced_clock.
HEADER_RECONFIG = """From Isobar Require Import Base.Prelude Clock.Multiplier Clock.Reconfig.
"""
SITE_RECONFIG = "Timeline.tick(reconfigured)"
RC_RATES = [480, 480, 96, 24, 120, 960, 48, 240, 192, 12]


def rc_rate(spec):
    return 24 if spec in ("midi_on", "midi_off") else spec


def rc_on(spec):
    return spec != "midi_off"


def rc_simulate(case, retune):
    """per-tick observation codes and end code.  retune=True: what the property demands (the converters are made anew, by
    the first tick after it, when the timeline's rate has changed since they were made); retune=False: converters are made
    once, at attach time, for the rate the timeline had then (for the classification of a deviation only)."""
    R = case["rate"]
    devs = [{"r": rc_rate(sp), "on": rc_on(sp), "j": 0, "R": R} for sp in case["devs"]]
    conv = R
    out, code = [], 0
    for ev in case["events"]:
        k = ev[0]
        if k == "tick":
            for _ in range(ev[1]):
                if retune and conv != R:
                    conv = R
                    for d in devs:
                        d["j"], d["R"] = 0, R
                v = 0
                for i, d in enumerate(devs):
                    if truthy(d["r"]) and truthy(d["R"]):
                        if not divides_either(d["r"], d["R"]):
                            code = -1
                            break
                        n = E(d["j"] + 1, d["r"], d["R"]) - E(d["j"], d["r"], d["R"])
                    else:
                        n = 1
                    d["j"] += 1
                    for _ in range(n):
                        v = v * 8 + (2 * i + (1 if d["on"] else 0) + 1)
                out.append(v)
                if code:
                    return out, code
        elif k == "replace_clock":
            R = 24 if ev[1] == "midi" else ev[2]
        elif k == "set_tpb":
            R = ev[1]
        elif k == "add_device":
            devs.append({"r": rc_rate(ev[1]), "on": rc_on(ev[1]), "j": 0, "R": R})
            if len(devs) == 1:
                conv = R
        elif k == "set_device":
            devs = [{"r": rc_rate(ev[1]), "on": rc_on(ev[1]), "j": 0, "R": R}]
            conv = R
        elif k == "send_clock":
            devs[ev[1]]["on"] = bool(ev[2])
    return out, code


def rc_pick_device(rng, R):
    u = rng.random()
    if u < 0.30:
        return rng.choice(["midi_on", "midi_off"])
    if u < 0.42:
        return None
    ok = [r for r in (1, 2, 3, 4, 6, 8, 12, 24, 48, 96, 120, 240, 480, 960) if divides_either(r, R) and r <= 4 * R]
    return rng.choice(ok) if ok and u < 0.95 else rng.choice([5, 7, 9, 100])


def gen_reconfig_case(rng, i):
    strata = ["replace-clock", "replace-clock", "set-tpb", "send-clock-late", "send-clock-toggle", "add-device", "set-device", "replace-same-rate", "mixed"]
    stratum = strata[i % len(strata)]
    R = rng.choice(RC_RATES)
    devs = [rc_pick_device(rng, R) for _ in range(rng.choice((1, 1, 2, 3)))]
    if stratum.startswith("send-clock"):
        devs[0] = "midi_off"
    events = []
    cur = R
    ndev = [len(devs)]
    midi_idx = lambda: [j for j, sp in enumerate(cur_devs) if sp in ("midi_on", "midi_off")]
    cur_devs = list(devs)
    clk = ["internal"]

    def ticks(n):
        events.append(["tick", max(1, n)])

    def change_rate(same=False):
        nonlocal cur
        kind = rng.choice(["clock", "clock", "dummy", "midi", "tpb"])
        if kind == "tpb" and clk[0] == "midi":          # a MIDI clock's rate cannot be assigned
            kind = "clock"
        if same:
            new = cur
            kind = rng.choice(["clock", "dummy"])
        else:
            cands = [r for r in RC_RATES if r != cur]
            new = rng.choice(cands) if rng.random() < 0.85 else rng.choice([100, 36, 7, 1000])
        if kind == "midi":
            new = 24
        if kind == "tpb":
            events.append(["set_tpb", new])
        else:
            events.append(["replace_clock", kind, new])
            clk[0] = kind
        cur = new
        ticks(2 * cur + rng.randint(0, 5) if cur <= 960 else cur + 3)         # two beats at the new rate

    ticks(rng.choice([0, 1, 3, 7, 20, 33, cur // 2 + 1, cur + 2]) or 1)
    if stratum == "replace-clock":
        change_rate()
        if rng.random() < 0.4:
            change_rate()
    elif stratum == "set-tpb":
        events.append(["set_tpb", rng.choice([r for r in RC_RATES if r != cur])]); cur = events[-1][1]
        ticks(2 * cur + 1)
    elif stratum == "replace-same-rate":
        change_rate(same=True)
    elif stratum == "send-clock-late":
        events.append(["send_clock", 0, 1]); ticks(2 * cur + 3)
    elif stratum == "send-clock-toggle":
        for on in (1, 0, 1, 0, 1)[:rng.randint(2, 5)]:
            events.append(["send_clock", 0, on]); ticks(rng.choice([5, cur // 3 + 1, cur + 1]))
    elif stratum == "add-device":
        sp = rc_pick_device(rng, cur); events.append(["add_device", sp]); cur_devs.append(sp); ticks(cur + 5)
        if len(cur_devs) < 3 and rng.random() < 0.5:
            sp = rc_pick_device(rng, cur); events.append(["add_device", sp]); cur_devs.append(sp); ticks(cur // 2 + 5)
    elif stratum == "set-device":
        sp = rc_pick_device(rng, cur); events.append(["set_device", sp]); cur_devs = [sp]; ticks(cur + 5)
    else:
        for _ in range(rng.randint(2, 4)):
            u = rng.random()
            if u < 0.35:
                change_rate(same=rng.random() < 0.2)
            elif u < 0.55 and len(cur_devs) < 3:
                sp = rc_pick_device(rng, cur); events.append(["add_device", sp]); cur_devs.append(sp); ticks(rng.choice([7, cur + 1]))
            elif u < 0.65:
                sp = rc_pick_device(rng, cur); events.append(["set_device", sp]); cur_devs = [sp]; ticks(rng.choice([7, cur + 1]))
            elif midi_idx():
                events.append(["send_clock", rng.choice(midi_idx()), rng.choice([0, 1, 1])]); ticks(rng.choice([9, cur + 1]))
            else:
                ticks(11)
    return {"rate": R, "clock": rng.choice(["dummy", "internal"]), "devs": devs, "events": events, "stratum": stratum}


def reconfig_snippet(c):
    return ("import json, subprocess; print(subprocess.run(['/venv/bin/python', 'harness/impl/c14_impl.py'], input=json.dumps({'reconfig': [%s]}), "
            "capture_output=True, text=True, env={'PYTHONPATH': '<repo>'}).stdout)   # per tick: base-8 digits 2*device + pulse + 1, sparse against dflt"
            % json.dumps(dict({k: v for k, v in c.items() if k != "stratum"}, dflt=0)))


def describe_obs(v):
    ds = []
    while v:
        d = v % 8 - 1
        ds.append("dev%d%s" % (d // 2, "+clock" if d % 2 else ""))
        v //= 8
    return list(reversed(ds))


def check_reconfig(run):
    rng = run.rng
    n = 54 if run.tier == "quick" else 700
    cases = [gen_reconfig_case(rng, i) for i in range(n)]
    # fixed: the default 480-PPQN timeline, a MIDI output attached with clock output off, switched on later (24 per beat);
    # the clock source replaced by a 96-PPQN Clock with a MIDI clock output attached (24 per beat at the new rate)
    cases += [{"rate": 480, "clock": "internal", "devs": ["midi_off"], "events": [["tick", 7], ["send_clock", 0, 1], ["tick", 961]], "stratum": "send-clock-late"},
              {"rate": 96, "clock": "dummy", "devs": ["midi_off", 12], "events": [["tick", 3], ["send_clock", 0, 1], ["tick", 193]], "stratum": "send-clock-late"},
              {"rate": 480, "clock": "internal", "devs": ["midi_on"], "events": [["tick", 30], ["replace_clock", "clock", 96], ["tick", 193]], "stratum": "replace-clock"}]
    exp = []
    for c in cases:
        per, code = rc_simulate(c, True)
        c["dflt"] = mode(per)
        exp.append((per, code))
    res = run_sharded(run, "reconfig", [{k: v for k, v in c.items() if k != "stratum"} for c in cases],
                      lambda c: sum(e[1] for e in c["events"] if e[0] == "tick"))
    terms, meta = [], []
    for c, r, (per, code) in zip(cases, res, exp):
        nt = sum(e[1] for e in c["events"] if e[0] == "tick")
        run.count(nt)
        run.cov["oracle_evaluations"] += len(per)
        run.nontrivial("reconfig %r" % (c,))
        run.dist("reconfig.%s" % c["stratum"])
        for e in c["events"]:
            if e[0] == "replace_clock":
                run.dist("reconfig.clock source replaced by %s" % {"clock": "Clock", "dummy": "DummyClock", "midi": "MidiInputDevice"}[e[1]])
        if code:
            run.dist("reconfig.refused after the change")
        snippet = reconfig_snippet(c)
        if "error" in r:
            run.violation({"kind": "reconfig-raises", "site": SITE_RECONFIG}, {"case": c, "observed": "unexpected %s" % r["error"], "python": snippet})
            continue
        want = (len(per), to_sparse(per, c["dflt"]), code)
        if (r["len"], r["sparse"], r["code"]) != want:
            got = dict((i, v) for i, v in r["sparse"])
            j = next((j for j in range(max(len(per), r["len"])) if (per[j] if j < len(per) else None) != (got.get(j, c["dflt"]) if j < r["len"] else None)), None)
            stale, scode = rc_simulate(c, False)
            is_stale = (r["len"], r["sparse"], r["code"]) == (len(stale), to_sparse(stale, c["dflt"]), scode) and any(e[0] in ("replace_clock", "set_tpb") for e in c["events"])
            # where is tick j in the history?
            pos, where = 0, "?"
            for e in c["events"]:
                if e[0] == "tick":
                    if j is not None and pos <= j < pos + e[1]:
                        break
                    pos += e[1]
                else:
                    where = e
            gotj = got.get(j, c["dflt"]) if j is not None and j < r["len"] else None
            wantj = per[j] if j is not None and j < len(per) else None
            detail = ("tick %s of the history (tick %s after %r): device.tick() calls %s, expected %s; end code %r, expected %r (-1 = ClockException)"
                      % (j, None if j is None else j - pos, where, None if gotj is None else describe_obs(gotj), None if wantj is None else describe_obs(wantj), r["code"], code))
            sig = {"kind": "device-ticks-after-rate-change", "site": SITE_RECONFIG, "what": "stale-converter"} if is_stale else \
                {"kind": "reconfig-device-ticks", "site": SITE_RECONFIG}
            run.violation(sig, {
                "case": c, "observed": detail,
                "expected": "after a re-configuration every device receives exactly rate_out / rate_in ticks per timeline tick for the rate the timeline HAS "
                            "(a MIDI clock output 24 pulses per beat, from the first pulse after clock output is switched on), rates that do not divide one "
                            "another are refused no later than the first tick",
                "python": snippet})
            continue
        want_rates = [24 if e[1] == "midi" else (e[2] if e[0] == "replace_clock" else e[1]) for e in c["events"] if e[0] in ("replace_clock", "set_tpb")]
        got_rates = list(r.get("rates", []))
        if (got_rates != want_rates) if r["code"] == 0 else (got_rates != want_rates[:len(got_rates)]):
            run.violation({"kind": "reconfig-rate", "site": SITE_RECONFIG}, {"case": c, "observed": "Timeline.ticks_per_beat after the changes: %r" % (r.get("rates"),), "python": snippet})
            continue
        es = []
        for e in c["events"]:
            k = e[0]
            if k == "tick":
                es.append([0, e[1]])
            elif k == "replace_clock":
                es.append([1, 24 if e[1] == "midi" else e[2]])
            elif k == "set_tpb":
                es.append([1, e[1]])
            elif k in ("add_device", "set_device"):
                rr = rc_rate(e[1])
                es.append([2 if k == "add_device" else 3, -1 if rr is None else rr, 1 if rc_on(e[1]) else 0])
            else:
                es.append([4, e[1], e[2]])
        devs = "[" + "; ".join("(%s, %d)" % (zlit(-1 if rc_rate(sp) is None else rc_rate(sp)), 1 if rc_on(sp) else 0) for sp in c["devs"]) + "]"
        terms.append("reconfig_ok %s %s %s %s %s %s %s" % (zlit(c["rate"]), devs, lst([zlist(x) for x in es]), zlit(c["dflt"]), zlit(r["len"]),
                                                          plist(r["sparse"]), zlit(r["code"])))
        meta.append(c)
    run.sample({"reconfig_case": {k: v for k, v in cases[0].items() if k != "dflt"}, "sparse": res[0].get("sparse", [])[:8]})
    failing = run.coq_failing(HEADER_RECONFIG, terms, chunk=8, jobs=8)
    run.cov["traces_validated_against_impl"] += len(terms) - len(failing)
    for i in failing:
        run.violation({"kind": "correspondence", "site": SITE_RECONFIG}, {
            "broken": "correspondence model/implementation on a re-configured timeline (Clock/Reconfig.v; C14_reconfig_* / C14_send_clock_* no longer speak about this code)",
            "case": meta[i], "coq_term": terms[i][:2000], "python": reconfig_snippet(meta[i])}, found_input=False)


def check(run):
    for name, f in (("multiplier", check_multiplier), ("timeline", check_timeline), ("clock", check_clock), ("midi", check_midi),
                    ("midi_wired", check_midi_wired), ("reconfig", check_reconfig), ("rerun", check_rerun)):
        t0 = time.time()
        f(run)
        run.cov["seconds_" + name] = round(time.time() - t0, 1)
    run.cov["rule"] = ("one case = one rate pair run for 4*period+1 next() calls / one Timeline with 1-3 devices ticked over >= 2 periods / "
                       "one virtual-clock script (25-110 wake-ups) / one MIDI message sequence / one history of messages and user-level calls on a MidiInputDevice wired to a Timeline; distinct by content; "
                       "non-trivial = at least one tick is due.  Compared: values yielded, device.tick() calls per Timeline.tick() in call order, "
                       "cumulative clock_target.tick() count after every wake-up, calls on the clock target per MIDI message.")


def replay(run, doc):
    case, sig = doc.get("case", {}), doc.get("signature", {})
    site = sig.get("site")
    bad = []
    if site == SITE_MULT and "out" in case:
        steps = case.get("steps", 12)
        exp = expected_codes(case["out"], case["in"], steps)
        dflt = mode(exp)
        r = run.impl("c14_impl", {"mult": [{"out": case["out"], "in": case["in"], "steps": steps, "dflt": dflt}]})["mult"][0]
        if "error" in r or (r["len"], r["sparse"]) != (len(exp), to_sparse(exp, dflt)):
            bad.append("make_clock_multiplier(%r, %r): observed %r, expected sparse %r (default %r, len %d)" % (
                case["out"], case["in"], r, to_sparse(exp, dflt), dflt, len(exp)))
    elif site == "Timeline.tick" and "devs" in case:
        per, code = expected_timeline(case["rate"], case["devs"], case["ticks"])
        encs = [enc_calls(x) for x in per]
        c = dict(case); c["dflt"] = mode(encs)
        r = run.impl("c14_impl", {"timeline": [c]})["timeline"][0]
        if "error" in r or (r["len"], r["sparse"], r["code"]) != (len(encs), to_sparse(encs, c["dflt"]), code):
            bad.append("Timeline.tick: observed %r, expected sparse %r code %r" % (r, to_sparse(encs, c["dflt"])[:20], code))
    else:
        print("replay: re-running the whole check")
        if run.build():
            check(run)
        return run.finish()
    for b in bad:
        print("REPLAY-FAILS:", b)
    if bad:
        print("VIOLATION property=C14 replay=(replayed)")
    return 1 if bad else 0

#!/venv/bin/python
"""Translator: the method bodies of isobar's pattern classes (`__next__`, `reset`, `__init__`), read from the SOURCE
TEXT of isobar/pattern/{core,sequence,scalar}.py of the repository under test with `ast`, rendered as Gallina
definitions over the types of the hand-written pattern model (Pat/Val.v, Pat/Syntax.v) -> coq/Generated/TablesStep.v.

For a class C with model constructor `C f1 .. fn` (Pat/Syntax.v, `Inductive pat`; the field list and the field TYPES
are read from that file: the typing of the attributes is the model's decision, the translator checks the source
against it) the translator emits

  src_C_next  bop pvalue pnext fuel [lfuel] self_f1 .. self_fn : outcome val * pat
  src_C_reset rp pvalue fuel self_f1 .. self_fn               : outcome pat
  src_C_init  rp pvalue fuel <constructor parameters>         : outcome pat

  bop    : op -> val -> val -> outcome val            Python's binary operators on values
  pvalue : nat -> arg -> outcome val * arg            Pattern.value(x) at a fuel: (outcome, new state of x)
  pnext  : nat -> arg -> outcome val * arg            next(x)
  rp     : pat -> outcome pat                         x.reset() on a child
  fuel   : nat                                        the fuel handed to the calls on children
  lfuel  : nat                                        (classes with a `while`) the iteration budget of each loop

Pat/StepSrc.v proves `step (S f) (C ..) = src_C_next <binop> (value) (anext) f .. ` (and the reset / construct
analogues) for every class listed as translated, so an edit of a method body in the source changes the generated
term and breaks that proof (a proof obligation of C04 C08 C09 C10 C12), unless the edit preserves the meaning under
the translation below.

The translation (a symbolic execution of the statement list; all Python values are immutable terms of type val, Z,
bool, list val; the object's attributes are threaded as the current field terms; every point at which Python can
raise returns the outcome together with the object state reached so far):

  x = Pattern.value(self.f)    let '(o, f') := pvalue fuel f in match o with Yield x => .. | _ => (o, <state>) end
  x = next(self.f)             the same with pnext; if self.f is a `list val` field it is an iterator over a list:
                               match f with v :: r => .. [f := r] | [] => (Stop, <state>) end
  try: .. except StopIteration: H        a Stop outcome of a child call / a `raise StopIteration` inside the body
                                         continues with H (then the rest); the body falling through continues with the rest
  raise StopIteration          (Stop, <state>)
  return e                     (Yield e, <state>); `return <one operator application>` is (that outcome, <state>)
  falling off the end          (Yield VNone, <state>)
  self.f = e / self.f op= e    the field term is replaced (e must have the field's model type: an int-typed (Z)
                               field only takes int expressions; a val field takes anything, ints as VInt, bools as VBool)
  x = Pattern.value(self.f), x then used as a list (len(x), x[i]):  Pattern.value returns a list as it is, so x is the
                               list held by self.f:  match f with AL l => .. | _ => (Inexact, <state>) end  (the model
                               covers list literals only);  len(x) = zlen l;  Pattern.value(x[i]):
                               match py_index l i with Some a => let '(o, a') := pvalue fuel a in
                               .. [l := update_nth (py_index_pos l i) a' l, in f as well] | None => IndexError
  x = e                        the local is bound to the term (no aliasing: list-typed values cannot be bound)
  self.f.append(e)             f := f ++ [e]          (f : list val)
  if c: A else: B              the rest of the body is translated under each branch
  while c: B                   a Fixpoint over an iteration budget n (initially lfuel): c false -> the rest;
                               c true, n = 0 -> OutOfFuel; c true, n = S n' -> B with the children called at fuel n',
                               then the loop at n'.  Only at the top level of the body (not inside try / another loop).
  a + b, a - b, ... pow(a, b), a < b (as a value)      both ints (Z): exact integer +, -, *; otherwise
                               match bop O a b with Yield x => .. | o => (o, <state>) end   (ints enter as VInt)
  abs(x), int(x)               py_abs, py_int (outcome val)
  len(self.f)                  zlen f (f : list val);   self.f[i] (f : list val, i : Z): py_index f i, None -> IndexError;
                               i a value: int_of i (ints and bools), anything else -> TypeError
  sys.maxsize                  MAXSIZE (Val.v; gen_tables_pat.py checks the interpreter's value)
  conditions:  x is None / is not None -> is_none;  ==, != -> py_eq (total);  <, <=, >, >= on ints -> Z comparisons,
               on values -> omap truthy (bop O a b) (can raise);  a value as a condition -> truthy;  not / and / or
               with Python's evaluation order and short-circuit;  `a if c else b` likewise
  self.f.reset() / self.g = self.f.all() / return next(self)      preset / pall / pself (parameters only when used)
  try: .. except StopIteration: self.f = ..; raise                the bare raise re-raises StopIteration
  [Pattern.value(v) for v in self.f] (f : list arg)               values_of (pvalue fuel) f
  dict((k, Pattern.value(v)) for k, v in list(self.f.items()))    kwvalues_of (pvalue fuel) f     (f : list (string * arg))
  x = Pattern.value(self.f); dict([(k, Pattern.value(x[k])) for k in x])      f = AD kv: VDict of kwvalues_of (pvalue fuel) kv
  self.operator(v, *args, **kwargs) (operator : fn)               apply_fn operator v args kwargs
  x = Pattern.value(self.f), x subscripted under Pattern.value: f = AL l (items stepped in place), otherwise x is the value
                               Pattern.value gives and Pattern.value(x[i]) is py_seq_item x i; if that path does not
                               translate it is outside the model (Inexact)
  super().reset() (reset only) Pattern.reset: every Pattern-holding attribute (model type arg), in the order in which
                               __init__ creates the attributes: obind (reset_field rp f) (fun f' => ..)
                               (reset_field: a pattern, the items of a list, the values of a dict, and - since the repair
                               C04-reset-tuples - the patterns inside tuples wherever Pattern.value resolves them)
  self.reset() (last statement of __init__ only)      the translated reset on the fields assigned so far
  Pattern.pattern(x) (__init__ only)                  patternify x

Everything else - `for`, comprehensions, calls of other functions or methods, subscripts of anything but a `list val`
field, tuple assignment, float literals, nested loops, an attribute the model does not carry that is read or assigned a
non-constant ... - REJECTS THE CLASS (it is then simply not tied; the header of the generated file and stdout say why).
A class of the REQUIRED list (those Pat/StepSrc.v has a proof for) that is rejected makes the generator exit 3: the check
reports a broken proof obligation, never a silent default.

The methods of the base class that the generated terms call as primitives - Pattern.value (pvalue), Pattern.reset
(reset_field), Pattern.pattern (patternify), the default Pattern.__next__ - are transcribed by hand in Pat/Step.v; their
normalised source text is PINNED in harness/gen_tables_step.pin and compared on every run (exit 3 on a difference;
`gen_tables_step.py <out> --write-pin` after the model has been revisited).

Trusted (hand-written) in the translation: this file, i.e. the reading of the Python statement forms above; the table
BINOPS (which operator class is which `PBinOp o`); the helper functions of Pat/Val.v / Pat/Step.v the terms refer to
(py_eq truthy py_abs py_int py_index zlen reset_field patternify is_none MAXSIZE)."""
import ast, os, re, sys

HERE = os.path.dirname(os.path.abspath(__file__))


class Reject(Exception):
    pass


BINOPS = {  # operator node class -> the `o` of its model constructor `PBinOp o a b`
    "PAdd": "OAdd", "PSub": "OSub", "PMul": "OMul", "PDiv": "ODiv", "PFloorDiv": "OFloorDiv", "PMod": "OMod",
    "PPow": "OPow", "PLShift": "OLShift", "PRShift": "ORShift", "PEqual": "OEq", "PNotEqual": "ONe",
    "PGreaterThan": "OGt", "PGreaterThanOrEqual": "OGe", "PLessThan": "OLt", "PLessThanOrEqual": "OLe",
}
PY_BINOP = {ast.Add: "OAdd", ast.Sub: "OSub", ast.Mult: "OMul", ast.Div: "ODiv", ast.FloorDiv: "OFloorDiv",
            ast.Mod: "OMod", ast.Pow: "OPow", ast.LShift: "OLShift", ast.RShift: "ORShift"}
PY_CMP = {ast.Eq: "OEq", ast.NotEq: "ONe", ast.Gt: "OGt", ast.GtE: "OGe", ast.Lt: "OLt", ast.LtE: "OLe"}
Z_ARITH = {ast.Add: "+", ast.Sub: "-", ast.Mult: "*"}
Z_CMP = {ast.Eq: "(%s =? %s)", ast.NotEq: "(negb (%s =? %s))", ast.Gt: "(%s >? %s)", ast.GtE: "(%s >=? %s)",
         ast.Lt: "(%s <? %s)", ast.LtE: "(%s <=? %s)"}

# the classes to translate, in the order of the task: (source file, class)
WANTED = ([("core.py", c) for c in ["PConstant", "PAbs", "PInt"] + list(BINOPS) + ["PAnd", "PRef"]] +
          [("sequence.py", c) for c in ["PSeries", "PRange", "PGeom", "PImpulse", "PCounter", "PStutter", "PPad",
                                        "PPadToMultiple", "PLoop", "PSequence", "PSubsequence", "PReverse", "PCollapse",
                                        "PNoRepeats", "PReset", "PPingPong"]] +
          [("scalar.py", c) for c in ["PChanged", "PDiff", "PSkipIf", "PRound", "PWrap", "PScaleLinLin", "PIndexOf", "PMap"]] +
          [("core.py", c) for c in ["PConcatenate", "PArrayIndex", "PDict", "PDictKey"]])

# what Pat/StepSrc.v has a proof for: (class, method).  A rejection of one of these is an error (exit 3).
REQUIRED = set()
for _c in ["PConstant", "PAbs", "PInt", "PAnd", "PRef"] + list(BINOPS):
    REQUIRED |= {(_c, "next"), (_c, "reset"), (_c, "init")}
for _c in ["PSeries", "PRange", "PGeom", "PImpulse", "PCounter", "PStutter", "PPad", "PPadToMultiple", "PLoop",
           "PCollapse", "PNoRepeats", "PChanged", "PDiff", "PSkipIf", "PWrap"]:
    REQUIRED |= {(_c, "next"), (_c, "reset"), (_c, "init")}
REQUIRED |= {("PReverse", "next"), ("PSequence", "next"), ("PSequence", "reset")}
REQUIRED |= {("PSubsequence", m) for m in ("next", "reset", "init")}
for _c in ["PReset", "PIndexOf", "PConcatenate", "PArrayIndex", "PDictKey"]:
    REQUIRED |= {(_c, "reset"), (_c, "init")}
REQUIRED |= {("PDict", "reset")}
REQUIRED |= {(_c, "next") for _c in ["PReset", "PIndexOf", "PConcatenate", "PDictKey"]}
REQUIRED |= {("PPingPong", m) for m in ("next", "reset", "init")}
REQUIRED |= {("PArrayIndex", "next"), ("PDict", "next"), ("PMap", "next")}

COQ_RESERVED = {"end", "in", "let", "fun", "match", "with", "if", "then", "else", "return", "as", "at", "fix", "forall",
                "exists", "Type", "Prop", "Set", "using", "where", "for", "cofix"}
SUPPORTED_TYPES = ("val", "arg", "Z", "bool", "list val", "fn", "list arg", "list (string * arg)")
BUILTINS = ("next", "abs", "int", "len", "pow", "round", "list", "reversed", "super", "isinstance", "dict", "tuple")


# ---------------------------------------------------------------------------------------------------------------------
# the model's declaration of the objects: Inductive pat of Pat/Syntax.v
# ---------------------------------------------------------------------------------------------------------------------
def strip_coq_comments(txt):
    out, depth, i = [], 0, 0
    while i < len(txt):
        if txt.startswith("(*", i):
            depth += 1; i += 2
        elif depth and txt.startswith("*)", i):
            depth -= 1; i += 2
        else:
            if not depth:
                out.append(txt[i])
            i += 1
    return "".join(out)


def model_constructors(syntax_v):
    txt = strip_coq_comments(open(syntax_v).read())
    m = re.search(r"Inductive\s+pat\s*:=(.*?)\bwith\s+arg\s*:=", txt, re.S)
    if not m:
        raise Reject("Pat/Syntax.v: Inductive pat ... with arg not found")
    ctors = {}
    for part in m.group(1).split("|")[1:]:
        part = part.strip()
        name = re.match(r"[A-Za-z_]\w*", part).group(0)
        rest, fields, depth, cur = part[len(name):], [], 0, ""
        for ch in rest:
            if ch == "(":
                depth += 1
                if depth == 1:
                    cur = ""; continue
            if ch == ")":
                depth -= 1
                if depth == 0:
                    names, ty = cur.split(":", 1)
                    fields += [(n, " ".join(ty.split())) for n in names.split()]
                    continue
            if depth >= 1:
                cur += ch
        if depth != 0 or name in ctors:
            raise Reject("Pat/Syntax.v: cannot read constructor " + name)
        ctors[name] = fields
    return ctors


# ---------------------------------------------------------------------------------------------------------------------
# the translation
# ---------------------------------------------------------------------------------------------------------------------
class Env:
    """symbolic state: the current terms of the object's fields and of the locals, and the fuel term for child calls"""

    def __init__(self, fields, locals_, fuel, alias=None):
        self.fields, self.locals, self.fuel = fields, locals_, fuel
        self.alias = alias or {}        # field (type arg) used as a list: field -> the term of the list it holds (AL l)

    def copy(self):
        return Env(dict(self.fields), dict(self.locals), self.fuel, dict(self.alias))

    def set_field(self, name, ty, term):
        e = self.copy(); e.fields[name] = (ty, term); return e

    def set_local(self, name, ty, term):
        e = self.copy(); e.locals[name] = (ty, term); return e


def I(block, n=4):
    """the block on a new line, indented by n (layout of the generated terms only)"""
    return "\n" + " " * n + block.replace("\n", "\n" + " " * n)


# further engine functions a method may need (a parameter of the generated definition only when it is used)
EXTRAS = [("preset", "(preset : nat -> arg -> outcome arg)"),                 # x.reset() on an attribute
          ("pall", "(pall : nat -> arg -> outcome (list val) * arg)"),        # x.all() on an attribute
          ("pself", "(pself : nat -> pat -> outcome val * pat)")]             # next(self)


def extras_sig(names):
    return "".join(" " + sig for (n, sig) in EXTRAS if n in names)


def extras_args(names):
    return "".join(" " + n for (n, _) in EXTRAS if n in names)


def is_self_attr(n):
    return isinstance(n, ast.Attribute) and isinstance(n.value, ast.Name) and n.value.id == "self"


def is_static(n, cls, attr):
    return (isinstance(n, ast.Attribute) and isinstance(n.value, ast.Name) and n.value.id == cls and n.attr == attr)


def src_line(st):
    return ast.unparse(st).splitlines()[0]


class Ctx:
    """where control goes when a statement list ends / when StopIteration is raised in it"""

    def __init__(self, on_end, on_stop=None, in_try=False, in_loop=False, in_handler=False):
        self.on_end, self.on_stop, self.in_try, self.in_loop, self.in_handler = on_end, on_stop, in_try, in_loop, in_handler


class Method:
    """translation of one method of one class"""

    def __init__(self, klass, mode, fn):
        self.k, self.mode, self.fn = klass, mode, fn
        self.defs = []          # auxiliary Fixpoints (loops), in definition order
        self.counter = 0
        self.nloops = 0
        self.forks = 0
        self.local_names = {n.id for n in ast.walk(fn) if isinstance(n, ast.Name) and isinstance(n.ctx, ast.Store)}
        self.local_names |= {a.arg for a in fn.args.args}
        # locals used as a list (len(x), x[i]): when bound by Pattern.value(self.f) they ARE the list held by self.f
        def child_arg(c):      # the x of Pattern.value(x) / next(x)
            if isinstance(c, ast.Call) and not c.keywords and len(c.args) == 1 and (
                    is_static(c.func, "Pattern", "value") or (isinstance(c.func, ast.Name) and c.func.id == "next")):
                return c.args[0]
            return None
        stepped = [child_arg(c) for c in ast.walk(fn)]
        stepped = {id(a) for a in stepped if isinstance(a, ast.Subscript)}
        subs = [n for n in ast.walk(fn) if isinstance(n, ast.Subscript)]
        lens = [n.args[0] for n in ast.walk(fn) if isinstance(n, ast.Call) and isinstance(n.func, ast.Name)
                and n.func.id == "len" and len(n.args) == 1 and not n.keywords]
        # x in `dict([(k, Pattern.value(x[k])) for k in x])`: x is the dict held by an attribute
        self.dictlike = {d[0] for d in (self.dict_comp(c) for c in ast.walk(fn)) if d}
        self.listlike = {n.value.id for n in subs if isinstance(n.value, ast.Name) and id(n) in stepped and n.value.id not in self.dictlike}
        self.listlike |= {a.id for a in lens if isinstance(a, ast.Name)}
        # locals used as a container VALUE (x[k] read as a value, `.. in x`, x.index(..)): Pattern.value(self.f) then also
        # accepts a list / dict literal without patterns inside (cvalue)
        self.container = {n.value.id for n in subs if isinstance(n.value, ast.Name) and id(n) not in stepped}
        self.container |= {c.id for n in ast.walk(fn) if isinstance(n, ast.Compare) and len(n.ops) == 1 and isinstance(n.ops[0], (ast.In, ast.NotIn))
                           for c in n.comparators if isinstance(c, ast.Name)}
        self.container |= {n.func.value.id for n in ast.walk(fn) if isinstance(n, ast.Call) and isinstance(n.func, ast.Attribute)
                           and n.func.attr == "index" and isinstance(n.func.value, ast.Name)}
        # attributes used as a list directly (self.f[i] stepped, len(self.f)) where the model types them arg
        self.listfields = [n.value.attr for n in subs if is_self_attr(n.value) and id(n) in stepped] + [a.attr for a in lens if is_self_attr(a)]
        self.listfields = [a for a in dict.fromkeys(self.listfields)
                           if a in klass.attr2field and dict(klass.fields)[klass.attr2field[a]] == "arg"]

    @staticmethod
    def dict_comp(c):
        """dict([(K, Pattern.value(X[K])) for K in X]) -> (X,)"""
        if not (isinstance(c, ast.Call) and isinstance(c.func, ast.Name) and c.func.id == "dict" and len(c.args) == 1 and not c.keywords
                and isinstance(c.args[0], ast.ListComp) and len(c.args[0].generators) == 1):
            return None
        g, e = c.args[0].generators[0], c.args[0].elt
        if g.ifs or g.is_async or not isinstance(g.target, ast.Name) or not isinstance(g.iter, ast.Name):
            return None
        K, X = g.target.id, g.iter.id
        if not (isinstance(e, ast.Tuple) and len(e.elts) == 2 and isinstance(e.elts[0], ast.Name) and e.elts[0].id == K):
            return None
        v = e.elts[1]
        if not (isinstance(v, ast.Call) and is_static(v.func, "Pattern", "value") and len(v.args) == 1 and not v.keywords
                and isinstance(v.args[0], ast.Subscript) and isinstance(v.args[0].value, ast.Name) and v.args[0].value.id == X
                and isinstance(v.args[0].slice, ast.Name) and v.args[0].slice.id == K):
            return None
        return (X,)

    def seq_call(self, fnname, f, env, k, base, ty):
        """values_of / kwvalues_of (pvalue fuel) over a list / dict of possibly pattern-valued items held by field f"""
        o, f2, x = self.fresh("o"), self.fresh("self_" + f), self.fresh(base)
        wrap = (lambda t: "(AD %s)" % t) if ty == "adict" else (lambda t: t)
        cur = env.alias[f] if ty == "adict" else env.fields[f][1]
        env2 = env.set_field(f, dict(self.k.fields)[f], wrap(f2))
        if ty == "adict":
            env2.alias[f] = f2
        if self.mode != "next":
            raise Reject("a comprehension over an attribute outside __next__")
        return "(let '(%s, %s) := %s (pvalue %s) %s in\n match %s with\n | Yield %s =>%s\n | _ => (ocast %s, %s)\n end)" % (
            o, f2, fnname, env.fuel, cur, o, x, I(k(x, env2)), o, self.st(env2))

    def use(self, extra):
        self.k.extras[self.mode].add(extra)
        return extra

    def with_listfields(self, env, body):
        """the body under `match self_f with AL l => .. | _ => (Inexact, <state>)` for every attribute used as a list"""
        if not self.listfields:
            return body(env)
        if self.mode != "next":
            raise Reject("an attribute is used as a list outside __next__")
        a = self.listfields[0]
        f = self.field(a)
        l = self.fresh("l_" + f)
        env2 = env.set_field(f, "arg", "(AL %s)" % l)
        env2.alias[f] = l
        rest = self.listfields[1:]
        saved, self.listfields = self.listfields, rest
        try:
            inner = self.with_listfields(env2, body)
        finally:
            self.listfields = saved
        return "(match %s with\n | AL %s =>%s\n | _ => %s\n end)" % (env.fields[f][1], l, I(inner), self.r_exc(env, "Inexact"))

    # -- names ---------------------------------------------------------------------------------
    def fresh(self, base):
        self.counter += 1
        base = re.sub(r"\W", "_", base)
        return "%s%d" % (base, self.counter)

    def prefix(self):
        if self.mode == "next":
            return "bop pvalue pnext fuel" + (" lfuel" if self.k.has_loops else "")
        return "rp pvalue fuel"

    # -- results ---------------------------------------------------------------------------------
    def st(self, env):
        ts = []
        for (n, ty) in self.k.fields:
            t = env.fields[n][1]
            if t is None:
                raise Reject("attribute %s is not assigned where the object state is needed" % n)
            ts.append(t)
        return "(%s)" % " ".join([self.k.ctor] + ts)

    def res(self, env, o):
        """the result of the method when it ends with outcome term o (of type outcome val)"""
        if self.mode == "next":
            return "(%s, %s)" % (o, self.st(env))
        raise Reject("internal: res in mode " + self.mode)

    def r_yield(self, env, v):
        return self.res(env, "Yield %s" % v) if self.mode == "next" else "(Yield %s)" % self.st(env)

    def r_exc(self, env, o):
        """a non-Yield outcome constant (Stop, Raise e, OutOfFuel)"""
        return self.res(env, o) if self.mode == "next" else "(%s)" % o

    def r_fail(self, env, ovar, is_val):
        """propagation of the non-Yield outcome held by the Coq variable ovar"""
        if self.mode == "next":
            return "(%s, %s)" % (ovar if is_val else "ocast " + ovar, self.st(env))
        return "(ocast %s)" % ovar

    # -- fields and coercions ----------------------------------------------------------------------
    def field(self, attr):
        f = self.k.attr2field.get(attr)
        if f is None:
            raise Reject("attribute self.%s is not a field of the model constructor %s" % (attr, self.k.ctor_name))
        return f

    @staticmethod
    def to_val(ty, t):
        if ty == "val":
            return t
        if ty == "Z":
            return "(VInt %s)" % t
        if ty == "bool":
            return "(VBool %s)" % t
        raise Reject("a value of type %s is used where a Python value is needed" % ty)

    def coerce(self, ty, t, want, what):
        if ty == want:
            return t
        if want == "val":
            return self.to_val(ty, t)
        raise Reject("%s: the model types it %s, the source gives it a %s" % (what, want, ty))

    # -- expressions (value position), continuation passing: k(ty, term, env) -> result term ------------------------
    def bind_m(self, env, oterm, base, k, is_val=True):
        """match <oterm : outcome _> with Yield x => k x | o => propagate"""
        x, o = self.fresh(base), self.fresh("o")
        return "(match %s with\n | Yield %s =>%s\n | %s => %s\n end)" % (oterm, x, I(k(x)), o, self.r_fail(env, o, is_val))

    def child_call(self, fnname, attr, env, ctx, k, base):
        """Pattern.value(self.attr) / next(self.attr): one call on the child, its new state threaded"""
        f = self.field(attr)
        ty, t = env.fields[f]
        if t is None:
            raise Reject("self.%s is read before it is assigned" % attr)
        if ty == "list val" and fnname == "pnext":
            v, r = self.fresh(base), self.fresh("rest")
            env2 = env.set_field(f, ty, r)
            stop = ctx.on_stop(env) if ctx.on_stop else self.r_exc(env, "Stop")
            return "(match %s with\n | %s :: %s =>%s\n | [] =>%s\n end)" % (t, v, r, I(k("val", v, env2)), I(stop))
        if ty != "arg":
            raise Reject("Pattern.value / next on self.%s, which the model types %s" % (attr, ty))
        o, f2, x = self.fresh("o"), self.fresh("self_" + f), self.fresh(base)
        env2 = env.set_field(f, ty, f2)
        if self.mode == "next":
            stop = (" | Stop =>%s\n" % I(ctx.on_stop(env2))) if ctx.on_stop else ""
            return "(let '(%s, %s) := %s %s %s in\n match %s with\n | Yield %s =>%s\n%s | _ => (%s, %s)\n end)" % (
                o, f2, fnname, env.fuel, t, o, x, I(k("val", x, env2)), stop, o, self.st(env2))
        if ctx.on_stop:
            raise Reject("try/except in reset / __init__")
        if fnname != "pvalue":
            raise Reject("next() in reset / __init__")
        return "(let '(%s, %s) := %s %s %s in\n obind %s (fun %s =>%s))" % (o, f2, fnname, env.fuel, t, o, x, I(k("val", x, env2), 1))

    def bind_list(self, name, attr, env, cont, ctx=None):
        ctx = ctx or Ctx(None)
        """x = Pattern.value(self.f) where x is then used as a list: Pattern.value returns a list as it is, so x is the
        list object held by self.f (model: f = AL l; anything else is outside the model: Inexact)"""
        f = self.field(attr)
        ty, t = env.fields[f]
        if ty != "arg" or t is None:
            raise Reject("Pattern.value(self.%s) used as a list, but the model types the attribute %s" % (attr, ty))
        l = self.fresh("l_" + f)
        env2 = env.set_field(f, "arg", "(AL %s)" % l).set_local(name, "alist:" + f, l)
        # anything but a list literal goes through Pattern.value and x is a VALUE; if the rest of the body does with it
        # something that is not translated for values, that path is outside the model
        try:
            saved = (self.counter, self.forks)
            other = self.child_call("pvalue", attr, env, ctx, lambda ty, t2, env1: cont(env1.set_local(name, "seqval", t2)), "v_" + name)
        except Reject:
            self.counter, self.forks = saved
            other = self.r_exc(env, "Inexact")
        return "(match %s with\n | AL %s =>%s\n | _ =>%s\n end)" % (t, l, I(cont(env2)), I(other))

    def element_call(self, fnname, sub, env, ctx, k, base):
        """Pattern.value(x[i]) / next(x[i]), x the list held by self.f (a local bound to it, or self.f itself): one call on
        the element, whose new state goes back into the list"""
        if self.mode != "next":
            raise Reject("a call on a list element outside __next__")
        if isinstance(sub.value, ast.Name) and env.locals.get(sub.value.id, ("",))[0] == "seqval":
            # Pattern.value(x[i]) on a list / tuple VALUE: its items are plain values
            if fnname != "pvalue":
                raise Reject("next() of an item of a list value")
            c = env.locals[sub.value.id][1]
            return self.ev(sub.slice, env, ctx, lambda ti, i, env1: self.prim("(py_seq_item %s %s)" % (c, self.to_val(ti, i)), env1, k, base, None))
        if isinstance(sub.value, ast.Name):
            name = sub.value.id
            ty, _ = env.locals.get(name, ("", None))
            if not ty.startswith("alist:"):
                raise Reject("subscript of %s, which is not a list held by an attribute" % name)
            f = ty.split(":", 1)[1]
            cur = lambda e: e.locals[name][1]
            upd = lambda e, l2: e.set_field(f, "arg", "(AL %s)" % l2).set_local(name, ty, l2)
        else:
            f = self.field(sub.value.attr)
            if f not in env.alias:
                raise Reject("subscript of self.%s, which is not used as a list throughout" % sub.value.attr)
            cur = lambda e: e.alias[f]

            def upd(e, l2):
                e2 = e.set_field(f, "arg", "(AL %s)" % l2)
                e2.alias[f] = l2
                return e2

        def k1(ti, i, env1):
            if ti == "val":
                z = self.fresh("i")
                return "(match int_of %s with\n | Some %s =>%s\n | None => %s\n end)" % (i, z, I(k1("Z", z, env1)), self.r_exc(env1, "Raise TypeError"))
            if ti != "Z":
                raise Reject("index of type %s: %s" % (ti, ast.unparse(sub)))
            l = cur(env1)
            a, o, a2, x = self.fresh("item"), self.fresh("o"), self.fresh("item"), self.fresh(base)
            l2 = "(update_nth (py_index_pos %s %s) %s %s)" % (l, i, a2, l)
            env2 = upd(env1, l2)
            stop = (" | Stop =>%s\n" % I(ctx.on_stop(env2))) if ctx.on_stop else ""
            inner = "(let '(%s, %s) := %s %s %s in\n match %s with\n | Yield %s =>%s\n%s | _ => (%s, %s)\n end)" % (
                o, a2, fnname, env1.fuel, a, o, x, I(k("val", x, env2)), stop, o, self.st(env2))
            return "(match py_index %s %s with\n | Some %s =>%s\n | None => %s\n end)" % (l, i, a, I(inner), self.r_exc(env1, "Raise IndexError"))
        return self.ev(sub.slice, env, ctx, k1)

    def ev(self, n, env, ctx, k, base="x", tail=None):
        """tail: optional function (oterm, env) -> result, used instead of k when the expression is ONE application of
        a primitive that returns an outcome val"""
        if isinstance(n, ast.Constant):
            if n.value is None:
                return k("val", "VNone", env)
            if n.value is True or n.value is False:
                return k("bool", "true" if n.value else "false", env)
            if type(n.value) is int and abs(n.value) < 2 ** 62:
                return k("Z", "%d" % n.value if n.value >= 0 else "(%d)" % n.value, env)
            raise Reject("constant not understood: " + ast.unparse(n))
        if isinstance(n, ast.Name) and isinstance(n.ctx, ast.Load):
            if n.id not in env.locals:
                raise Reject("name %s is not a local bound on this path" % n.id)
            ty, t = env.locals[n.id]
            return k(ty, t, env)
        if is_self_attr(n) and isinstance(n.ctx, ast.Load):
            f = self.field(n.attr)
            ty, t = env.fields[f]
            if t is None:
                raise Reject("self.%s is read before it is assigned" % n.attr)
            if ty == "arg":
                raise Reject("self.%s (a possibly pattern-valued attribute) is used without Pattern.value / next" % n.attr)
            return k(ty, t, env)
        if is_static(n, "sys", "maxsize") and "sys" not in self.local_names:
            return k("Z", "MAXSIZE", env)
        if isinstance(n, ast.List) and not n.elts:
            return k("list val", "[]", env)
        if (isinstance(n, ast.ListComp) and len(n.generators) == 1 and not n.generators[0].ifs and isinstance(n.generators[0].target, ast.Name)
                and is_self_attr(n.generators[0].iter) and isinstance(n.elt, ast.Call) and is_static(n.elt.func, "Pattern", "value")
                and len(n.elt.args) == 1 and isinstance(n.elt.args[0], ast.Name) and n.elt.args[0].id == n.generators[0].target.id):
            # [Pattern.value(v) for v in self.f], f a list / tuple of possibly pattern-valued items
            f = self.field(n.generators[0].iter.attr)
            if dict(self.k.fields)[f] != "list arg":
                raise Reject("comprehension over self.%s, which the model does not type as a list of operands" % n.generators[0].iter.attr)
            return self.seq_call("values_of", f, env, lambda x, e2: k("vals", x, e2), base, "list")
        if (isinstance(n, ast.Call) and isinstance(n.func, ast.Name) and n.func.id == "dict" and "dict" not in self.local_names
                and len(n.args) == 1 and not n.keywords and isinstance(n.args[0], ast.GeneratorExp) and len(n.args[0].generators) == 1):
            # dict((key, Pattern.value(value)) for key, value in list(self.f.items()))
            g, e = n.args[0].generators[0], n.args[0].elt
            it = g.iter
            if isinstance(it, ast.Call) and isinstance(it.func, ast.Name) and it.func.id == "list" and len(it.args) == 1 and not it.keywords:
                it = it.args[0]
            ok = (not g.ifs and isinstance(g.target, ast.Tuple) and len(g.target.elts) == 2 and all(isinstance(t, ast.Name) for t in g.target.elts)
                  and isinstance(it, ast.Call) and isinstance(it.func, ast.Attribute) and it.func.attr == "items" and not it.args and is_self_attr(it.func.value)
                  and isinstance(e, ast.Tuple) and len(e.elts) == 2 and isinstance(e.elts[0], ast.Name) and e.elts[0].id == g.target.elts[0].id
                  and isinstance(e.elts[1], ast.Call) and is_static(e.elts[1].func, "Pattern", "value") and len(e.elts[1].args) == 1
                  and isinstance(e.elts[1].args[0], ast.Name) and e.elts[1].args[0].id == g.target.elts[1].id)
            if not ok:
                raise Reject("dict(generator) not understood: " + ast.unparse(n))
            f = self.field(it.func.value.attr)
            if dict(self.k.fields)[f] != "list (string * arg)":
                raise Reject("self.%s.items(), which the model does not type as a dict of operands" % it.func.value.attr)
            return self.seq_call("kwvalues_of", f, env, lambda x, e2: k("kwvals", x, e2), base, "list")
        d = self.dict_comp(n)
        if d and env.locals.get(d[0], ("",))[0].startswith("adict:"):
            f = env.locals[d[0]][0].split(":", 1)[1]
            return self.seq_call("kwvalues_of", f, env, lambda x, e2: k("val", "(VDict %s)" % x, e2), base, "adict")
        if (isinstance(n, ast.Call) and is_self_attr(n.func) and self.k.attr2field.get(n.func.attr) and dict(self.k.fields)[self.k.attr2field[n.func.attr]] == "fn"
                and len(n.args) == 2 and isinstance(n.args[1], ast.Starred) and isinstance(n.args[1].value, ast.Name)
                and len(n.keywords) == 1 and n.keywords[0].arg is None and isinstance(n.keywords[0].value, ast.Name)):
            # self.operator(x, *args, **kwargs): the function of the catalogue (Syntax.fn) applied by Step.apply_fn
            A, KW = n.args[1].value.id, n.keywords[0].value.id
            if env.locals.get(A, ("",))[0] != "vals" or env.locals.get(KW, ("",))[0] != "kwvals":
                raise Reject("call of self.%s with arguments that are not the resolved args / kwargs" % n.func.attr)
            op = env.fields[self.k.attr2field[n.func.attr]][1]
            return self.ev(n.args[0], env, ctx, lambda ta, a, env1: self.prim(
                "(apply_fn %s %s %s %s)" % (op, self.to_val(ta, a), env1.locals[A][1], env1.locals[KW][1]), env1, k, base, tail))
        if isinstance(n, ast.UnaryOp) and isinstance(n.op, ast.USub):
            def km(ta, a, env1):
                if ta != "Z":
                    raise Reject("unary minus on a non-int: " + ast.unparse(n))
                return k("Z", "(- %s)" % a, env1)
            return self.ev(n.operand, env, ctx, km)
        if (isinstance(n, ast.Subscript) and isinstance(n.value, ast.Name) and isinstance(n.ctx, ast.Load)
                and env.locals.get(n.value.id, ("",))[0] == "val" and n.value.id in self.container):
            # x[k] on a container VALUE (a dict / list value): py_getitem
            return self.ev(n.slice, env, ctx, lambda tk, kk, env1: self.prim(
                "(%s %s %s)" % ("m_scale_getitem" if self.k.tonal else "py_getitem", env.locals[n.value.id][1], self.to_val(tk, kk)), env1, k, base, tail))
        if isinstance(n, ast.BinOp) and type(n.op) in PY_BINOP:
            def k1(ta, a, env1):
                def k2(tb, b, env2):
                    if ta == "Z" and tb == "Z" and type(n.op) in Z_ARITH:
                        return k("Z", "(%s %s %s)" % (a, Z_ARITH[type(n.op)], b), env2)
                    return self.prim("(bop %s %s %s)" % (PY_BINOP[type(n.op)], self.to_val(ta, a), self.to_val(tb, b)), env2, k, base, tail)
                return self.ev(n.right, env1, ctx, k2)
            return self.ev(n.left, env, ctx, k1)
        if isinstance(n, ast.Compare) and len(n.ops) == 1 and type(n.ops[0]) in PY_CMP:
            # a comparison whose RESULT is used as a value: the operator applied to the two values
            def k1(ta, a, env1):
                def k2(tb, b, env2):
                    if "val" not in (ta, tb):
                        raise Reject("comparison of non-values in value position: " + ast.unparse(n))
                    return self.prim("(bop %s %s %s)" % (PY_CMP[type(n.ops[0])], self.to_val(ta, a), self.to_val(tb, b)), env2, k, base, tail)
                return self.ev(n.comparators[0], env1, ctx, k2)
            return self.ev(n.left, env, ctx, k1)
        if isinstance(n, ast.IfExp):
            c = self.cond_ir(n.test, env)
            if c[0] == "pure":
                # both branches pure and without effects: a conditional term
                got = []
                try:
                    for br in (n.body, n.orelse):
                        self.ev(br, env, Ctx(None), lambda ty, t, e2: got.append((ty, t, e2 is env)) or "", tail=lambda o, e2: got.append(None) or "")
                except Reject:
                    got = [None]
                if len(got) == 2 and all(g is not None and g[2] for g in got):
                    (ta, a, _), (tb, b, _) = got
                    if ta == tb:
                        return k(ta, "(if %s then %s else %s)" % (c[1], a, b), env)
                    return k("val", "(if %s then %s else %s)" % (c[1], self.to_val(ta, a), self.to_val(tb, b)), env)
            return self.emit_cond(c, env, lambda: self.ev(n.body, env, ctx, k, base, tail), lambda: self.ev(n.orelse, env, ctx, k, base, tail))
        if isinstance(n, ast.Subscript) and is_self_attr(n.value) and isinstance(n.ctx, ast.Load):
            f = self.field(n.value.attr)
            ty, t = env.fields[f]
            if ty != "list val" or t is None:
                raise Reject("subscript of self.%s, which the model types %s" % (n.value.attr, ty))

            def k1(ti, i, env1):
                x = self.fresh(base)
                if ti == "val":
                    # a list index must be an int (bool included): anything else is a TypeError
                    z = self.fresh("i")
                    inner = "(match py_index %s %s with\n | Some %s =>%s\n | None => %s\n end)" % (
                        env1.fields[f][1], z, x, I(k("val", x, env1)), self.r_exc(env1, "Raise IndexError"))
                    return "(match int_of %s with\n | Some %s =>%s\n | None => %s\n end)" % (i, z, I(inner), self.r_exc(env1, "Raise TypeError"))
                if ti != "Z":
                    raise Reject("index of type %s: %s" % (ti, ast.unparse(n)))
                return "(match py_index %s %s with\n | Some %s =>%s\n | None => %s\n end)" % (
                    env1.fields[f][1], i, x, I(k("val", x, env1)), self.r_exc(env1, "Raise IndexError"))
            return self.ev(n.slice, env, ctx, k1)
        if isinstance(n, ast.Call) and not n.keywords:
            fn = n.func
            if is_static(fn, "Pattern", "value") and "Pattern" not in self.local_names and len(n.args) == 1 and is_self_attr(n.args[0]):
                return self.child_call("pvalue", n.args[0].attr, env, ctx, k, base)
            if (is_static(fn, "Pattern", "value") and "Pattern" not in self.local_names and len(n.args) == 1
                    and isinstance(n.args[0], ast.Subscript) and (isinstance(n.args[0].value, ast.Name) or is_self_attr(n.args[0].value))):
                return self.element_call("pvalue", n.args[0], env, ctx, k, base)
            if (isinstance(fn, ast.Name) and fn.id == "next" and "next" not in self.local_names and len(n.args) == 1
                    and isinstance(n.args[0], ast.Subscript) and (isinstance(n.args[0].value, ast.Name) or is_self_attr(n.args[0].value))):
                return self.element_call("pnext", n.args[0], env, ctx, k, base)
            if (isinstance(fn, ast.Name) and fn.id == "len" and "len" not in self.local_names and len(n.args) == 1
                    and is_self_attr(n.args[0]) and self.k.attr2field.get(n.args[0].attr) in env.alias):
                return k("Z", "(zlen %s)" % env.alias[self.k.attr2field[n.args[0].attr]], env)
            if (isinstance(fn, ast.Attribute) and fn.attr == "index" and isinstance(fn.value, ast.Name) and len(n.args) == 1
                    and env.locals.get(fn.value.id, ("",))[0] == "val"):
                return self.ev(n.args[0], env, ctx, lambda ta, a, env1: self.prim(
                    "(py_list_index %s %s)" % (env.locals[fn.value.id][1], self.to_val(ta, a)), env1, k, base, tail))
            if (self.k.tonal and isinstance(fn, ast.Attribute) and fn.attr == "nearest_note" and isinstance(fn.value, ast.Name) and len(n.args) == 1
                    and env.locals.get(fn.value.id, ("",))[0] == "val"):
                return self.ev(n.args[0], env, ctx, lambda ta, a, env1: self.prim(
                    "(m_key_nearest_note %s %s)" % (env.locals[fn.value.id][1], self.to_val(ta, a)), env1, k, base, tail))
            if (self.k.tonal and isinstance(fn, ast.Name) and fn.id == "tuple" and "tuple" not in self.local_names and len(n.args) == 1
                    and isinstance(n.args[0], ast.GeneratorExp)):
                # tuple(E for v in xs), xs a value, E one application of a primitive to v: m_tuple_of (fun v => E) xs
                g = n.args[0]
                if (len(g.generators) != 1 or g.generators[0].ifs or g.generators[0].is_async or not isinstance(g.generators[0].target, ast.Name)
                        or not isinstance(g.generators[0].iter, ast.Name) or env.locals.get(g.generators[0].iter.id, ("",))[0] != "val"):
                    raise Reject("generator expression not understood: " + ast.unparse(n))
                v = self.fresh("e")
                envg = env.set_local(g.generators[0].target.id, "val", v)
                got = []
                r = self.ev(g.elt, envg, Ctx(None), lambda ty, t, e2: got.append(None) or "", tail=lambda o, e2: got.append((o, e2 is envg)) or "")
                if r != "" or len(got) != 1 or got[0] is None or not got[0][1]:
                    raise Reject("element of the generator expression is not one primitive application: " + ast.unparse(g.elt))
                return self.prim("(m_tuple_of (fun %s => %s) %s)" % (v, got[0][0], env.locals[g.generators[0].iter.id][1]), env, k, base, tail)
            if (self.mode != "next" and isinstance(fn, ast.Attribute) and fn.attr == "all" and is_self_attr(fn.value) and not n.args):
                f = self.field(fn.value.attr)
                ty, t = env.fields[f]
                if ty != "arg" or t is None:
                    raise Reject("self.%s.all(), but the model types the attribute %s" % (fn.value.attr, ty))
                o, f2, x = self.fresh("o"), self.fresh("self_" + f), self.fresh(base)
                return "(let '(%s, %s) := %s %s %s in\n obind %s (fun %s =>%s))" % (
                    o, f2, self.use("pall"), env.fuel, t, o, x, I(k("list val", x, env.set_field(f, "arg", f2)), 1))
            if (isinstance(fn, ast.Name) and fn.id == "len" and "len" not in self.local_names and len(n.args) == 1
                    and isinstance(n.args[0], ast.Name) and env.locals.get(n.args[0].id, ("",))[0].startswith("alist:")):
                return k("Z", "(zlen %s)" % env.locals[n.args[0].id][1], env)
            if isinstance(fn, ast.Name) and fn.id in BUILTINS and fn.id in self.local_names:
                raise Reject("the builtin %s is shadowed by a local of the method and then called" % fn.id)
            if isinstance(fn, ast.Name) and fn.id == "next" and len(n.args) == 1 and is_self_attr(n.args[0]):
                return self.child_call("pnext", n.args[0].attr, env, ctx, k, base)
            if isinstance(fn, ast.Name) and fn.id in ("abs", "int") and len(n.args) == 1:
                return self.ev(n.args[0], env, ctx, lambda ta, a, env1: self.prim("(py_%s %s)" % (fn.id, self.to_val(ta, a)), env1, k, base, tail))
            if isinstance(fn, ast.Name) and fn.id == "pow" and len(n.args) == 2:
                return self.ev(n.args[0], env, ctx, lambda ta, a, env1: self.ev(n.args[1], env1, ctx, lambda tb, b, env2: self.prim(
                    "(bop OPow %s %s)" % (self.to_val(ta, a), self.to_val(tb, b)), env2, k, base, tail)))
            if isinstance(fn, ast.Name) and fn.id == "len" and len(n.args) == 1 and is_self_attr(n.args[0]):
                f = self.field(n.args[0].attr)
                ty, t = env.fields[f]
                if ty != "list val" or t is None:
                    raise Reject("len(self.%s), which the model types %s" % (n.args[0].attr, ty))
                return k("Z", "(zlen %s)" % t, env)
            if self.mode == "init" and is_static(fn, "Pattern", "pattern") and len(n.args) == 1:
                return self.ev_arg(n.args[0], env, lambda a, env1: "(obind (patternify %s) (fun %s =>%s))" % (
                    a, "pp_" + base, I(k("arg", "pp_" + base, env1), 1)))
        raise Reject("expression not understood: " + ast.unparse(n))

    def ev_arg(self, n, env, k):
        if isinstance(n, ast.Name) and n.id in env.locals and env.locals[n.id][0] == "arg":
            return k(env.locals[n.id][1], env)
        raise Reject("Pattern.pattern of something that is not a constructor parameter: " + ast.unparse(n))

    def prim(self, oterm, env, k, base, tail):
        if tail is not None:
            return tail(oterm, env)
        return self.bind_m(env, oterm, base, lambda x: k("val", x, env))

    # -- conditions --------------------------------------------------------------------------------------------------
    # IR: ("pure", bool term) | ("cmp", outcome-bool term) | ("bind", outcome-val term, var, ir) | ("and", a, b) | ("or", a, b) | ("not", a)
    def pure_operand(self, n, env):
        """an operand of a comparison: (ty, term, binds) where binds = [(outcome term, var)] to be evaluated first"""
        binds = []

        def tail(o, e2):
            x = self.fresh("c")
            binds.append((o, x))
            return ("val", x)
        out = []
        r = self.ev(n, env, Ctx(None), lambda ty, t, e2: out.append((ty, t, e2 is env)) or "", tail=lambda o, e2: out.append(tail(o, e2) + (e2 is env,)) or "")
        if len(out) != 1 or not out[0][2] or r != "":
            raise Reject("operand of a condition is not a simple expression: " + ast.unparse(n))
        return out[0][0], out[0][1], binds

    def cond_ir(self, n, env):
        if isinstance(n, ast.UnaryOp) and isinstance(n.op, ast.Not):
            c = self.cond_ir(n.operand, env)
            return ("pure", "(negb %s)" % c[1]) if c[0] == "pure" else ("not", c)
        if isinstance(n, ast.BoolOp):
            parts = [self.cond_ir(v, env) for v in n.values]
            kind, sym = ("and", "&&") if isinstance(n.op, ast.And) else ("or", "||")
            acc = parts[0]
            for p in parts[1:]:
                acc = ("pure", "(%s %s %s)" % (acc[1], sym, p[1])) if acc[0] == "pure" and p[0] == "pure" else (kind, acc, p)
            return acc
        if isinstance(n, ast.Compare) and len(n.ops) == 1:
            op, l, r = type(n.ops[0]), n.left, n.comparators[0]
            if op in (ast.Is, ast.IsNot):
                if not (isinstance(r, ast.Constant) and r.value is None):
                    raise Reject("`is` against something other than None")
                ty, t, binds = self.pure_operand(l, env)
                if ty != "val" or binds:
                    raise Reject("`is None` on a non-value: " + ast.unparse(n))
                return ("pure", "(is_none %s)" % t if op is ast.Is else "(negb (is_none %s))" % t)
            if op in (ast.In, ast.NotIn):
                ta, a, b1 = self.pure_operand(l, env)
                tb, b, b2 = self.pure_operand(r, env)
                if tb != "val" or b1 or b2:
                    raise Reject("`in` on something that is not a container value: " + ast.unparse(n))
                ir = ("cmp", "(%s %s %s)" % ("m_key_contains" if self.k.tonal else "py_contains", self.to_val(ta, a), b))
                return ("not", ir) if op is ast.NotIn else ir
            if op in PY_CMP:
                ta, a, b1 = self.pure_operand(l, env)
                tb, b, b2 = self.pure_operand(r, env)
                if ta == "Z" and tb == "Z":
                    ir = ("pure", Z_CMP[op] % (a, b))
                elif ta in ("val", "Z", "bool") and tb in ("val", "Z", "bool"):
                    a, b = self.to_val(ta, a), self.to_val(tb, b)
                    if op is ast.Eq:
                        ir = ("pure", "(py_eq %s %s)" % (a, b))
                    elif op is ast.NotEq:
                        ir = ("pure", "(negb (py_eq %s %s))" % (a, b))
                    else:
                        ir = ("cmp", "(omap truthy (bop %s %s %s))" % (PY_CMP[op], a, b))
                else:
                    raise Reject("comparison not understood: " + ast.unparse(n))
                for (o, x) in reversed(b1 + b2):
                    ir = ("bind", o, x, ir)
                return ir
        if (self.k.tonal and isinstance(n, ast.Call) and isinstance(n.func, ast.Name) and n.func.id == "isinstance" and not n.keywords
                and len(n.args) == 2 and is_static(n.args[1], "typing", "Iterable") and "isinstance" not in self.local_names):
            ty, t, binds = self.pure_operand(n.args[0], env)
            if ty != "val" or binds:
                raise Reject("isinstance of a non-value: " + ast.unparse(n))
            return ("pure", "(is_iterable %s)" % t)
        # a bare expression as a condition: its truth value
        ty, t, binds = self.pure_operand(n, env)
        if ty == "bool":
            ir = ("pure", t)
        elif ty == "val":
            ir = ("pure", "(truthy %s)" % t)
        else:
            raise Reject("condition of type %s: %s" % (ty, ast.unparse(n)))
        for (o, x) in reversed(binds):
            ir = ("bind", o, x, ir)
        return ir

    def emit_cond(self, ir, env, kt, kf):
        self.forks += 1
        if self.forks > 64:
            raise Reject("too many forks of the symbolic execution")
        kind = ir[0]
        if kind == "pure":
            return "(if %s\n then%s\n else%s)" % (ir[1], I(kt()), I(kf()))
        if kind == "cmp":
            o = self.fresh("oc")
            return "(match %s with\n | Yield true =>%s\n | Yield false =>%s\n | %s => %s\n end)" % (ir[1], I(kt()), I(kf()), o, self.r_fail(env, o, False))
        if kind == "bind":
            o = self.fresh("o")
            return "(match %s with\n | Yield %s =>%s\n | %s => %s\n end)" % (ir[1], ir[2], I(self.emit_cond(ir[3], env, kt, kf)), o, self.r_fail(env, o, True))
        if kind == "not":
            return self.emit_cond(ir[1], env, kf, kt)
        if kind == "and":
            return self.emit_cond(ir[1], env, lambda: self.emit_cond(ir[2], env, kt, kf), kf)
        if kind == "or":
            return self.emit_cond(ir[1], env, kt, lambda: self.emit_cond(ir[2], env, kt, kf))
        raise Reject("internal: condition " + kind)

    # -- statements --------------------------------------------------------------------------------------------------
    def assign(self, target, ty, t, env):
        if isinstance(target, ast.Name):
            if ty == "list val":
                raise Reject("a list is bound to a local (aliasing is not modelled)")
            return env.set_local(target.id, ty, t)
        if is_self_attr(target):
            if target.attr in self.k.dead_attrs:
                raise Reject("internal: dead attribute reached assign")
            f = self.field(target.attr)
            fty = dict(self.k.fields)[f]
            return env.set_field(f, fty, self.coerce(ty, t, fty, "self." + target.attr))
        raise Reject("assignment target not understood: " + ast.unparse(target))

    def run(self, stmts, env, ctx):
        if not stmts:
            return ctx.on_end(env)
        st, rest = stmts[0], stmts[1:]
        cont = lambda env1: self.run(rest, env1, ctx)
        if isinstance(st, ast.Expr) and isinstance(st.value, ast.Constant) and isinstance(st.value.value, str):
            return cont(env)
        if isinstance(st, ast.Pass):
            return cont(env)
        if isinstance(st, ast.Assign) and len(st.targets) == 1:
            tg = st.targets[0]
            if is_self_attr(tg) and tg.attr in self.k.dead_attrs:
                if not isinstance(st.value, ast.Constant):
                    raise Reject("attribute self.%s (not in the model) is assigned a non-constant" % tg.attr)
                return cont(env)
            base = tg.id if isinstance(tg, ast.Name) else (tg.attr if is_self_attr(tg) else "x")
            v = st.value
            if (isinstance(tg, ast.Name) and tg.id in self.listlike and self.mode == "next" and isinstance(v, ast.Call) and not v.keywords
                    and is_static(v.func, "Pattern", "value") and "Pattern" not in self.local_names and len(v.args) == 1 and is_self_attr(v.args[0])):
                return self.bind_list(tg.id, v.args[0].attr, env, cont, ctx)
            if (isinstance(tg, ast.Name) and tg.id in self.dictlike and self.mode == "next" and isinstance(v, ast.Call) and not v.keywords
                    and is_static(v.func, "Pattern", "value") and "Pattern" not in self.local_names and len(v.args) == 1 and is_self_attr(v.args[0])):
                # Pattern.value returns a dict as it is: x is the dict held by the attribute (model: f = AD kv)
                f = self.field(v.args[0].attr)
                if env.fields[f][0] != "arg":
                    raise Reject("Pattern.value(self.%s) used as a dict, but the model types the attribute %s" % (v.args[0].attr, env.fields[f][0]))
                kv = self.fresh("kv_" + f)
                env2 = env.set_field(f, "arg", "(AD %s)" % kv).set_local(tg.id, "adict:" + f, kv)
                env2.alias[f] = kv
                return "(match %s with\n | AD %s =>%s\n | _ => %s\n end)" % (env.fields[f][1], kv, I(cont(env2)), self.r_exc(env, "Inexact"))
            if (isinstance(tg, ast.Name) and tg.id in self.container and self.mode == "next" and isinstance(v, ast.Call) and not v.keywords
                    and is_static(v.func, "Pattern", "value") and "Pattern" not in self.local_names and len(v.args) == 1 and is_self_attr(v.args[0])):
                if tg.id in self.listlike:
                    raise Reject("%s is used both as the list of an attribute and as a container value" % tg.id)
                return self.child_call("pvalue" if self.k.tonal else "cvalue pvalue", v.args[0].attr, env, ctx, lambda ty, t, env1: cont(self.assign(tg, ty, t, env1)), "v_" + base)
            return self.ev(st.value, env, ctx, lambda ty, t, env1: cont(self.assign(tg, ty, t, env1)), base="v_" + base)
        if isinstance(st, ast.AugAssign) and type(st.op) in PY_BINOP and (isinstance(st.target, ast.Name) or is_self_attr(st.target)):
            load = ast.copy_location(ast.Name(st.target.id, ast.Load()), st.target) if isinstance(st.target, ast.Name) else \
                ast.copy_location(ast.Attribute(st.target.value, st.target.attr, ast.Load()), st.target)
            base = st.target.id if isinstance(st.target, ast.Name) else st.target.attr
            return self.ev(ast.BinOp(load, st.op, st.value), env, ctx, lambda ty, t, env1: cont(self.assign(st.target, ty, t, env1)), base="v_" + base)
        if isinstance(st, ast.If):
            return self.emit_cond(self.cond_ir(st.test, env), env, lambda: self.run(st.body + rest, env, ctx), lambda: self.run(st.orelse + rest, env, ctx))
        if isinstance(st, ast.Raise) and st.cause is None and st.exc is None and ctx.in_handler and self.mode == "next":
            # bare `raise` inside `except StopIteration:` re-raises it
            return ctx.on_stop(env) if ctx.on_stop else self.r_exc(env, "Stop")
        if isinstance(st, ast.Raise) and st.cause is None and st.exc is not None:
            e = st.exc.func if isinstance(st.exc, ast.Call) and not st.exc.args and not st.exc.keywords else st.exc
            if isinstance(e, ast.Name) and e.id == "StopIteration" and self.mode == "next":
                return ctx.on_stop(env) if ctx.on_stop else self.r_exc(env, "Stop")
            raise Reject("raise of something other than StopIteration: " + src_line(st))
        if isinstance(st, ast.Return):
            if ctx.in_loop:
                raise Reject("return inside a loop")
            if self.mode == "next":
                if st.value is None:
                    return self.r_yield(env, "VNone")
                v = st.value
                if (isinstance(v, ast.Call) and not v.keywords and isinstance(v.func, ast.Name) and v.func.id == "next" and "next" not in self.local_names
                        and len(v.args) == 1 and isinstance(v.args[0], ast.Name) and v.args[0].id == "self"):
                    return "(%s %s %s)" % (self.use("pself"), env.fuel, self.st(env))        # return next(self)
                return self.ev(st.value, env, ctx, lambda ty, t, env1: self.r_yield(env1, self.to_val(ty, t)), base="r",
                               tail=lambda o, env1: self.res(env1, o))
            if st.value is not None:
                raise Reject("reset / __init__ returns a value")
            return self.r_yield(env, None)
        if isinstance(st, ast.Try):
            if (self.mode != "next" or ctx.in_try or ctx.in_loop or st.orelse or st.finalbody or len(st.handlers) != 1
                    or st.handlers[0].name is not None
                    or not (isinstance(st.handlers[0].type, ast.Name) and st.handlers[0].type.id == "StopIteration")):
                raise Reject("try statement other than a plain `try: .. except StopIteration: ..`")
            hctx = Ctx(ctx.on_end, ctx.on_stop, ctx.in_try, ctx.in_loop, in_handler=True)
            inner = Ctx(on_end=cont, on_stop=lambda env1: self.run(st.handlers[0].body + rest, env1, hctx), in_try=True)
            return self.run(st.body, env, inner)
        if isinstance(st, ast.While) and not st.orelse:
            if self.mode != "next" or ctx.in_try or ctx.in_loop:
                raise Reject("while loop inside try / another loop / outside __next__")
            return self.loop(st, rest, env, ctx)
        if isinstance(st, ast.Expr) and isinstance(st.value, ast.Call) and not st.value.keywords:
            c = st.value
            if (isinstance(c.func, ast.Attribute) and c.func.attr == "append" and is_self_attr(c.func.value) and len(c.args) == 1):
                f = self.field(c.func.value.attr)
                if dict(self.k.fields)[f] != "list val":
                    raise Reject("append on self.%s, which the model does not type as a list of values" % c.func.value.attr)

                def k(ty, t, env1):
                    return cont(env1.set_field(f, "list val", "(%s ++ [%s])" % (env1.fields[f][1], self.to_val(ty, t))))
                return self.ev(c.args[0], env, ctx, k, base="v_item")
            if (isinstance(c.func, ast.Attribute) and c.func.attr == "reset" and not c.args and is_self_attr(c.func.value)
                    and not ctx.in_loop):
                # self.f.reset(): the attribute must hold a pattern
                f = self.field(c.func.value.attr)
                ty, t = env.fields[f]
                if ty != "arg" or t is None:
                    raise Reject("self.%s.reset(), but the model types the attribute %s" % (c.func.value.attr, ty))
                f2 = self.fresh("self_" + f)
                env2 = env.set_field(f, "arg", f2)
                if self.mode == "next":
                    o = self.fresh("o")
                    return "(match %s %s %s with\n | Yield %s =>%s\n | %s => %s\n end)" % (
                        self.use("preset"), env.fuel, t, f2, I(cont(env2)), o, self.r_fail(env, o, False))
                return "(obind (%s %s %s) (fun %s =>%s))" % (self.use("preset"), env.fuel, t, f2, I(cont(env2), 1))
            if (self.mode == "reset" and isinstance(c.func, ast.Attribute) and c.func.attr == "reset" and not c.args
                    and isinstance(c.func.value, ast.Call) and isinstance(c.func.value.func, ast.Name)
                    and c.func.value.func.id == "super" and not c.func.value.args and "super" not in self.local_names):
                return self.base_reset(self.k.base_of_reset, env, cont)
            if (self.mode == "init" and isinstance(c.func, ast.Attribute) and c.func.attr == "reset" and not c.args
                    and isinstance(c.func.value, ast.Name) and c.func.value.id == "self" and not rest and not ctx.in_try):
                return self.call_own_reset(env)
        raise Reject("statement not understood: " + src_line(st))

    # Pattern.reset(): walk over vars(self) in creation order; only attributes that can hold patterns matter
    def base_reset(self, base, env, cont):
        if base != "Pattern":
            raise Reject("super().reset() resolves to %s.reset, which is not Pattern.reset" % base)
        if any(ty in ("list arg", "list (string * arg)") for (_, ty) in self.k.fields):
            raise Reject("Pattern.reset over a tuple / dict of operands held by an attribute")
        order = [a for a in self.k.attr_order if a in self.k.attr2field and dict(self.k.fields)[self.k.attr2field[a]] == "arg"]
        missing = [f for (f, ty) in self.k.fields if ty == "arg" and f not in [self.k.attr2field[a] for a in order]]
        if missing:
            raise Reject("__init__ does not create the pattern-valued attributes %s at its top level" % missing)

        def go(i, env1):
            if i == len(order):
                return cont(env1)
            f = self.k.attr2field[order[i]]
            f2 = self.fresh("self_" + f)
            return "(obind (reset_field rp %s) (fun %s =>%s))" % (env1.fields[f][1], f2, I(go(i + 1, env1.set_field(f, "arg", f2)), 1))
        return go(0, env)

    def call_own_reset(self, env):
        if not self.k.reset_translated:
            raise Reject("__init__ ends with self.reset(), whose translation was rejected")
        defaults = {"val": "VNone", "Z": "0", "bool": "false", "list val": "[]"}
        ts = []
        for (f, ty) in self.k.fields:
            t = env.fields[f][1]
            if t is None:
                if ty not in defaults:
                    raise Reject("self.reset() in __init__ before the pattern-valued attribute %s exists" % f)
                t = defaults[ty]
            ts.append(t)
        self.k.extras[self.mode] |= self.k.extras["reset"]
        return "(src_%s_reset rp pvalue fuel%s %s)" % (self.k.name, extras_args(self.k.extras["reset"]), " ".join(ts))

    def loop(self, st, rest, env, ctx):
        self.nloops += 1
        if self.nloops > 4:
            raise Reject("too many loops")
        self.k.has_loops = True
        if self.k.extras["next"]:
            raise Reject("a loop in a method that also needs " + ", ".join(sorted(self.k.extras["next"])))
        name = "src_%s_next_loop%d" % (self.k.name, self.nloops)
        # a local that the body rebinds holds a Python value of any type from then on
        rebound = {n.id for b in st.body for n in ast.walk(b) if isinstance(n, ast.Name) and not isinstance(n.ctx, ast.Load)}
        env = env.copy()
        for n in list(env.locals):
            ty, t = env.locals[n]
            if n in rebound and ty in ("Z", "bool"):
                env.locals[n] = ("val", self.to_val(ty, t))
        fparams = [(f, ty, "self_" + f) for (f, ty) in self.k.fields]
        if any(env.locals[n][0].startswith("alist:") for n in env.locals):
            raise Reject("a loop while a local holds the list of an attribute")
        lparams = [(n, env.locals[n][0], "v_" + re.sub(r"\W", "_", n)) for n in env.locals]
        env0 = Env({f: (ty, p) for (f, ty, p) in fparams}, {n: (ty, p) for (n, ty, p) in lparams}, "fuel")
        n1 = "n'"

        def back(env1):
            if list(env1.locals) != list(env.locals) or any(env1.locals[n][0] != env.locals[n][0] for n in env.locals):
                raise Reject("the loop body binds locals that do not exist before the loop (or changes their type)")
            return "(%s bop pvalue pnext fuel lfuel %s %s)" % (name, n1, " ".join([env1.fields[f][1] for (f, _, _) in fparams] +
                                                                               [env1.locals[n][1] for (n, _, _) in lparams]))
        env_body = env0.copy(); env_body.fuel = n1
        body_ctx = Ctx(on_end=back, on_stop=None, in_loop=True)
        c = self.cond_ir(st.test, env0)
        # the rest after the loop is translated first (its own loops must be defined before this one)
        after = self.run(rest, env0, ctx)
        body = "(match n with\n | O => %s\n | S %s =>%s\n end)" % (self.r_exc(env0, "OutOfFuel"), n1, I(self.run(st.body, env_body, body_ctx)))
        term = self.emit_cond(c, env0, lambda: body, lambda: after)
        sig = " ".join("(%s : %s)" % (p, ty) for (_, ty, p) in fparams + lparams)
        self.defs.append("Fixpoint %s (bop : op -> val -> val -> outcome val) (pvalue pnext : nat -> arg -> outcome val * arg)\n"
                         "    (fuel lfuel n : nat) %s {struct n} : outcome val * %s :=%s." % (name, sig, self.k.rtype, I(term, 2)))
        return "(%s bop pvalue pnext fuel lfuel lfuel %s)" % (name, " ".join([env.fields[f][1] for (f, _, _) in fparams] + [env.locals[n][1] for (n, _, _) in lparams]))


class Klass:
    pass


def class_chain(modules, node):
    """the class and its bases up to Pattern, looked up by name in the three modules"""
    out = [node]
    while True:
        if len(node.bases) != 1 or not isinstance(node.bases[0], ast.Name) or node.keywords or node.decorator_list:
            raise Reject("class %s: bases not understood" % node.name)
        b = node.bases[0].id
        if b == "Pattern":
            return out
        cands = [c for m in modules.values() for c in m.body if isinstance(c, ast.ClassDef) and c.name == b]
        if len(cands) != 1:
            raise Reject("base class %s: %d definitions" % (b, len(cands)))
        node = cands[0]
        out.append(node)


def find_method(chain, name, strict=True):
    """(defining class, FunctionDef) by the MRO of a single-inheritance chain; None if only Pattern has it"""
    for c in chain:
        fs = [n for n in c.body if isinstance(n, (ast.FunctionDef, ast.AsyncFunctionDef)) and n.name == name]
        if len(fs) > 1:
            raise Reject("%s.%s is defined %d times" % (c.name, name, len(fs)))
        if fs:
            fn = fs[0]
            a = fn.args
            if not isinstance(fn, ast.FunctionDef) or fn.decorator_list or a.posonlyargs or a.kwonlyargs or (strict and (a.vararg or a.kwarg)):
                raise Reject("%s.%s: signature / decorators not understood" % (c.name, name))
            if not a.args or a.args[0].arg != "self":
                raise Reject("%s.%s: first parameter is not self" % (c.name, name))
            return c, fn
    return None


def attr_creation_order(fn):
    """attributes created by top-level `self.x = ..` statements of __init__, in order"""
    out = []
    for st in fn.body:
        if isinstance(st, ast.Assign) and len(st.targets) == 1 and is_self_attr(st.targets[0]) and st.targets[0].attr not in out:
            out.append(st.targets[0].attr)
    return out


def all_self_attrs(chain):
    """every attribute of self mentioned anywhere in the class chain: attr -> (stores, loads)"""
    out = {}
    for c in chain:
        for n in ast.walk(c):
            if is_self_attr(n):
                s, l = out.get(n.attr, (0, 0))
                out[n.attr] = (s + (not isinstance(n.ctx, ast.Load)), l + isinstance(n.ctx, ast.Load))
    return out


# isobar/pattern/tonal.py: the model of these classes is Pat/TonalStreams.v (objects: mkT <class> <input> <parameter>)
TONAL = {"PDegree": ("mkT TDegree", [("degree", "arg"), ("scale", "arg")]),
         "PFilterByKey": ("mkT TFilterByKey", [("pattern", "arg"), ("key", "arg")]),
         "PNearestNoteInKey": ("mkT TNearestNoteInKey", [("pattern", "arg"), ("key", "arg")])}
TONAL_UNMODELLED = ["PMidiNoteToFrequency", "PMidiSemitonesToFrequencyRatio", "PKeyTonic", "PKeyScale"]


def translate_class(modules, ctors, fname, cname, tonal=False):
    """-> (Klass, {method: text or Reject})"""
    mod = modules[fname]
    nodes = [c for c in mod.body if isinstance(c, ast.ClassDef) and c.name == cname]
    if len(nodes) != 1:
        raise Reject("%d definitions of class %s in %s" % (len(nodes), cname, fname))
    chain = class_chain(modules, nodes[0])
    check_class_body(chain)
    k = Klass()
    k.name, k.has_loops, k.reset_translated = cname, False, False
    k.extras = {"next": set(), "reset": set(), "init": set()}
    k.tonal, k.rtype = tonal, ("tobj" if tonal else "pat")
    if tonal:
        ctors = dict(ctors)
        ctors[cname] = TONAL[cname][1]
    if cname in BINOPS:
        k.ctor_name, fixed = "PBinOp", [BINOPS[cname]]
    else:
        k.ctor_name, fixed = cname, []
    if k.ctor_name not in ctors:
        raise Reject("the model (Pat/Syntax.v) has no constructor " + k.ctor_name)
    decl = ctors[k.ctor_name][len(fixed):]
    if fixed and ctors[k.ctor_name][0][1] != "op":
        raise Reject("PBinOp: first field is not the operator")
    k.ctor = TONAL[cname][0] if tonal else " ".join([k.ctor_name] + fixed)
    bad = [(f, ty) for (f, ty) in decl if ty not in SUPPORTED_TYPES]
    if bad:
        raise Reject("model field %s : %s is of a type the translation does not handle" % bad[0])
    k.fields = decl
    # python attribute <-> model field (a trailing underscore avoids a Coq keyword)
    k.attr2field = {}
    for (f, _) in decl:
        a = f[:-1] if f.endswith("_") and f[:-1] in COQ_RESERVED else f
        k.attr2field[a] = f
    mentioned = all_self_attrs(chain)
    methods_called = {"reset", "round", "scalar"}
    k.dead_attrs = set()
    for a, (stores, loads) in mentioned.items():
        if a in k.attr2field:
            continue
        if any(isinstance(n, (ast.FunctionDef,)) and n.name == a for c in chain for n in c.body):
            continue            # a method (self.reset(), self.round ...): handled where it is called
        if loads:
            raise Reject("attribute self.%s is read but is not a field of the model constructor" % a)
        k.dead_attrs.add(a)     # written, never read: dropped (only constants may be assigned: checked at the assignment)
    for f in k.attr2field:
        if f not in mentioned:
            raise Reject("model field %s is not an attribute of the class" % f)
    init = find_method(chain, "__init__", strict=False)
    if init is None:
        raise Reject("no __init__")
    k.attr_order = attr_creation_order(init[1])
    results = {}

    def sig_fields():
        return " ".join("(self_%s : %s)" % (f, ty) for (f, ty) in k.fields)

    def fields_env():
        return Env({f: (ty, "self_" + f) for (f, ty) in k.fields}, {}, "fuel")

    # ---- reset ----
    try:
        r = find_method(chain, "reset")
        m = Method(k, "reset", r[1] if r else init[1])
        end = Ctx(on_end=lambda env: m.r_yield(env, None))
        if r is None:
            term = m.base_reset("Pattern", fields_env(), end.on_end)
            src = "(inherited) Pattern.reset"
        else:
            if len(r[1].args.args) != 1:
                raise Reject("reset takes parameters")
            rest_chain = chain[chain.index(r[0]) + 1:]
            nxt = find_method(rest_chain, "reset")
            k.base_of_reset = nxt[0].name if nxt else "Pattern"
            term = m.run(r[1].body, fields_env(), end)
            src = ast.unparse(r[1])
        results["reset"] = (src, "Definition src_%s_reset (rp : pat -> outcome pat) (pvalue : nat -> arg -> outcome val * arg) (fuel : nat)%s\n"
                                 "    %s : outcome pat :=%s." % (cname, extras_sig(k.extras["reset"]), sig_fields(), I(term, 2)))
        k.reset_translated = True
    except Reject as e:
        results["reset"] = e
    # ---- __next__ ----
    try:
        r = find_method(chain, "__next__")
        if r is None:
            raise Reject("no __next__")
        if len(r[1].args.args) != 1:
            raise Reject("__next__ takes parameters")
        m = Method(k, "next", r[1])
        end = Ctx(on_end=lambda env: m.r_yield(env, "VNone"))
        term = m.with_listfields(fields_env(), lambda env: m.run(r[1].body, env, end))
        lf = " lfuel" if k.has_loops else ""
        if k.has_loops and k.extras["next"]:
            raise Reject("a loop in a method that also needs " + ", ".join(sorted(k.extras["next"])))
        results["next"] = (ast.unparse(r[1]), "\n".join(m.defs + [
            "Definition src_%s_next (bop : op -> val -> val -> outcome val) (pvalue pnext : nat -> arg -> outcome val * arg)\n"
            "    (fuel%s : nat)%s %s : outcome val * %s :=%s." % (cname, lf, extras_sig(k.extras["next"]), sig_fields(), k.rtype, I(term, 2))]))
    except Reject as e:
        results["next"] = e
    # ---- __init__ ----
    try:
        fn = init[1]
        if fn.args.vararg or fn.args.kwarg:
            raise Reject("__init__ takes *args / **kwargs")
        if fn.args.kw_defaults or any(not isinstance(d, (ast.Constant, ast.Attribute)) for d in fn.args.defaults):
            raise Reject("__init__: defaults not understood")
        params = [a.arg for a in fn.args.args[1:]]
        m = Method(k, "init", fn)
        # the type of a parameter is the type of the field it initialises
        ptypes = {}
        for n in ast.walk(fn):
            if isinstance(n, ast.Name) and n.id in params and not isinstance(n.ctx, ast.Load):
                raise Reject("__init__ rebinds its parameter " + n.id)
        for st in fn.body:
            if isinstance(st, ast.Assign) and len(st.targets) == 1 and is_self_attr(st.targets[0]):
                v, a = st.value, st.targets[0].attr
                if isinstance(v, ast.Call) and is_static(v.func, "Pattern", "pattern") and len(v.args) == 1:
                    v, want = v.args[0], "arg"
                elif a in k.attr2field:
                    want = dict(k.fields)[k.attr2field[a]]
                else:
                    want = None
                if isinstance(v, ast.Name) and v.id in params and want is not None:
                    if want not in ("val", "arg") or ptypes.get(v.id, want) != want:
                        raise Reject("__init__: parameter %s initialises attributes of different model types" % v.id)
                    ptypes[v.id] = want
        if set(ptypes) != set(params):
            raise Reject("__init__: parameters %s do not directly initialise an attribute" % sorted(set(params) - set(ptypes)))
        env = Env({f: (ty, None) for (f, ty) in k.fields}, {p: (ptypes[p], "p_" + p) for p in params}, "fuel")
        # in __init__ a parameter of type arg may be stored into an arg field as it is
        m.ev_orig = m.ev

        def ev_init(n, env, ctx, kk, base="x", tail=None):
            if isinstance(n, ast.Name) and n.id in env.locals and env.locals[n.id][0] == "arg":
                return kk("arg", env.locals[n.id][1], env)
            return m.ev_orig(n, env, ctx, kk, base, tail)
        m.ev = ev_init
        end = Ctx(on_end=lambda env: m.r_yield(env, None))
        term = m.run(fn.body, env, end)
        sig = " ".join("(p_%s : %s)" % (p, ptypes[p]) for p in params)
        results["init"] = (ast.unparse(fn), "Definition src_%s_init (rp : pat -> outcome pat) (pvalue : nat -> arg -> outcome val * arg) (fuel : nat)%s\n"
                                            "    %s : outcome pat :=%s." % (cname, extras_sig(k.extras["init"]), sig, I(term, 2)))
    except Reject as e:
        results["init"] = e
    return k, results


PRIMITIVES = ("value", "reset", "pattern", "__next__", "all")
PIN_FILE = os.path.join(HERE, "gen_tables_step.pin")


def primitives_text(core_tree):
    """normalised source (docstrings removed) of the methods of class Pattern that the model transcribes BY HAND
    (Step.value / Step.anext, reset_field, patternify, the default __next__) and the generated terms refer to"""
    P = [c for c in core_tree.body if isinstance(c, ast.ClassDef) and c.name == "Pattern"]
    if len(P) != 1:
        raise Reject("core.py: %d definitions of class Pattern" % len(P))
    out = []
    for name in PRIMITIVES:
        fs = [n for n in ast.walk(P[0]) if isinstance(n, (ast.FunctionDef, ast.AsyncFunctionDef)) and n.name == name]
        if len(fs) != 1 or fs[0] not in P[0].body or not isinstance(fs[0], ast.FunctionDef):
            raise Reject("Pattern.%s: %d definitions" % (name, len(fs)))
        fn = fs[0]
        body = [st for st in fn.body if not (isinstance(st, ast.Expr) and isinstance(st.value, ast.Constant) and isinstance(st.value.value, str))]
        out.append("\n".join(["@" + ast.unparse(d) for d in fn.decorator_list] + ["def %s(%s):" % (fn.name, ast.unparse(fn.args))] +
                             ["    " + l for st in body for l in ast.unparse(st).splitlines()]))
    return "\n".join(out) + "\n"


def check_primitives(core_tree):
    import difflib
    got = primitives_text(core_tree)
    want = open(PIN_FILE).read()
    if got != want:
        diff = "".join(difflib.unified_diff(want.splitlines(True), got.splitlines(True), "pinned", "source", n=1))
        raise Reject("a method of the base class Pattern that the model transcribes by hand (Pattern.value / reset / pattern / "
                     "__next__) differs from the pinned text harness/gen_tables_step.pin; revisit Pat/Step.v (value, anext, "
                     "reset_field, patternify) and then the pin:\n" + diff[:1500])


def check_class_body(chain):
    """nothing but methods, docstrings and plain class attributes; the three translated methods are not rebound"""
    for c in chain:
        for st in c.body:
            if isinstance(st, ast.FunctionDef):
                continue
            if isinstance(st, ast.Expr) and isinstance(st.value, ast.Constant) and isinstance(st.value.value, str):
                continue
            if (isinstance(st, ast.Assign) and all(isinstance(t, ast.Name) and not t.id.startswith("__") and t.id != "reset" for t in st.targets)
                    and isinstance(st.value, (ast.Constant, ast.Name, ast.Attribute))):
                continue
            raise Reject("class %s: statement in the class body not understood: %s" % (c.name, src_line(st)))


def comment(text):
    return text.replace("(*", "( *").replace("*)", "* )").replace('"', "'")


def main(out_path):
    repo = os.environ.get("PYTHONPATH", "/repo").split(":")[0]
    modules = {}
    for fname in ("core.py", "sequence.py", "scalar.py"):
        modules[fname] = ast.parse(open(os.path.join(repo, "isobar", "pattern", fname)).read())
    if len(sys.argv) > 2 and sys.argv[2] == "--write-pin":
        open(PIN_FILE, "w").write(primitives_text(modules["core.py"]))
    check_primitives(modules["core.py"])
    ctors = model_constructors(os.path.join(os.path.dirname(HERE), "coq", "Pat", "Syntax.v"))
    body, summary, failed_required = [], [], []
    for fname, cname in WANTED:
        try:
            k, results = translate_class(modules, ctors, fname, cname)
        except Reject as e:
            results = {m: e for m in ("next", "reset", "init")}
        line = []
        for meth in ("reset", "next", "init"):      # reset first: __init__ may call it
            r = results[meth]
            if isinstance(r, Reject):
                line.append((meth, "REJECTED: %s" % r))
                if (cname, meth) in REQUIRED:
                    failed_required.append("%s.%s: %s" % (cname, meth, r))
            else:
                src, text = r
                body.append("(* %s.%s (isobar/pattern/%s):\n%s *)\n%s\n" % (cname, {"next": "__next__", "init": "__init__"}.get(meth, meth), fname,
                                                                        "\n".join("     " + l for l in comment(src).splitlines()), text))
                line.append((meth, "translated"))
        summary.append((cname, line))
    lines = ["%-22s %s" % (c, ";  ".join("%s: %s" % (m, s) for (m, s) in sorted(l, key=lambda x: ["next", "reset", "init"].index(x[0])))) for (c, l) in summary]
    text = ("(* GENERATED by harness/gen_tables_step.py from the source text of isobar/pattern/{core,sequence,scalar}.py.  Do not edit.\n"
            "   Translation rules: see the docstring of the generator and docs/TRANSLATOR.md.  Tie-in: Pat/StepSrc.v.\n\n"
            "%s *)\n"
            "From Isobar Require Import Base.Prelude Pat.Val Pat.Syntax Pat.Step Pat.SrcLib.\n"
            "From Coq Require Import String QArith.\n"
            "Open Scope Z_scope.\n\n%s" % ("\n".join("   " + comment(l) for l in lines), "\n".join(body)))
    for l in lines:
        print("tables-step: " + l)
    if failed_required:
        raise Reject("classes that Pat/StepSrc.v has a proof for no longer translate: " + "; ".join(failed_required))
    old = open(out_path).read() if os.path.exists(out_path) else None
    if old != text:
        tmp = out_path + ".tmp%d" % os.getpid()
        with open(tmp, "w") as f:
            f.write(text)
        os.replace(tmp, out_path)
        print("tables-step: rewritten")
    else:
        print("tables-step: unchanged")


def main_tonal(out_path):
    """isobar/pattern/tonal.py -> Generated/TablesSteptonal.v (called by harness/gen_tables_steptonal.py)"""
    repo = os.environ.get("PYTHONPATH", "/repo").split(":")[0]
    modules = {f: ast.parse(open(os.path.join(repo, "isobar", "pattern", f)).read()) for f in ("core.py", "tonal.py")}
    check_primitives(modules["core.py"])
    body, lines, failed = [], [], []
    for cname in TONAL:
        try:
            k, results = translate_class(modules, {}, "tonal.py", cname, tonal=True)
            r = results["next"]
        except Reject as e:
            r = e
        if isinstance(r, Reject):
            lines.append("%-32s next: REJECTED: %s" % (cname, r))
            failed.append("%s.next: %s" % (cname, r))
        else:
            body.append("(* %s.__next__ (isobar/pattern/tonal.py):\n%s *)\n%s\n" % (cname, "\n".join("     " + l for l in comment(r[0]).splitlines()), r[1]))
            lines.append("%-32s next: translated" % cname)
    for cname in TONAL_UNMODELLED:
        lines.append("%-32s not translated: the Coq development has no model of this class to tie it to" % cname)
    text = ("(* GENERATED by harness/gen_tables_steptonal.py (gen_tables_step.py, tonal mode) from the source text of\n"
            "   isobar/pattern/tonal.py.  Do not edit.  Tie-in: Pat/StepTonalSrc.v; method calls on Scale / Key objects: Pat/TonalSrcLib.v.\n\n"
            "%s *)\n"
            "From Isobar Require Import Base.Prelude Pat.Val Pat.Syntax Pat.Step Pat.SrcLib Pat.Ref Tonal.Key Pat.TonalStreams Pat.TonalSrcLib.\n"
            "From Coq Require Import String QArith.\n"
            "Open Scope Z_scope.\n\n%s" % ("\n".join("   " + comment(l) for l in lines), "\n".join(body)))
    for l in lines:
        print("tables-steptonal: " + l)
    if failed:
        raise Reject("classes that Pat/StepTonalSrc.v has a proof for no longer translate: " + "; ".join(failed))
    old = open(out_path).read() if os.path.exists(out_path) else None
    if old != text:
        tmp = out_path + ".tmp%d" % os.getpid()
        with open(tmp, "w") as f:
            f.write(text)
        os.replace(tmp, out_path)
        print("tables-steptonal: rewritten")
    else:
        print("tables-steptonal: unchanged")


if __name__ == "__main__":
    try:
        main(sys.argv[1])
    except Exception as e:
        sys.stderr.write("gen_tables_step: FAILED: %r\n" % (e,))
        sys.exit(3)

"""C13 — keys and scales map degrees to in-key notes; the nearest note is nearest.
Theorems: coq/Props/C13.v (general, for arbitrary ascending scales, + the built-in table regenerated from
the source).  Correspondence: Key.get / __contains__ / nearest_note / tonal patterns / note-name functions
of the repository against the Coq model, exhaustively on the property's finite domain and on random user
scales.  Oracle: independent pitch-class-set check of every implementation result."""
from common import *

PROP = "C13"
META = {
 "engine": "F-pure-functions",
 "text": "Coq theorems (Props/C13.v, closed under the global context) prove for ARBITRARY ascending scales, octave sizes, tonics and all integer degrees/notes: the degree formula, strict monotonicity, degree-in-key, pitch-class invariance of membership, and that nearest_note is in key with no in-key note strictly closer; the built-in scale table is regenerated from the source on every run and proved to lie in that domain; note-name/MIDI-number round trips are proved by complete enumeration. The model is tied to /repo by a correspondence check run on every invocation: Key.get/__contains__/nearest_note, PFilterByKey/PNearestNoteInKey/PDegree and the util name functions are evaluated on the property's complete finite domain (all named scales x 12 tonics x notes 0..127 x degrees -64..64) plus random user scales, and compared inside Coq (vm_compute) with the model; an independent pitch-class-set oracle judges every implementation result and supplies the failing input.",
 "note": "Trusted: Coq kernel + VM; gen_tables.py; the Python harness; that Python int //, % are floor division (Z.div/Z.modulo). Modelled not verified: nothing float; Key built from names uses Scale.byname/note_name_to_midi_note (covered by the correspondence only for built-in names). nearest_note is compared by distance and membership, so a different tie-break is not an alarm.",
}
HEADER = """From Isobar Require Import Base.Prelude Tonal.Key Generated.Tables.
From Coq Require Import String.
Definition degs := zrange (-64) 129.
Definition notes := zrange 0 128.
Definition builtin (name : string) (t : Z) : key :=
  match find (fun ns => String.eqb (fst ns) name) builtin_scales with
  | Some (_, s) => mkKey t s | None => mkKey t (mkScale [] 0) end.
Definition near_ok (k : key) (xs rs : list Z) : bool :=
  list_eqb (fun x r => key_contains k r && (Z.abs (r - x) =? Z.abs (nearest_note k x - x))) xs rs.
Definition filt (k : key) (x : option Z) : option Z :=
  match x with None => None | Some v => if key_contains k v then Some v else None end.
Definition snap_ok (k : key) (xs rs : list (option Z)) : bool :=
  list_eqb (fun x r => match x, r with None, None => true
     | Some x, Some r => key_contains k r && (Z.abs (r - x) =? Z.abs (nearest_note k x - x))
     | _, _ => false end) xs rs.
Definition oz := option_eqb Z.eqb.
"""


def all_ints(l):
    return isinstance(l, list) and all(type(x) is int for x in l)


def opt_ints(l):
    return isinstance(l, list) and all(x is None or type(x) is int for x in l)


def olist(l):
    return lst([optlit(x, zlit) for x in l])


# ---- independent oracle ---------------------------------------------------------------------------
def oracle_key(kd, degrees, notes, r):
    """returns list of (kind, input, detail) failures of the property on implementation results"""
    semis, o, t = kd["semis"], kd["osize"], kd["tonic"]
    n = len(semis)
    pcs = {(s + t) % o for s in semis}
    inkey = lambda x: (x % o) in pcs
    bad = []
    prev = None
    for d, g in zip(degrees, r["get"]):
        want = t + semis[d % n] + o * (d // n)
        if g != want:
            bad.append(("degree-formula", d, "Key.get(%d) = %r, formula gives %d" % (d, g, want)))
        elif not inkey(g):
            bad.append(("degree-not-in-key", d, "Key.get(%d) = %r is not in the key" % (d, g)))
    gs = [(d, g) for d, g in zip(degrees, r["get"]) if type(g) is int]
    for (d1, g1), (d2, g2) in zip(gs, gs[1:]):
        if d1 < d2 and not g1 < g2:
            bad.append(("degree-not-increasing", d2, "Key.get(%d)=%d >= Key.get(%d)=%d" % (d1, g1, d2, g2)))
    for x, c in zip(notes, r["contains"]):
        if c is not inkey(x):
            bad.append(("membership", x, "(%d in key) = %r, pitch-class set says %r" % (x, c, inkey(x))))
    for x, y in zip(notes, r["nearest"]):
        if type(y) is not int:
            bad.append(("nearest-raises", x, "nearest_note(%d) = %r" % (x, y))); continue
        if not inkey(y):
            bad.append(("nearest-not-in-key", x, "nearest_note(%d) = %d is not in the key" % (x, y))); continue
        if inkey(x) and y != x:
            bad.append(("nearest-moves-in-key-note", x, "nearest_note(%d) = %d" % (x, y))); continue
        dist = abs(y - x)
        closer = [z for z in range(x - dist + 1, x + dist) if inkey(z)]
        if closer:
            bad.append(("nearest-not-nearest", x, "nearest_note(%d) = %d but %d is in key and closer" % (x, y, closer[0])))
    if r["rest"] != [None, True, None]:
        bad.append(("rest", None, "get(None), (None in key), nearest_note(None) = %r" % (r["rest"],)))
    mel = r["melody"]
    if isinstance(r["pfilter"], list):
        for x, y in zip(mel, r["pfilter"]):
            if y is not None and (y != x or not inkey(y)):
                bad.append(("filter-lets-through", x, "PFilterByKey passed %r for input %r" % (y, x)))
            if y is None and x is not None and inkey(x):
                bad.append(("filter-drops-in-key", x, "PFilterByKey dropped in-key note %r" % (x,)))
    if isinstance(r["psnap"], list):
        for x, y in zip(mel, r["psnap"]):
            if x is not None and (type(y) is not int or not inkey(y)):
                bad.append(("snap-out-of-key", x, "PNearestNoteInKey gave %r for %r" % (y, x)))
    return bad


def key_term(kd):
    if kd.get("name") is not None:
        return "(builtin %s %s)" % (slit(kd["name"]), zlit(kd["tonic"]))
    return "(mkKey %s (mkScale %s %s))" % (zlit(kd["tonic"]), zlist(kd["semis"]), zlit(kd["osize"]))


def snippet(kd, call):
    if kd.get("name") is not None:
        k = "iso.Key(%d, iso.Scale.byname(%r))" % (kd["tonic"], kd["name"])
    else:
        k = "iso.Key(%d, iso.Scale(%r, 'user', octave_size=%d))" % (kd["tonic"], kd["semis"], kd["osize"])
    return "import isobar as iso; k = %s; print(%s)" % (k, call)


def run_keys(run, keys, exhaustive_domain):
    """keys: list of key dicts with degrees/notes.  Returns nothing; records violations."""
    shards = [keys[i::12] for i in range(12) if keys[i::12]]
    outs = run.impl_parallel("c13_impl", [{"keys": sh} for sh in shards])
    results = {}
    for sh, out in zip(shards, outs):
        for kd, r in zip(sh, out["keys"]):
            results[id(kd)] = r
    terms, meta = [], []
    for kd in keys:
        r = results[id(kd)]
        degrees, notes = kd["degrees"], kd["notes"]
        k = key_term(kd)
        dl = "degs" if exhaustive_domain else zlist(degrees)
        nl = "notes" if exhaustive_domain else zlist(notes)
        case_id = "%s t=%d" % (kd.get("name") or (kd["semis"], kd["osize"]), kd["tonic"])
        run.count(len(degrees) + 3 * len(notes) + 3)
        # oracle first: a concrete failing input is the best replay
        bad = oracle_key(kd, degrees, notes, r)
        run.cov["oracle_evaluations"] += len(degrees) + 2 * len(notes)
        seen_kinds = set()
        for kind, x, detail in bad:
            if kind in seen_kinds:
                continue
            seen_kinds.add(kind)
            run.violation({"kind": kind, "site": "Key"}, {
                "case": {"key": kd.get("name") or {"semis": kd["semis"], "osize": kd["osize"]}, "tonic": kd["tonic"], "input": x},
                "observed": detail, "oracle": "pitch-class-set oracle",
                "python": snippet(kd, "k.nearest_note(%r), k.get(%r) if %r is not None else None, (%r in k)" % (x, x, x, x)),
                "all_failures_of_this_kind": sum(1 for b in bad if b[0] == kind)})
        # correspondence terms
        def add(fn, term, ok_shape):
            if ok_shape:
                terms.append(term)
            else:
                terms.append("false")
            meta.append((kd, fn, case_id))
        add("get", "list_eqb Z.eqb (map (key_get %s) %s) %s" % (k, dl, zlist(r["get"]) if all_ints(r["get"]) else "[]"), all_ints(r["get"]))
        cont_ok = isinstance(r["contains"], list) and all(type(c) is bool for c in r["contains"])
        add("contains", "list_eqb Bool.eqb (map (key_contains %s) %s) %s" % (k, nl, lst([blit(c) for c in r["contains"]]) if cont_ok else "[]"), cont_ok)
        add("nearest", "near_ok %s %s %s" % (k, nl, zlist(r["nearest"]) if all_ints(r["nearest"]) else "[]"), all_ints(r["nearest"]))
        mel = r["melody"]
        add("PFilterByKey", "list_eqb oz (map (filt %s) %s) %s" % (k, olist(mel), olist(r["pfilter"]) if opt_ints(r["pfilter"]) else "[]"), opt_ints(r["pfilter"]))
        add("PNearestNoteInKey", "snap_ok %s %s %s" % (k, olist(mel), olist(r["psnap"]) if opt_ints(r["psnap"]) else "[]"), opt_ints(r["psnap"]))
        add("PDegree", "list_eqb oz (map (key_get_opt %s) %s) %s" % (k, olist(r["degmel"]), olist(r["pdegree"]) if opt_ints(r["pdegree"]) else "[]"), opt_ints(r["pdegree"]))
        if not all(kd["semis"][i] < kd["semis"][i + 1] for i in range(len(kd["semis"]) - 1)):
            pass
        run.nontrivial(case_id)
        run.dist("keys.%s" % ("builtin" if kd.get("name") else "user"))
        run.sample({"key": case_id, "get(-3..3)": r["get"][61:68] if exhaustive_domain else r["get"][:6],
                    "nearest(0..11)": r["nearest"][:12]}, limit=3)
    failing = run.coq_failing(HEADER, terms, chunk=120)
    run.cov["traces_validated_against_impl"] += len(terms) - len(failing)
    for i in failing:
        kd, fn, case_id = meta[i]
        r = results[id(kd)]
        # the oracle has already judged this key: if it found nothing, no failing input is known
        bad = oracle_key(kd, kd["degrees"], kd["notes"], r)
        found = bool(bad)
        if found:
            continue   # already reported with the concrete input above
        run.violation({"kind": "correspondence", "site": fn}, {
            "broken": "correspondence model/implementation on %s (theorems of Props/C13.v no longer speak about this code)" % fn,
            "case": {"key": case_id, "function": fn},
            "observed": {"get": r["get"][:20], "contains": r["contains"][:20], "nearest": r["nearest"][:20],
                         "pfilter": r["pfilter"], "psnap": r["psnap"], "pdegree": r["pdegree"]},
            "coq_term": terms[i][:2000]}, found_input=False)


def check(run):
    info = run.impl("c13_impl", {"list": True})
    # 1. exhaustive finite domain: every named scale x 12 tonics x notes 0..127 x degrees -64..64
    keys = []
    for name, semis, osize in info["scales"]:
        for t in range(12):
            keys.append({"name": name, "semis": semis, "osize": osize, "tonic": t,
                         "degrees": list(range(-64, 65)), "notes": list(range(128))})
    run_keys(run, keys, True)
    run.cov["exhaustive"] = True
    run.cov["exhaustive_domain"] = "%d named scales x 12 tonics x notes 0..127 x degrees -64..64 (complete)" % len(info["scales"])
    # 2. random user scales: 1..12 semitones, octave sizes 5..24, tonics -24..24, notes -200..300
    n_user = 150 if run.tier == "quick" else 3000
    rng = run.rng
    ukeys = []
    for _ in range(n_user):
        o = rng.randint(5, 24)
        n = rng.randint(1, min(12, o))
        semis = sorted(rng.sample(range(o), n))
        ukeys.append({"name": None, "semis": semis, "osize": o, "tonic": rng.randint(-24, 24),
                      "degrees": sorted(rng.sample(range(-100, 101), 60)),
                      "notes": [rng.randint(-200, 300) for _ in range(90)]})
        run.dist("user.osize.%d" % o)
    for i in range(0, len(ukeys), 600):
        run_keys(run, ukeys[i:i + 600], False)
    # 3. note names: whole MIDI range and every spelling
    numbers = list(range(-2, 130))
    sp = []
    for ns in info["note_names"]:
        for nm in ns:
            for v in (nm, nm.lower(), nm.upper()):
                for oc in range(-1, 10):
                    sp.append("%s%d" % (v, oc))
    sp += ["C", "eb", "H4", "C10", "4", "", "c#", "Cb4", "E#2"]
    out = run.impl("c13_impl", {"keys": [], "names": {"numbers": numbers, "spellings": sp}})["names"]
    terms, meta = [], []
    for n, s in zip(numbers, out["to_name"]):
        exp = optlit(s if isinstance(s, str) else None, slit)
        terms.append("option_eqb String.eqb (midi_note_to_note_name note_names %s) %s" % (zlit(n), exp))
        meta.append(("midi_note_to_note_name", n, s))
    for s, n in zip(sp, out["to_midi"]):
        exp = optlit(n if type(n) is int else None, zlit)
        terms.append("oz (note_name_to_midi_note note_names %s) %s" % (slit(s), exp))
        meta.append(("note_name_to_midi_note", s, n))
    run.count(len(terms))
    # oracle: round trips on the implementation alone
    to_name = dict(zip(numbers, out["to_name"]))
    to_midi = dict(zip(sp, out["to_midi"]))
    for n in range(128):
        s = to_name[n]
        back = to_midi.get(s) if isinstance(s, str) else None
        run.cov["oracle_evaluations"] += 1
        if back != n:
            run.violation({"kind": "name-roundtrip", "site": "util"}, {
                "case": {"midi_note": n}, "observed": "midi_note_to_note_name(%d) = %r, note_name_to_midi_note of that = %r" % (n, s, back),
                "python": "from isobar.util import *; print(note_name_to_midi_note(midi_note_to_note_name(%d)))" % n})
    failing = run.coq_failing(HEADER, terms, chunk=400)
    run.cov["traces_validated_against_impl"] += len(terms) - len(failing)
    for i in failing:
        fn, x, y = meta[i]
        run.violation({"kind": "correspondence", "site": fn}, {
            "broken": "correspondence model/implementation on util.%s" % fn,
            "case": {"input": x}, "observed": y, "coq_term": terms[i]}, found_input=False)
    run.nontrivial("names")
    run.cov["rule"] = ("one case = one key (scale x tonic) evaluated on its whole note/degree range by Key.get, __contains__, "
                       "nearest_note, PFilterByKey, PNearestNoteInKey, PDegree; distinct by (scale, tonic); non-trivial = scale has >= 1 semitone. "
                       "nearest_note compared by membership and distance, not identity.")


def replay(run, doc):
    case = doc.get("case", {})
    key = case.get("key")
    if isinstance(key, str) and "tonic" in case:
        kd = {"name": key, "tonic": case["tonic"]}
    elif isinstance(key, dict):
        kd = {"name": None, "semis": key["semis"], "osize": key["osize"], "tonic": case["tonic"]}
    else:
        print("replay: re-running the whole check"); kd = None
    if kd is None:
        if run.build():
            check(run)
        return run.finish()
    info = run.impl("c13_impl", {"list": True})
    if kd["name"]:
        for name, semis, osize in info["scales"]:
            if name == kd["name"]:
                kd["semis"], kd["osize"] = semis, osize
    x = case.get("input")
    kd["degrees"] = [x] if isinstance(x, int) else [0]
    kd["notes"] = [x] if isinstance(x, int) else [0]
    r = run.impl("c13_impl", {"keys": [kd]})["keys"][0]
    bad = oracle_key(kd, kd["degrees"], kd["notes"], r)
    for b in bad:
        print("REPLAY-FAILS:", b)
    if bad:
        print("VIOLATION property=C13 replay=%s" % "(replayed)")
    return 1 if bad else 0

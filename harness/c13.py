"""C13 — keys and scales map degrees to in-key notes; the nearest note is nearest.
Theorems: coq/Props/C13.v (general, for arbitrary ascending scales, + the built-in table regenerated from
the source).  Correspondence: Key.get / __contains__ / nearest_note / tonal patterns / note-name functions
of the repository against the Coq model, exhaustively on the property's finite domain, on random user
scales, and in sessions (several keys per process that share names / tonics / scale objects, built, re-configured
and queried in varying order; tonal patterns over key progressions under melodies with rests).
Oracle: independent pitch-class-set check of every implementation result (step i against key i)."""
from common import *

PROP = "C13"
META = {
 "engine": "F-pure-functions",
 "text": "Coq theorems (Props/C13.v, closed under the global context) prove for ARBITRARY ascending scales, octave sizes, tonics and all integer degrees/notes: the degree formula, strict monotonicity, degree-in-key, pitch-class invariance of membership, and that nearest_note is in key with no in-key note strictly closer; the built-in scale table is regenerated from the source on every run and proved to lie in that domain; note-name/MIDI-number round trips are proved by complete enumeration. The model is tied to /repo by a correspondence check run on every invocation: Key.get/__contains__/nearest_note, PFilterByKey/PNearestNoteInKey/PDegree and the util name functions are evaluated on the property's complete finite domain (all named scales x 12 tonics x notes 0..127 x degrees -64..64) plus random user scales, and compared inside Coq (vm_compute) with the model; an independent pitch-class-set oracle judges every implementation result and supplies the failing input. Further theorems (C13_progression_aligned, C13_filter/snap/degree/rest_progression) cover the tonal patterns when the KEY is itself a pattern: every step consumes one note and one key, rests included, so output i is in / nearest in / the degree of key i; C13_session_frame/_reconfigure say that the definition of a key is the last one given to that key, whatever other keys exist (a scale's name is not part of the model). The check runs sessions - one process each - in which several keys that agree in name, tonic, octave size or scale object but differ in semitones are built, re-configured and queried in varying order, every key again after all others were built and queried, and the tonal patterns run over PSequence-s of those keys under melodies with rests; every result is judged against the key's own semitones (step i against key i) and compared with the model evaluated on the definition the model derives from the session.",
 "note": "Trusted: Coq kernel + VM; gen_tables.py; the Python harness; that Python int //, % are floor division (Z.div/Z.modulo). Modelled not verified: nothing float; Key built from names uses Scale.byname/note_name_to_midi_note (covered by the correspondence only for built-in names). nearest_note is compared by distance and membership, so a different tie-break is not an alarm. Compared with the model only, not judged by the oracle: Key.semitones, the number of values a tonal pattern yields when one stream ends first, keys after attribute assignment (key.tonic = / key.scale =). PSequence(keys, r) yielding keys*r is taken from its documentation.",
}
HEADER = """From Isobar Require Import Base.Prelude Tonal.Key Tonal.Progression Generated.Tables.
From Coq Require Import String.
Definition degs := zrange (-64) 129.
Definition notes := zrange 0 128.
Definition builtin (name : string) (t : Z) : key :=
  match find (fun ns => String.eqb (fst ns) name) builtin_scales with
  | Some (_, s) => mkKey t s | None => mkKey t (mkScale [] 0) end.
Definition near_ok (k : key) (xs rs : list Z) : bool :=
  list_eqb (fun x r => key_contains k r && (Z.abs (r - x) =? Z.abs (nearest_note k x - x))) xs rs.
Definition filt (k : key) (x : option Z) : option Z :=
  match x with None => None | Some v => if key_contains k v then Some v else None end.
Definition snap_ok (k : key) (xs rs : list (option Z)) : bool :=
  list_eqb (fun x r => match x, r with None, None => true
     | Some x, Some r => key_contains k r && (Z.abs (r - x) =? Z.abs (nearest_note k x - x))
     | _, _ => false end) xs rs.
Definition oz := option_eqb Z.eqb.
Fixpoint rep {A} (n : nat) (l : list A) : list A := match n with O => [] | S m => l ++ rep m l end.
Definition untonic (k : key) : key := mkKey 0 (kscale k).
Definition snap_prog_ok (n : nat) (mel : list (option Z)) (ks : ksrc) (rs : list (option Z)) : bool :=
  Nat.eqb (List.length rs) (List.length (tonal_nextn snap_step n (mkT mel ks))) &&
  forallb (fun i => match nth_error rs i, nth_error mel i, ksrc_nth ks i with
     | Some None, Some None, Some _ => true
     | Some (Some r), Some (Some x), Some k => key_contains k r && (Z.abs (r - x) =? Z.abs (nearest_note k x - x))
     | _, _, _ => false end) (seq 0 (List.length rs)).
"""


def all_ints(l):
    return isinstance(l, list) and all(type(x) is int for x in l)


def opt_ints(l):
    return isinstance(l, list) and all(x is None or type(x) is int for x in l)


def olist(l):
    return lst([optlit(x, zlit) for x in l])


# ---- independent oracle ---------------------------------------------------------------------------
def oracle_key(kd, degrees, notes, r):
    """returns list of (kind, input, detail) failures of the property on implementation results"""
    semis, o, t = kd["semis"], kd["osize"], kd["tonic"]
    n = len(semis)
    pcs = {(s + t) % o for s in semis}
    inkey = lambda x: (x % o) in pcs
    bad = []
    prev = None
    for d, g in zip(degrees, r["get"]):
        want = t + semis[d % n] + o * (d // n)
        if g != want:
            bad.append(("degree-formula", d, "Key.get(%d) = %r, formula gives %d" % (d, g, want)))
        elif not inkey(g):
            bad.append(("degree-not-in-key", d, "Key.get(%d) = %r is not in the key" % (d, g)))
    gs = [(d, g) for d, g in zip(degrees, r["get"]) if type(g) is int]
    for (d1, g1), (d2, g2) in zip(gs, gs[1:]):
        if d1 < d2 and not g1 < g2:
            bad.append(("degree-not-increasing", d2, "Key.get(%d)=%d >= Key.get(%d)=%d" % (d1, g1, d2, g2)))
    for x, c in zip(notes, r["contains"]):
        if c is not inkey(x):
            bad.append(("membership", x, "(%d in key) = %r, pitch-class set says %r" % (x, c, inkey(x))))
    for x, y in zip(notes, r["nearest"]):
        if type(y) is not int:
            bad.append(("nearest-raises", x, "nearest_note(%d) = %r" % (x, y))); continue
        if not inkey(y):
            bad.append(("nearest-not-in-key", x, "nearest_note(%d) = %d is not in the key" % (x, y))); continue
        if inkey(x) and y != x:
            bad.append(("nearest-moves-in-key-note", x, "nearest_note(%d) = %d" % (x, y))); continue
        dist = abs(y - x)
        closer = [z for z in range(x - dist + 1, x + dist) if inkey(z)]
        if closer:
            bad.append(("nearest-not-nearest", x, "nearest_note(%d) = %d but %d is in key and closer" % (x, y, closer[0])))
    if r["rest"] != [None, True, None]:
        bad.append(("rest", None, "get(None), (None in key), nearest_note(None) = %r" % (r["rest"],)))
    mel = r["melody"]
    if isinstance(r["pfilter"], list):
        for x, y in zip(mel, r["pfilter"]):
            if y is not None and (y != x or not inkey(y)):
                bad.append(("filter-lets-through", x, "PFilterByKey passed %r for input %r" % (y, x)))
            if y is None and x is not None and inkey(x):
                bad.append(("filter-drops-in-key", x, "PFilterByKey dropped in-key note %r" % (x,)))
    if isinstance(r["psnap"], list):
        for x, y in zip(mel, r["psnap"]):
            if x is not None and (type(y) is not int or not inkey(y)):
                bad.append(("snap-out-of-key", x, "PNearestNoteInKey gave %r for %r" % (y, x)))
    return bad


def key_term(kd):
    if kd.get("name") is not None:
        return "(builtin %s %s)" % (slit(kd["name"]), zlit(kd["tonic"]))
    return "(mkKey %s (mkScale %s %s))" % (zlit(kd["tonic"]), zlist(kd["semis"]), zlit(kd["osize"]))


def snippet(kd, call):
    if kd.get("name") is not None:
        k = "iso.Key(%d, iso.Scale.byname(%r))" % (kd["tonic"], kd["name"])
    else:
        k = "iso.Key(%d, iso.Scale(%r, 'user', octave_size=%d))" % (kd["tonic"], kd["semis"], kd["osize"])
    return "import isobar as iso; k = %s; print(%s)" % (k, call)


def run_keys(run, keys, exhaustive_domain):
    """keys: list of key dicts with degrees/notes.  Returns nothing; records violations."""
    shards = [keys[i::12] for i in range(12) if keys[i::12]]
    outs = run.impl_parallel("c13_impl", [{"keys": sh} for sh in shards])
    results = {}
    for sh, out in zip(shards, outs):
        for kd, r in zip(sh, out["keys"]):
            results[id(kd)] = r
    terms, meta = [], []
    for kd in keys:
        r = results[id(kd)]
        degrees, notes = kd["degrees"], kd["notes"]
        k = key_term(kd)
        dl = "degs" if exhaustive_domain else zlist(degrees)
        nl = "notes" if exhaustive_domain else zlist(notes)
        case_id = "%s t=%d" % (kd.get("name") or (kd["semis"], kd["osize"]), kd["tonic"])
        run.count(len(degrees) + 3 * len(notes) + 3)
        # oracle first: a concrete failing input is the best replay
        bad = oracle_key(kd, degrees, notes, r)
        run.cov["oracle_evaluations"] += len(degrees) + 2 * len(notes)
        seen_kinds = set()
        for kind, x, detail in bad:
            if kind in seen_kinds:
                continue
            seen_kinds.add(kind)
            run.violation({"kind": kind, "site": "Key"}, {
                "case": {"key": kd.get("name") or {"semis": kd["semis"], "osize": kd["osize"]}, "tonic": kd["tonic"], "input": x},
                "observed": detail, "oracle": "pitch-class-set oracle",
                "python": snippet(kd, "k.nearest_note(%r), k.get(%r) if %r is not None else None, (%r in k)" % (x, x, x, x)),
                "all_failures_of_this_kind": sum(1 for b in bad if b[0] == kind)})
        # correspondence terms
        def add(fn, term, ok_shape):
            if ok_shape:
                terms.append(term)
            else:
                terms.append("false")
            meta.append((kd, fn, case_id))
        add("get", "list_eqb Z.eqb (map (key_get %s) %s) %s" % (k, dl, zlist(r["get"]) if all_ints(r["get"]) else "[]"), all_ints(r["get"]))
        cont_ok = isinstance(r["contains"], list) and all(type(c) is bool for c in r["contains"])
        add("contains", "list_eqb Bool.eqb (map (key_contains %s) %s) %s" % (k, nl, lst([blit(c) for c in r["contains"]]) if cont_ok else "[]"), cont_ok)
        add("nearest", "near_ok %s %s %s" % (k, nl, zlist(r["nearest"]) if all_ints(r["nearest"]) else "[]"), all_ints(r["nearest"]))
        mel = r["melody"]
        add("PFilterByKey", "list_eqb oz (map (filt %s) %s) %s" % (k, olist(mel), olist(r["pfilter"]) if opt_ints(r["pfilter"]) else "[]"), opt_ints(r["pfilter"]))
        add("PNearestNoteInKey", "snap_ok %s %s %s" % (k, olist(mel), olist(r["psnap"]) if opt_ints(r["psnap"]) else "[]"), opt_ints(r["psnap"]))
        add("PDegree", "list_eqb oz (map (key_get_opt %s) %s) %s" % (k, olist(r["degmel"]), olist(r["pdegree"]) if opt_ints(r["pdegree"]) else "[]"), opt_ints(r["pdegree"]))
        if not all(kd["semis"][i] < kd["semis"][i + 1] for i in range(len(kd["semis"]) - 1)):
            pass
        run.nontrivial(case_id)
        run.dist("keys.%s" % ("builtin" if kd.get("name") else "user"))
        run.sample({"key": case_id, "get(-3..3)": r["get"][61:68] if exhaustive_domain else r["get"][:6],
                    "nearest(0..11)": r["nearest"][:12]}, limit=3)
    failing = run.coq_failing(HEADER, terms, chunk=120)
    run.cov["traces_validated_against_impl"] += len(terms) - len(failing)
    for i in failing:
        kd, fn, case_id = meta[i]
        r = results[id(kd)]
        # the oracle has already judged this key: if it found nothing, no failing input is known
        bad = oracle_key(kd, kd["degrees"], kd["notes"], r)
        found = bool(bad)
        if found:
            continue   # already reported with the concrete input above
        run.violation({"kind": "correspondence", "site": fn}, {
            "broken": "correspondence model/implementation on %s (theorems of Props/C13.v no longer speak about this code)" % fn,
            "case": {"key": case_id, "function": fn},
            "observed": {"get": r["get"][:20], "contains": r["contains"][:20], "nearest": r["nearest"][:20],
                         "pfilter": r["pfilter"], "psnap": r["psnap"], "pdegree": r["pdegree"]},
            "coq_term": terms[i][:2000]}, found_input=False)


# ---- sessions: several keys in one process; key progressions -----------------------------------------
# One session = one interpreter.  Scales and keys are built in varying order - unnamed (every Scale([...])
# without a name is called "unnamed scale"), under a shared user name, under the name of a built-in scale,
# built-in ones - on few tonics and octave sizes, so that many keys of a session agree in everything a
# lazy cache might be keyed by (name, tonic, octave size, scale object) and differ in their semitones.
# Every key is queried after others were built and queried; some are re-configured (tonic / scale
# assigned) afterwards.  The tonal patterns are run with a constant key and with a PSequence of keys (a
# progression) under melodies with rests: output i is judged against key i.
PATTERN_FNS = ("pfilter", "psnap", "pdegree", "chain")
PATTERN_SITE = {"pfilter": "PFilterByKey", "psnap": "PNearestNoteInKey", "pdegree": "PDegree",
                "chain": "PNearestNoteInKey(PFilterByKey)"}


def rand_scale(rng, o):
    n = rng.randint(1, min(12, o))
    return sorted(rng.sample(range(o), n))


def rand_melody(rng, pool, length):
    """notes (or degrees) with rests: leading / trailing / consecutive rests all occur"""
    density = rng.choice([0.1, 0.25, 0.5])
    mel = [None if rng.random() < density else rng.choice(pool) for _ in range(length)]
    if rng.random() < 0.3:
        mel[0] = None
    if rng.random() < 0.3:
        i = rng.randrange(length - 1)
        mel[i] = mel[i + 1] = None
    if all(x is None for x in mel):
        mel[-1] = rng.choice(pool)
    if all(x is not None for x in mel):
        mel[rng.randrange(length)] = None
    return mel


def gen_session(rng, info):
    builtin = [b for b in info["scales"] if b[2] == 12]
    o_main = 12 if rng.random() < 0.7 else rng.randint(5, 24)
    osizes = [o_main] if rng.random() < 0.75 else [o_main, rng.randint(5, 24)]
    tonics = rng.sample(range(-14, 26), rng.randint(1, 3))
    shared_name = rng.choice(["verif-A", "user", "unnamed scale", rng.choice(builtin)[0]])
    base = rng.randint(-30, 110)
    notes = list(range(base, base + o_main)) + [rng.randint(-200, 300) for _ in range(6)]
    rng.shuffle(notes)
    degrees = sorted(rng.sample(range(-30, 31), 14))
    ops, slots, sids = [], [], []

    def new_scale():
        sid = len(sids)
        o = rng.choice(osizes)
        u = rng.random()
        if u < 0.12 and o == 12:
            b = rng.choice(builtin)
            ops.append({"op": "scale", "id": sid, "how": "builtin", "name": b[0], "semis": b[1], "osize": 12})
        elif u < 0.62:
            ops.append({"op": "scale", "id": sid, "how": "unnamed", "semis": rand_scale(rng, o), "osize": o})
        else:
            ops.append({"op": "scale", "id": sid, "how": "named", "name": shared_name, "semis": rand_scale(rng, o), "osize": o})
        sids.append(sid)
        return sid

    def key_src(as_scale=False):
        if rng.random() < 0.25:
            spec = {"const": rng.choice(slots)}
            avail = None
        else:
            seq = [rng.choice(slots) for _ in range(rng.randint(2, 4))]
            spec = {"seq": seq, "repeats": 1}
            avail = len(seq)
        if as_scale:
            spec["as_scale"] = True
        return spec, avail

    def pattern_query():
        fn = rng.choice(PATTERN_FNS)
        length = rng.randint(6, 16)
        mel = rand_melody(rng, degrees if fn == "pdegree" else notes, length)
        spec, avail = key_src(as_scale=(fn == "pdegree" and rng.random() < 0.25))
        if avail is not None:
            u = rng.random()   # the progression outlasts the melody (mostly), ends with it, or ends first
            spec["repeats"] = (length // avail + 2) if u < 0.7 else max(1, -(-length // avail)) if u < 0.85 else max(1, length // avail - 1)
        n = length + 2 if rng.random() < 0.8 else rng.randint(1, length)
        op = {"op": "q", "fn": fn, "xs": mel, "keys": spec, "n": n}
        if fn == "chain":
            spec2, avail2 = key_src()
            if avail2 is not None:
                spec2["repeats"] = length // avail2 + 2
            op["keys2"] = spec2
        if rng.random() < 0.3 and n > 1:
            op["split"] = rng.randint(1, n - 1)
        ops.append(op)

    def direct_query(slot, fn=None):
        fn = fn or rng.choice(["contains", "contains", "nearest", "nearest", "get", "getitem", "semitones"])
        if fn == "semitones":
            ops.append({"op": "q", "slot": slot, "fn": fn})
        else:
            ops.append({"op": "q", "slot": slot, "fn": fn, "xs": degrees if fn in ("get", "getitem") else notes})

    nslots = rng.randint(4, 9)
    while len(slots) < nslots:
        for _ in range(rng.randint(1, 3)):
            sid = rng.choice(sids) if sids and rng.random() < 0.2 else new_scale()   # the same scale object twice
            slot = len(slots)
            ops.append({"op": "key", "slot": slot, "scale": sid, "tonic": rng.choice(tonics)})
            slots.append(slot)
        for _ in range(rng.randint(1, 3)):
            direct_query(rng.choice(slots))
        if rng.random() < 0.6:
            pattern_query()
        if rng.random() < 0.2:
            slot = rng.choice(slots)
            if rng.random() < 0.5:
                ops.append({"op": "retune", "slot": slot, "tonic": rng.choice(tonics + [rng.randint(-14, 26)])})
            else:
                ops.append({"op": "rescale", "slot": slot, "scale": rng.choice(sids) if rng.random() < 0.5 else new_scale()})
            direct_query(slot)
    order = list(slots)
    rng.shuffle(order)
    for slot in order:            # every key once more, after all the others were built and queried
        direct_query(slot, "contains")
        direct_query(slot, rng.choice(["nearest", "get"]))
    for _ in range(2):
        pattern_query()
    return {"ops": ops, "notes": notes, "degrees": degrees}


class SessionState:
    """what the harness knows about a session while walking its operations (independent of the model)"""
    def __init__(self):
        self.scales, self.keys, self.coq_ops = {}, {}, []

    def apply(self, op):
        k = op["op"]
        if k == "scale":
            self.scales[op["id"]] = {"semis": op["semis"], "osize": op["osize"],
                                     "name": op.get("name"), "how": op["how"]}
        elif k == "key":
            sc = self.scales[op["scale"]]
            self.keys[op["slot"]] = {"semis": sc["semis"], "osize": sc["osize"], "tonic": op["tonic"], "judged": True}
            self.coq_ops.append("SBuild %d (mkKey %s (mkScale %s %s))" % (op["slot"], zlit(op["tonic"]), zlist(sc["semis"]), zlit(sc["osize"])))
        elif k == "retune":
            # a key re-configured after construction: the property text speaks about "every key", not about
            # assigning to its attributes, so from here on this key is compared with the model only
            self.keys[op["slot"]] = dict(self.keys[op["slot"]], tonic=op["tonic"], judged=False)
            self.coq_ops.append("SRetune %d %s" % (op["slot"], zlit(op["tonic"])))
        elif k == "rescale":
            sc = self.scales[op["scale"]]
            self.keys[op["slot"]] = dict(self.keys[op["slot"]], semis=sc["semis"], osize=sc["osize"], judged=False)
            self.coq_ops.append("SRescale %d (mkScale %s %s)" % (op["slot"], zlist(sc["semis"]), zlit(sc["osize"])))

    def key_at(self, spec, i):
        """definition of the key in force at step i of a pattern query (None: the key pattern has ended)"""
        if "const" in spec:
            d = self.keys[spec["const"]]
        else:
            seq = spec["seq"]
            if i >= len(seq) * spec["repeats"]:
                return None
            d = self.keys[seq[i % len(seq)]]
        return dict(d, tonic=0) if spec.get("as_scale") else d


def inkey_fn(d):
    o = d["osize"]
    pcs = {(s + d["tonic"]) % o for s in d["semis"]}
    return lambda x: (x % o) in pcs


def judge_nearest(inkey, x, y, who):
    if type(y) is not int:
        return ("nearest-raises", x, "%s(%r) = %r" % (who, x, y))
    if not inkey(y):
        return ("nearest-not-in-key", x, "%s(%d) = %d is not in the key" % (who, x, y))
    if inkey(x) and y != x:
        return ("nearest-moves-in-key-note", x, "%s(%d) = %d" % (who, x, y))
    dist = abs(y - x)
    closer = [z for z in range(x - dist + 1, x + dist) if inkey(z)]
    if closer:
        return ("nearest-not-nearest", x, "%s(%d) = %d but %d is in key and closer" % (who, x, y, closer[0]))
    return None


def oracle_query(st, op, r):
    """independent judgement of one query of a session: list of (kind, input, detail)."""
    fn, bad = op["fn"], []
    if fn in PATTERN_FNS:
        if not opt_ints(r):
            return bad
        mel = op["xs"]
        for i, y in enumerate(r):
            if i >= len(mel):
                break
            x = mel[i]
            if fn == "chain":
                ka, kb = st.key_at(op["keys"], i), st.key_at(op["keys2"], i)
                if ka is None or kb is None or not (ka["judged"] and kb["judged"]):
                    continue
                ina, inb = inkey_fn(ka), inkey_fn(kb)
                if x is None or not ina(x):
                    if y is not None:
                        bad.append(("filter-lets-through", (i, x), "step %d: %r is not in key %d of the inner PFilterByKey, yet the chain gave %r" % (i, x, i, y)))
                elif y is None:
                    bad.append(("filter-drops-in-key", (i, x), "step %d: %r is in key %d of the inner PFilterByKey, yet the chain gave a rest" % (i, x, i)))
                else:
                    e = judge_nearest(inb, x, y, "step %d: PNearestNoteInKey" % i)
                    if e:
                        bad.append(("snap-" + e[0].replace("nearest-", ""), (i, x), e[2]))
                continue
            kd = st.key_at(op["keys"], i)
            if kd is None or not kd["judged"]:
                continue
            inkey = inkey_fn(kd)
            if fn == "pfilter":
                if y is not None and (y != x or not inkey(y)):
                    bad.append(("filter-lets-through", (i, x), "step %d: PFilterByKey passed %r for input %r, key of that step %r" % (i, y, x, kd)))
                if y is None and x is not None and inkey(x):
                    bad.append(("filter-drops-in-key", (i, x), "step %d: PFilterByKey dropped %r, which is in the key of that step %r" % (i, x, kd)))
            elif fn == "psnap":
                if x is None:
                    if y is not None:
                        bad.append(("rest", (i, x), "step %d: PNearestNoteInKey turned a rest into %r" % (i, y)))
                else:
                    e = judge_nearest(inkey, x, y, "step %d: PNearestNoteInKey" % i)
                    if e:
                        bad.append(("snap-" + e[0].replace("nearest-", ""), (i, x), e[2] + ", key of that step %r" % (kd,)))
            elif fn == "pdegree":
                if x is None:
                    if y is not None:
                        bad.append(("rest", (i, x), "step %d: PDegree turned a rest into %r" % (i, y)))
                else:
                    n = len(kd["semis"])
                    want = kd["tonic"] + kd["semis"][x % n] + kd["osize"] * (x // n)
                    if y != want:
                        bad.append(("degree-formula", (i, x), "step %d: PDegree(%d) = %r, formula gives %d for the key of that step %r" % (i, x, y, want, kd)))
        return bad
    kd = st.keys[op["slot"]]
    if not kd["judged"] or not isinstance(r, list):
        return bad
    inkey = inkey_fn(kd)
    xs = op.get("xs", [])
    if fn in ("get", "getitem"):
        n = len(kd["semis"])
        for d, g in zip(xs, r):
            want = kd["tonic"] + kd["semis"][d % n] + kd["osize"] * (d // n)
            if g != want:
                bad.append(("degree-formula", d, "Key.%s(%d) = %r, formula gives %d" % (fn, d, g, want)))
            elif not inkey(g):
                bad.append(("degree-not-in-key", d, "Key.%s(%d) = %r is not in the key" % (fn, d, g)))
        gs = [(d, g) for d, g in zip(xs, r) if type(g) is int]
        for (d1, g1), (d2, g2) in zip(gs, gs[1:]):
            if d1 < d2 and not g1 < g2:
                bad.append(("degree-not-increasing", d2, "Key.get(%d)=%d >= Key.get(%d)=%d" % (d1, g1, d2, g2)))
    elif fn == "contains":
        for x, c in zip(xs, r):
            if c is not inkey(x):
                bad.append(("membership", x, "(%d in key) = %r, pitch-class set says %r" % (x, c, inkey(x))))
    elif fn == "nearest":
        for x, y in zip(xs, r):
            e = judge_nearest(inkey, x, y, "nearest_note")
            if e:
                bad.append(e)
    return bad


def ksrc_term(spec, sname, j):
    wrap = (lambda t: "(untonic %s)" % t) if spec.get("as_scale") else (lambda t: t)
    if "const" in spec:
        return "(KConst %s)" % wrap("(sk %s %d %d)" % (sname, j, spec["const"]))
    return "(KSeq (rep %d %s))" % (spec["repeats"], lst([wrap("(sk %s %d %d)" % (sname, j, sl)) for sl in spec["seq"]]))


def query_term(op, r, sname, j):
    """Coq boolean: the model, on the definition the key(s) have after the first j configuration operations of
    the session, agrees with what the implementation returned (None: the result has not even the right shape)"""
    fn = op["fn"]
    if fn in PATTERN_FNS:
        if not opt_ints(r):
            return None
        mel, ks = olist(op["xs"]), ksrc_term(op["keys"], sname, j)
        if fn == "pfilter":
            return "list_eqb oz (tonal_nextn filter_step %d (mkT %s %s)) %s" % (op["n"], mel, ks, olist(r))
        if fn == "pdegree":
            return "list_eqb oz (tonal_nextn degree_step %d (mkT %s %s)) %s" % (op["n"], mel, ks, olist(r))
        if fn == "psnap":
            return "snap_prog_ok %d %s %s %s" % (op["n"], mel, ks, olist(r))
        return "snap_prog_ok %d (tonal_nextn filter_step %d (mkT %s %s)) %s %s" % (
            op["n"], op["n"], mel, ks, ksrc_term(op["keys2"], sname, j), olist(r))
    k = "(sk %s %d %d)" % (sname, j, op["slot"])
    if fn == "semitones":
        return "list_eqb Z.eqb (key_semitones %s) %s" % (k, zlist(r)) if all_ints(r) else None
    xs = zlist(op["xs"])
    if fn in ("get", "getitem"):
        return "list_eqb Z.eqb (map (key_get %s) %s) %s" % (k, xs, zlist(r)) if all_ints(r) else None
    if fn == "contains":
        ok = isinstance(r, list) and all(type(c) is bool for c in r)
        return "list_eqb Bool.eqb (map (key_contains %s) %s) %s" % (k, xs, lst([blit(c) for c in r])) if ok else None
    if fn == "nearest":
        return "near_ok %s %s %s" % (k, xs, zlist(r)) if all_ints(r) else None
    return None


def session_script(ops, upto):
    """a python script that replays the history of a session up to (and including) operation `upto`"""
    L = ["import isobar as iso", "from isobar import Scale, Key, PSequence, PFilterByKey, PNearestNoteInKey, PDegree"]

    def src(spec):
        f = (lambda sl: "k%d.scale" % sl) if spec.get("as_scale") else (lambda sl: "k%d" % sl)
        if "const" in spec:
            return f(spec["const"])
        return "PSequence([%s], %d)" % (", ".join(f(sl) for sl in spec["seq"]), spec["repeats"])
    for i, op in enumerate(ops[:upto + 1]):
        k = op["op"]
        if k == "scale":
            if op["how"] == "builtin":
                L.append("s%d = Scale.byname(%r)" % (op["id"], op["name"]))
            elif op["how"] == "unnamed":
                L.append("s%d = Scale(%r%s)" % (op["id"], op["semis"], "" if op["osize"] == 12 else ", octave_size=%d" % op["osize"]))
            else:
                L.append("s%d = Scale(%r, %r, octave_size=%d)" % (op["id"], op["semis"], op["name"], op["osize"]))
        elif k == "key":
            L.append("k%d = Key(%d, s%d)" % (op["slot"], op["tonic"], op["scale"]))
        elif k == "retune":
            L.append("k%d.tonic = %d" % (op["slot"], op["tonic"]))
        elif k == "rescale":
            L.append("k%d.scale = s%d" % (op["slot"], op["scale"]))
        else:
            fn = op["fn"]
            if fn in PATTERN_FNS:
                mel = "PSequence(%r, 1)" % (op["xs"],)
                e = {"pfilter": "PFilterByKey(%s, %s)", "psnap": "PNearestNoteInKey(%s, %s)", "pdegree": "PDegree(%s, %s)",
                     "chain": "PNearestNoteInKey(PFilterByKey(%s, %s), " + (src(op["keys2"]) if fn == "chain" else "") + ")"}[fn] % (mel, src(op["keys"]))
                if op.get("split") is not None:
                    e = "(lambda p: p.nextn(%d) + p.nextn(%d))(%s)" % (op["split"], op["n"] - op["split"], e)
                else:
                    e = "%s.nextn(%d)" % (e, op["n"])
            elif fn == "semitones":
                e = "k%d.semitones" % op["slot"]
            else:
                call = {"get": "k%d.get(x)", "getitem": "k%d[x]", "contains": "(x in k%d)", "nearest": "k%d.nearest_note(x)"}[fn] % op["slot"]
                e = "[%s for x in %r]" % (call, op["xs"])
            L.append(("print(%s)   # <- the failing query" if i == upto else "_ = %s") % e)
    return "\n".join(L)


def bad_at(ops, res, oi):
    """oracle failures of the query at index oi of an executed history"""
    st = SessionState()
    for o in ops[:oi]:
        st.apply(o)
    return oracle_query(st, ops[oi], res[oi]), st


def shrink_history(run, ops, oi, kind):
    """a shorter history ending in the same query that still fails the oracle in the same way: first without
    the earlier queries and without the keys the query does not use, then only without the earlier queries"""
    target = ops[oi]
    conf = [o for o in ops[:oi] if o["op"] != "q"]
    used = set()
    for spec in (target.get("keys"), target.get("keys2")):
        if spec:
            used.update([spec["const"]] if "const" in spec else spec["seq"])
    if "slot" in target:
        used.add(target["slot"])
    kept = [o for o in conf if o["op"] == "scale" or o["slot"] in used]
    sids = {o["scale"] for o in kept if o["op"] in ("key", "rescale")}
    kept = [o for o in kept if o["op"] != "scale" or o["id"] in sids]
    for cand in (kept + [target], conf + [target]):
        if len(cand) >= oi + 1:
            continue
        try:
            res = run.impl("c13_impl", {"sessions": [{"ops": cand}]})["sessions"][0]
        except Exception:
            continue
        if isinstance(res, list) and len(res) == len(cand):
            bad, _ = bad_at(cand, res, len(cand) - 1)
            hit = [b for b in bad if b[0] == kind]
            if hit:
                return cand, res[-1], hit[0]
    return None


def judge_sessions(run, sessions, outs):
    """oracle + model comparison of executed sessions.  Returns the number of oracle failures."""
    header = HEADER
    terms, meta, n_bad = [], [], 0
    reported = run.__dict__.setdefault("_c13_reported", set())   # one shrunk replay per (kind, site) and run
    for si, (sess, res) in enumerate(zip(sessions, outs)):
        sname = "sess%d" % si
        st = SessionState()
        ops = sess["ops"]
        per_query = []
        for oi, (op, r) in enumerate(zip(ops, res)):
            if op["op"] != "q":
                st.apply(op)
                if r is not None:       # building / re-configuring a key raised
                    terms.append("false"); meta.append((si, oi, op, r))
                continue
            j = len(st.coq_ops)
            fn = op["fn"]
            site = PATTERN_SITE.get(fn, "Key")
            n_in = len(op.get("xs", [])) or 1
            run.count(n_in)
            bad = oracle_query(st, op, r)
            run.cov["oracle_evaluations"] += n_in
            seen = set()
            for kind, x, detail in bad:
                if kind in seen:
                    continue
                seen.add(kind)
                n_bad += 1
                if (kind, site) in reported:
                    continue
                reported.add((kind, site))
                h_ops, h_oi, h_r = ops[:oi + 1], oi, r
                small = shrink_history(run, ops, oi, kind)
                if small:
                    h_ops, h_r, (_, x, detail) = small[0], small[1], small[2]
                    h_oi = len(h_ops) - 1
                defs = SessionState()
                for o in h_ops[:h_oi]:
                    defs.apply(o)
                run.violation({"kind": kind, "site": site, "history": "session"}, {
                    "case": {"session": {"ops": h_ops}, "op_index": h_oi, "query": op, "input": x,
                             "keys_at_that_moment": {"k%d" % sl: d for sl, d in sorted(defs.keys.items())},
                             "scales": {"s%d" % i: d for i, d in sorted(defs.scales.items())},
                             "history_shrunk": bool(small), "original_history_ops": oi + 1},
                    "observed": detail, "returned": h_r, "oracle": "pitch-class-set oracle on the key's own semitones (step i against key i)",
                    "python": session_script(h_ops, h_oi),
                    "all_failures_of_this_kind_in_this_query": sum(1 for b in bad if b[0] == kind)})
            t = query_term(op, r, sname, j)
            terms.append(t if t is not None else "false")
            meta.append((si, oi, op, r))
            per_query.append((oi, bool(bad)))
            run.dist("session.q.%s" % fn)
            if fn in PATTERN_FNS:
                run.dist("session.keysrc.%s" % ("const" if "const" in op["keys"] else "progression"))
                if "seq" in op["keys"] and any(x is None for x in op["xs"]):
                    run.dist("session.progression-with-rests")
        header += "Definition %s : list sop := %s.\n" % (sname, lst(st.coq_ops))
        names = [sc["name"] if sc["how"] != "unnamed" else "unnamed scale" for sc in st.scales.values()]
        clash = len(names) - len(set(names))
        run.dist("session.same-name-scales.%s" % ("0" if clash == 0 else "1-2" if clash < 3 else "3+"))
        run.nontrivial("session %d %r" % (si, [o for o in ops if o["op"] != "q"]))
        run.sample({"session": si, "keys": len(st.keys), "ops": len(ops), "first_ops": ops[:4]}, limit=2)
    failing = run.coq_failing(header, terms, chunk=150)
    run.cov["traces_validated_against_impl"] += len(terms) - len(failing)
    for i in failing:
        si, oi, op, r = meta[i]
        ops = sessions[si]["ops"]
        st = SessionState()
        for o in ops[:oi]:
            st.apply(o)
        if op["op"] == "q" and oracle_query(st, op, r):
            continue          # already reported with the concrete input
        site = PATTERN_SITE.get(op.get("fn"), "Key") if op["op"] == "q" else "Key"
        run.violation({"kind": "correspondence", "site": site, "history": "session"}, {
            "broken": "correspondence model/implementation on %s within a session of several keys (theorems of Props/C13.v no longer speak about this code)" % site,
            "case": {"session": {"ops": ops[:oi + 1]}, "op_index": oi, "query": op},
            "observed": r, "python": session_script(ops, oi) if op["op"] == "q" else None,
            "coq_term": terms[i][:2000]}, found_input=False)
    return n_bad


def run_sessions(run, info, n_sessions):
    import time
    t0 = time.time()
    sessions = [gen_session(run.rng, info) for _ in range(n_sessions)]
    # one process per session: the driver forks a child of the freshly imported interpreter for each
    shards = [list(range(i, n_sessions, 12)) for i in range(12) if i < n_sessions]
    outs = run.impl_parallel("c13_impl", [{"sessions": [sessions[i] for i in sh]} for sh in shards])
    res = [None] * n_sessions
    for sh, out in zip(shards, outs):
        for i, r in zip(sh, out["sessions"]):
            if not isinstance(r, list):
                raise CheckError("implementation driver failed on a session: %r" % (r,))
            res[i] = r
    t1 = time.time()
    for i in range(0, n_sessions, 96):      # the definitions of a batch of sessions go into the header of its Coq files
        judge_sessions(run, sessions[i:i + 96], res[i:i + 96])
    run.cov["sessions_wall_s"] = {"implementation": round(t1 - t0, 1), "oracle+model": round(time.time() - t1, 1)}
    run.cov["sessions"] = n_sessions


def check(run):
    info = run.impl("c13_impl", {"list": True})
    # 1. exhaustive finite domain: every named scale x 12 tonics x notes 0..127 x degrees -64..64
    keys = []
    for name, semis, osize in info["scales"]:
        for t in range(12):
            keys.append({"name": name, "semis": semis, "osize": osize, "tonic": t,
                         "degrees": list(range(-64, 65)), "notes": list(range(128))})
    run_keys(run, keys, True)
    run.cov["exhaustive"] = True
    run.cov["exhaustive_domain"] = "%d named scales x 12 tonics x notes 0..127 x degrees -64..64 (complete)" % len(info["scales"])
    # 2. random user scales: 1..12 semitones, octave sizes 5..24, tonics -24..24, notes -200..300
    n_user = 150 if run.tier == "quick" else 3000
    rng = run.rng
    ukeys = []
    for _ in range(n_user):
        o = rng.randint(5, 24)
        n = rng.randint(1, min(12, o))
        semis = sorted(rng.sample(range(o), n))
        ukeys.append({"name": None, "semis": semis, "osize": o, "tonic": rng.randint(-24, 24),
                      "degrees": sorted(rng.sample(range(-100, 101), 60)),
                      "notes": [rng.randint(-200, 300) for _ in range(90)]})
        run.dist("user.osize.%d" % o)
    for i in range(0, len(ukeys), 600):
        run_keys(run, ukeys[i:i + 600], False)
    # 2b. sessions: several keys per process (shared names / tonics / scale objects), re-configuration,
    #     tonal patterns over key progressions with rests
    run_sessions(run, info, 60 if run.tier == "quick" else 1000)
    # 3. note names: whole MIDI range and every spelling
    numbers = list(range(-2, 130))
    sp = []
    for ns in info["note_names"]:
        for nm in ns:
            for v in (nm, nm.lower(), nm.upper()):
                for oc in range(-1, 10):
                    sp.append("%s%d" % (v, oc))
    sp += ["C", "eb", "H4", "C10", "4", "", "c#", "Cb4", "E#2"]
    out = run.impl("c13_impl", {"keys": [], "names": {"numbers": numbers, "spellings": sp}})["names"]
    terms, meta = [], []
    for n, s in zip(numbers, out["to_name"]):
        exp = optlit(s if isinstance(s, str) else None, slit)
        terms.append("option_eqb String.eqb (midi_note_to_note_name note_names %s) %s" % (zlit(n), exp))
        meta.append(("midi_note_to_note_name", n, s))
    for s, n in zip(sp, out["to_midi"]):
        exp = optlit(n if type(n) is int else None, zlit)
        terms.append("oz (note_name_to_midi_note note_names %s) %s" % (slit(s), exp))
        meta.append(("note_name_to_midi_note", s, n))
    run.count(len(terms))
    # oracle: round trips on the implementation alone
    to_name = dict(zip(numbers, out["to_name"]))
    to_midi = dict(zip(sp, out["to_midi"]))
    for n in range(128):
        s = to_name[n]
        back = to_midi.get(s) if isinstance(s, str) else None
        run.cov["oracle_evaluations"] += 1
        if back != n:
            run.violation({"kind": "name-roundtrip", "site": "util"}, {
                "case": {"midi_note": n}, "observed": "midi_note_to_note_name(%d) = %r, note_name_to_midi_note of that = %r" % (n, s, back),
                "python": "from isobar.util import *; print(note_name_to_midi_note(midi_note_to_note_name(%d)))" % n})
    failing = run.coq_failing(HEADER, terms, chunk=400)
    run.cov["traces_validated_against_impl"] += len(terms) - len(failing)
    for i in failing:
        fn, x, y = meta[i]
        run.violation({"kind": "correspondence", "site": fn}, {
            "broken": "correspondence model/implementation on util.%s" % fn,
            "case": {"input": x}, "observed": y, "coq_term": terms[i]}, found_input=False)
    run.nontrivial("names")
    run.cov["rule"] = ("one case = one key (scale x tonic) evaluated on its whole note/degree range by Key.get, __contains__, "
                       "nearest_note, PFilterByKey, PNearestNoteInKey, PDegree; distinct by (scale, tonic); non-trivial = scale has >= 1 semitone. "
                       "nearest_note compared by membership and distance, not identity.  A session (one process: 4-9 keys sharing names/tonics/"
                       "scale objects, interleaved queries, re-configuration, pattern queries over key progressions with rests) counts as one case, "
                       "distinct by its sequence of build/re-configure operations.")


def replay_session(run, doc):
    case = doc["case"]
    ops, oi = case["session"]["ops"], case["op_index"]
    res = run.impl("c13_impl", {"sessions": [{"ops": ops}]})["sessions"][0]
    bad = []
    if isinstance(res, list) and len(res) == len(ops) and ops[oi]["op"] == "q":
        bad, _ = bad_at(ops, res, oi)
        print("replay: query %s returned %r" % (json.dumps(ops[oi]), res[oi]))
    for b in bad:
        print("REPLAY-FAILS:", b)
    if bad:
        print("VIOLATION property=C13 replay=%s" % "(replayed)")
        return 1
    if not doc.get("failing_input_found", True):
        print("replay: the document records a model/implementation disagreement without a failing input; re-running the whole check")
        if run.build():
            check(run)
        return run.finish()
    return 0


def replay(run, doc):
    case = doc.get("case", {})
    if "session" in case:
        return replay_session(run, doc)
    key = case.get("key")
    if isinstance(key, str) and "tonic" in case:
        kd = {"name": key, "tonic": case["tonic"]}
    elif isinstance(key, dict):
        kd = {"name": None, "semis": key["semis"], "osize": key["osize"], "tonic": case["tonic"]}
    else:
        print("replay: re-running the whole check"); kd = None
    if kd is None:
        if run.build():
            check(run)
        return run.finish()
    info = run.impl("c13_impl", {"list": True})
    if kd["name"]:
        for name, semis, osize in info["scales"]:
            if name == kd["name"]:
                kd["semis"], kd["osize"] = semis, osize
    x = case.get("input")
    kd["degrees"] = [x] if isinstance(x, int) else [0]
    kd["notes"] = [x] if isinstance(x, int) else [0]
    r = run.impl("c13_impl", {"keys": [kd]})["keys"][0]
    bad = oracle_key(kd, kd["degrees"], kd["notes"], r)
    for b in bad:
        print("REPLAY-FAILS:", b)
    if bad:
        print("VIOLATION property=C13 replay=%s" % "(replayed)")
    return 1 if bad else 0

"""C13 — keys and scales map degrees to in-key notes; the nearest note is nearest.
Theorems: coq/Props/C13.v (general, for arbitrary ascending scales, + the built-in table regenerated from
the source).  Correspondence: Key.get / __contains__ / nearest_note / tonal patterns / note-name functions
of the repository against the Coq model, exhaustively on the property's finite domain, on random user
scales, and in sessions (several keys per process that share names / tonics / scale objects, built, re-configured
and queried in varying order; tonal patterns over key progressions under melodies with rests; Key and Scale OBJECTS
that are held by live pattern objects and re-tuned IN PLACE between their nextn() calls; user scales of other octave
sizes reached through the NAME they are registered under; copies of scales and keys - model Tonal/Held.v).
Oracle: independent pitch-class-set check of every implementation result (step i against key i as it is at step i)."""
from common import *

PROP = "C13"
META = {
 "engine": "F-pure-functions",
 "text": "Coq theorems (Props/C13.v, closed under the global context) prove for ARBITRARY ascending scales, octave sizes, tonics and all integer degrees/notes: the degree formula, strict monotonicity, degree-in-key, pitch-class invariance of membership, and that nearest_note is in key with no in-key note strictly closer; the built-in scale table is regenerated from the source on every run and proved to lie in that domain; note-name/MIDI-number round trips are proved by complete enumeration. The model is tied to /repo by a correspondence check run on every invocation: Key.get/__contains__/nearest_note, PFilterByKey/PNearestNoteInKey/PDegree and the util name functions are evaluated on the property's complete finite domain (all named scales x 12 tonics x notes 0..127 x degrees -64..64) plus random user scales, and compared inside Coq (vm_compute) with the model; an independent pitch-class-set oracle judges every implementation result and supplies the failing input. Further theorems (C13_progression_aligned, C13_filter/snap/degree/rest_progression) cover the tonal patterns when the KEY is itself a pattern: every step consumes one note and one key, rests included, so output i is in / nearest in / the degree of key i; C13_session_frame/_reconfigure say that the definition of a key is the last one given to that key, whatever other keys exist (a scale's name is not part of the model). The check runs sessions - one process each - in which several keys that agree in name, tonic, octave size or scale object but differ in semitones are built, re-configured and queried in varying order, every key again after all others were built and queried, and the tonal patterns run over PSequence-s of those keys under melodies with rests; every result is judged against the key's own semitones (step i against key i) and compared with the model evaluated on the definition the model derives from the session. Held objects (Tonal/Held.v: a store of Scale objects, the registry Scale.dict, Key objects referring to Scale objects; theorems C13_held_retune, C13_held_scale_object_retuned, C13_held_frame, C13_held_history_only, C13_held_nextn_current, C13_held_positions, C13_held_filter/snap/degree, C13_named_scale, C13_copies): further sessions keep Key objects and tonal-pattern objects alive and re-tune the keys IN PLACE (key.tonic =, key.scale =, scale.semitones = / re-ordered in place, scale.octave_size =) between the nextn() calls of the same pattern object and between queries that ask the same notes and degrees again; user scales with octave sizes 5..24 are reached through their registered NAME (Key(t, name), Key(note, name), Key('note name'), Key(t, Scale.byname(name)), an event's key string) and scales / keys are copied (Scale.copy(), copy.copy, copy.deepcopy, constructor); every answer is judged by the oracle against the key as it is at that moment. Same-named constructions: between name lookups the sessions construct scales / weighted scales / Scale.fromnotes under names that are registered already (user names and library names), unnamed WeightedScales (default name 'major') and copies of registered scales that are edited afterwards, then look the name up again (new keys by name, key strings that are re-read on every use): a registered name keeps denoting the scale first registered under it (C13_named_scale, C13_name_denotes_stable).",
 "note": "Trusted: Coq kernel + VM; gen_tables.py; the Python harness; that Python int //, % are floor division (Z.div/Z.modulo). Modelled not verified: nothing float; Key built from names uses Scale.byname/note_name_to_midi_note (covered by the correspondence only for built-in names). nearest_note is compared by distance and membership, so a different tie-break is not an alarm. Compared with the model only, not judged by the oracle: Key.semitones, the number of values a tonal pattern yields when one stream ends first. PSequence(keys, r) yielding keys*r is taken from its documentation. Object identity is modelled (which Scale object a key refers to), but in-place operations are generated only on Scale objects that are private to the session's keys (never on the library's global scales, on scales reachable by name, or list re-ordering on objects in a copy relation - Scale.copy() shares the semitone list with its original). Which of two scales registered under the same name Scale.byname returns is modelled (the first) but only probed with names that are unique in the session. Recorded finding (known_findings.d/C13.json): Scale.copy() drops the octave size.",
}
HEADER = """From Isobar Require Import Base.Prelude Tonal.Key Tonal.Progression Generated.Tables.
From Coq Require Import String.
Definition degs := zrange (-64) 129.
Definition notes := zrange 0 128.
Definition builtin (name : string) (t : Z) : key :=
  match find (fun ns => String.eqb (fst ns) name) builtin_scales with
  | Some (_, s) => mkKey t s | None => mkKey t (mkScale [] 0) end.
Definition near_ok (k : key) (xs rs : list Z) : bool :=
  list_eqb (fun x r => key_contains k r && (Z.abs (r - x) =? Z.abs (nearest_note k x - x))) xs rs.
Definition filt (k : key) (x : option Z) : option Z :=
  match x with None => None | Some v => if key_contains k v then Some v else None end.
Definition snap_ok (k : key) (xs rs : list (option Z)) : bool :=
  list_eqb (fun x r => match x, r with None, None => true
     | Some x, Some r => key_contains k r && (Z.abs (r - x) =? Z.abs (nearest_note k x - x))
     | _, _ => false end) xs rs.
Definition oz := option_eqb Z.eqb.
Fixpoint rep {A} (n : nat) (l : list A) : list A := match n with O => [] | S m => l ++ rep m l end.
Definition untonic (k : key) : key := mkKey 0 (kscale k).
Definition snap_prog_ok (n : nat) (mel : list (option Z)) (ks : ksrc) (rs : list (option Z)) : bool :=
  Nat.eqb (List.length rs) (List.length (tonal_nextn snap_step n (mkT mel ks))) &&
  forallb (fun i => match nth_error rs i, nth_error mel i, ksrc_nth ks i with
     | Some None, Some None, Some _ => true
     | Some (Some r), Some (Some x), Some k => key_contains k r && (Z.abs (r - x) =? Z.abs (nearest_note k x - x))
     | _, _, _ => false end) (seq 0 (List.length rs)).
"""


def all_ints(l):
    return isinstance(l, list) and all(type(x) is int for x in l)


def opt_ints(l):
    return isinstance(l, list) and all(x is None or type(x) is int for x in l)


def olist(l):
    return lst([optlit(x, zlit) for x in l])


# ---- independent oracle ---------------------------------------------------------------------------
def oracle_key(kd, degrees, notes, r):
    """returns list of (kind, input, detail) failures of the property on implementation results"""
    semis, o, t = kd["semis"], kd["osize"], kd["tonic"]
    n = len(semis)
    pcs = {(s + t) % o for s in semis}
    inkey = lambda x: (x % o) in pcs
    bad = []
    prev = None
    for d, g in zip(degrees, r["get"]):
        want = t + semis[d % n] + o * (d // n)
        if g != want:
            bad.append(("degree-formula", d, "Key.get(%d) = %r, formula gives %d" % (d, g, want)))
        elif not inkey(g):
            bad.append(("degree-not-in-key", d, "Key.get(%d) = %r is not in the key" % (d, g)))
    gs = [(d, g) for d, g in zip(degrees, r["get"]) if type(g) is int]
    for (d1, g1), (d2, g2) in zip(gs, gs[1:]):
        if d1 < d2 and not g1 < g2:
            bad.append(("degree-not-increasing", d2, "Key.get(%d)=%d >= Key.get(%d)=%d" % (d1, g1, d2, g2)))
    for x, c in zip(notes, r["contains"]):
        if c is not inkey(x):
            bad.append(("membership", x, "(%d in key) = %r, pitch-class set says %r" % (x, c, inkey(x))))
    for x, y in zip(notes, r["nearest"]):
        if type(y) is not int:
            bad.append(("nearest-raises", x, "nearest_note(%d) = %r" % (x, y))); continue
        if not inkey(y):
            bad.append(("nearest-not-in-key", x, "nearest_note(%d) = %d is not in the key" % (x, y))); continue
        if inkey(x) and y != x:
            bad.append(("nearest-moves-in-key-note", x, "nearest_note(%d) = %d" % (x, y))); continue
        dist = abs(y - x)
        closer = [z for z in range(x - dist + 1, x + dist) if inkey(z)]
        if closer:
            bad.append(("nearest-not-nearest", x, "nearest_note(%d) = %d but %d is in key and closer" % (x, y, closer[0])))
    if r["rest"] != [None, True, None]:
        bad.append(("rest", None, "get(None), (None in key), nearest_note(None) = %r" % (r["rest"],)))
    mel = r["melody"]
    if isinstance(r["pfilter"], list):
        for x, y in zip(mel, r["pfilter"]):
            if y is not None and (y != x or not inkey(y)):
                bad.append(("filter-lets-through", x, "PFilterByKey passed %r for input %r" % (y, x)))
            if y is None and x is not None and inkey(x):
                bad.append(("filter-drops-in-key", x, "PFilterByKey dropped in-key note %r" % (x,)))
    if isinstance(r["psnap"], list):
        for x, y in zip(mel, r["psnap"]):
            if x is not None and (type(y) is not int or not inkey(y)):
                bad.append(("snap-out-of-key", x, "PNearestNoteInKey gave %r for %r" % (y, x)))
    return bad


def key_term(kd):
    if kd.get("name") is not None:
        return "(builtin %s %s)" % (slit(kd["name"]), zlit(kd["tonic"]))
    return "(mkKey %s (mkScale %s %s))" % (zlit(kd["tonic"]), zlist(kd["semis"]), zlit(kd["osize"]))


def snippet(kd, call):
    if kd.get("name") is not None:
        k = "iso.Key(%d, iso.Scale.byname(%r))" % (kd["tonic"], kd["name"])
    else:
        k = "iso.Key(%d, iso.Scale(%r, 'user', octave_size=%d))" % (kd["tonic"], kd["semis"], kd["osize"])
    return "import isobar as iso; k = %s; print(%s)" % (k, call)


def run_keys(run, keys, exhaustive_domain):
    """keys: list of key dicts with degrees/notes.  Returns nothing; records violations."""
    shards = [keys[i::12] for i in range(12) if keys[i::12]]
    outs = run.impl_parallel("c13_impl", [{"keys": sh} for sh in shards])
    results = {}
    for sh, out in zip(shards, outs):
        for kd, r in zip(sh, out["keys"]):
            results[id(kd)] = r
    terms, meta = [], []
    for kd in keys:
        r = results[id(kd)]
        degrees, notes = kd["degrees"], kd["notes"]
        k = key_term(kd)
        dl = "degs" if exhaustive_domain else zlist(degrees)
        nl = "notes" if exhaustive_domain else zlist(notes)
        case_id = "%s t=%d" % (kd.get("name") or (kd["semis"], kd["osize"]), kd["tonic"])
        run.count(len(degrees) + 3 * len(notes) + 3)
        # oracle first: a concrete failing input is the best replay
        bad = oracle_key(kd, degrees, notes, r)
        run.cov["oracle_evaluations"] += len(degrees) + 2 * len(notes)
        seen_kinds = set()
        for kind, x, detail in bad:
            if kind in seen_kinds:
                continue
            seen_kinds.add(kind)
            run.violation({"kind": kind, "site": "Key"}, {
                "case": {"key": kd.get("name") or {"semis": kd["semis"], "osize": kd["osize"]}, "tonic": kd["tonic"], "input": x},
                "observed": detail, "oracle": "pitch-class-set oracle",
                "python": snippet(kd, "k.nearest_note(%r), k.get(%r) if %r is not None else None, (%r in k)" % (x, x, x, x)),
                "all_failures_of_this_kind": sum(1 for b in bad if b[0] == kind)})
        # correspondence terms
        def add(fn, term, ok_shape):
            if ok_shape:
                terms.append(term)
            else:
                terms.append("false")
            meta.append((kd, fn, case_id))
        add("get", "list_eqb Z.eqb (map (key_get %s) %s) %s" % (k, dl, zlist(r["get"]) if all_ints(r["get"]) else "[]"), all_ints(r["get"]))
        cont_ok = isinstance(r["contains"], list) and all(type(c) is bool for c in r["contains"])
        add("contains", "list_eqb Bool.eqb (map (key_contains %s) %s) %s" % (k, nl, lst([blit(c) for c in r["contains"]]) if cont_ok else "[]"), cont_ok)
        add("nearest", "near_ok %s %s %s" % (k, nl, zlist(r["nearest"]) if all_ints(r["nearest"]) else "[]"), all_ints(r["nearest"]))
        mel = r["melody"]
        add("PFilterByKey", "list_eqb oz (map (filt %s) %s) %s" % (k, olist(mel), olist(r["pfilter"]) if opt_ints(r["pfilter"]) else "[]"), opt_ints(r["pfilter"]))
        add("PNearestNoteInKey", "snap_ok %s %s %s" % (k, olist(mel), olist(r["psnap"]) if opt_ints(r["psnap"]) else "[]"), opt_ints(r["psnap"]))
        add("PDegree", "list_eqb oz (map (key_get_opt %s) %s) %s" % (k, olist(r["degmel"]), olist(r["pdegree"]) if opt_ints(r["pdegree"]) else "[]"), opt_ints(r["pdegree"]))
        if not all(kd["semis"][i] < kd["semis"][i + 1] for i in range(len(kd["semis"]) - 1)):
            pass
        run.nontrivial(case_id)
        run.dist("keys.%s" % ("builtin" if kd.get("name") else "user"))
        run.sample({"key": case_id, "get(-3..3)": r["get"][61:68] if exhaustive_domain else r["get"][:6],
                    "nearest(0..11)": r["nearest"][:12]}, limit=3)
    failing = run.coq_failing(HEADER, terms, chunk=120)
    run.cov["traces_validated_against_impl"] += len(terms) - len(failing)
    for i in failing:
        kd, fn, case_id = meta[i]
        r = results[id(kd)]
        # the oracle has already judged this key: if it found nothing, no failing input is known
        bad = oracle_key(kd, kd["degrees"], kd["notes"], r)
        found = bool(bad)
        if found:
            continue   # already reported with the concrete input above
        run.violation({"kind": "correspondence", "site": fn}, {
            "broken": "correspondence model/implementation on %s (theorems of Props/C13.v no longer speak about this code)" % fn,
            "case": {"key": case_id, "function": fn},
            "observed": {"get": r["get"][:20], "contains": r["contains"][:20], "nearest": r["nearest"][:20],
                         "pfilter": r["pfilter"], "psnap": r["psnap"], "pdegree": r["pdegree"]},
            "coq_term": terms[i][:2000]}, found_input=False)


# ---- sessions: several keys in one process; key progressions; held objects re-tuned in place ----------
# One session = one interpreter.  Scales and keys are built in varying order - unnamed (every Scale([...])
# without a name is called "unnamed scale"), under a shared user name, under the name of a built-in scale,
# built-in ones - on few tonics and octave sizes, so that many keys of a session agree in everything a
# lazy cache might be keyed by (name, tonic, octave size, scale object) and differ in their semitones.
# Every key is queried after others were built and queried; keys and Scale OBJECTS are re-tuned in place
# (key.tonic = / key.scale = / scale.semitones = / the list re-ordered in place / scale.octave_size =)
# between queries and between the nextn() calls of pattern objects that live on; user scales are reached
# through the NAME they are registered under (Key(t, name), Key("D name"), Scale.byname, an event's key
# string); scales and keys are copied.  The tonal patterns are run with a constant key and with a PSequence
# of keys (a progression) under melodies with rests: output i is judged against key i AS IT IS when step i runs.
PATTERN_FNS = ("pfilter", "psnap", "pdegree", "chain")
PATTERN_SITE = {"pfilter": "PFilterByKey", "psnap": "PNearestNoteInKey", "pdegree": "PDegree",
                "chain": "PNearestNoteInKey(PFilterByKey)"}
TFN = {"pfilter": "FFilter", "psnap": "FSnap", "pdegree": "FDegree"}
NOTE_NAMES = ["C", "C#", "D", "Eb", "E", "F", "F#", "G", "Ab", "A", "Bb", "B"]
CONFIG_OPS = ("scale", "scalecopy", "key", "keynamed", "keycopy", "retune", "rescale", "setsemis", "setosize")
SESSION_HEADER = """From Isobar Require Import Tonal.Held.
Fixpoint snap_obs_ok (obs : list hstep_obs) (rs : list (option Z)) : bool :=
  match obs, rs with
  | [], [] => true
  | (k, x, _) :: obs', r :: rs' =>
      match x, r with
      | None, None => true
      | Some x, Some r => key_contains k r && (Z.abs (r - x) =? Z.abs (nearest_note k x - x))
      | _, _ => false
      end && snap_obs_ok obs' rs'
  | _, _ => false
  end.
Definition M := XMut.
"""


def rand_scale(rng, o):
    n = rng.randint(1, min(12, o))
    return sorted(rng.sample(range(o), n))


def rand_melody(rng, pool, length):
    """notes (or degrees) with rests: leading / trailing / consecutive rests all occur"""
    density = rng.choice([0.1, 0.25, 0.5])
    mel = [None if rng.random() < density else rng.choice(pool) for _ in range(length)]
    if rng.random() < 0.3:
        mel[0] = None
    if rng.random() < 0.3:
        i = rng.randrange(length - 1)
        mel[i] = mel[i + 1] = None
    if all(x is None for x in mel):
        mel[-1] = rng.choice(pool)
    if all(x is not None for x in mel):
        mel[rng.randrange(length)] = None
    return mel


def gen_session(rng, info):
    builtin = [b for b in info["scales"] if b[2] == 12]
    o_main = 12 if rng.random() < 0.7 else rng.randint(5, 24)
    osizes = [o_main] if rng.random() < 0.75 else [o_main, rng.randint(5, 24)]
    tonics = rng.sample(range(-14, 26), rng.randint(1, 3))
    shared_name = rng.choice(["verif-A", "user", "unnamed scale", rng.choice(builtin)[0]])
    base = rng.randint(-30, 110)
    notes = list(range(base, base + o_main)) + [rng.randint(-200, 300) for _ in range(6)]
    rng.shuffle(notes)
    degrees = sorted(rng.sample(range(-30, 31), 14))
    ops, slots, sids = [], [], []

    def new_scale():
        sid = len(sids)
        o = rng.choice(osizes)
        u = rng.random()
        if u < 0.12 and o == 12:
            b = rng.choice(builtin)
            ops.append({"op": "scale", "id": sid, "how": "builtin", "name": b[0], "semis": b[1], "osize": 12})
        elif u < 0.62:
            ops.append({"op": "scale", "id": sid, "how": "unnamed", "semis": rand_scale(rng, o), "osize": o})
        else:
            ops.append({"op": "scale", "id": sid, "how": "named", "name": shared_name, "semis": rand_scale(rng, o), "osize": o})
        sids.append(sid)
        return sid

    def key_src(as_scale=False):
        if rng.random() < 0.25:
            spec = {"const": rng.choice(slots)}
            avail = None
        else:
            seq = [rng.choice(slots) for _ in range(rng.randint(2, 4))]
            spec = {"seq": seq, "repeats": 1}
            avail = len(seq)
        if as_scale:
            spec["as_scale"] = True
        return spec, avail

    def pattern_query():
        fn = rng.choice(PATTERN_FNS)
        length = rng.randint(6, 16)
        mel = rand_melody(rng, degrees if fn == "pdegree" else notes, length)
        spec, avail = key_src(as_scale=(fn == "pdegree" and rng.random() < 0.25))
        if avail is not None:
            u = rng.random()   # the progression outlasts the melody (mostly), ends with it, or ends first
            spec["repeats"] = (length // avail + 2) if u < 0.7 else max(1, -(-length // avail)) if u < 0.85 else max(1, length // avail - 1)
        n = length + 2 if rng.random() < 0.8 else rng.randint(1, length)
        op = {"op": "q", "fn": fn, "xs": mel, "keys": spec, "n": n}
        if fn == "chain":
            spec2, avail2 = key_src()
            if avail2 is not None:
                spec2["repeats"] = length // avail2 + 2
            op["keys2"] = spec2
        if rng.random() < 0.3 and n > 1:
            op["split"] = rng.randint(1, n - 1)
        ops.append(op)

    def direct_query(slot, fn=None):
        fn = fn or rng.choice(["contains", "contains", "nearest", "nearest", "get", "getitem", "semitones"])
        if fn == "semitones":
            ops.append({"op": "q", "slot": slot, "fn": fn})
        else:
            ops.append({"op": "q", "slot": slot, "fn": fn, "xs": degrees if fn in ("get", "getitem") else notes})

    nslots = rng.randint(4, 9)
    while len(slots) < nslots:
        for _ in range(rng.randint(1, 3)):
            sid = rng.choice(sids) if sids and rng.random() < 0.2 else new_scale()   # the same scale object twice
            slot = len(slots)
            ops.append({"op": "key", "slot": slot, "scale": sid, "tonic": rng.choice(tonics)})
            slots.append(slot)
        for _ in range(rng.randint(1, 3)):
            direct_query(rng.choice(slots))
        if rng.random() < 0.6:
            pattern_query()
        if rng.random() < 0.2:
            slot = rng.choice(slots)
            if rng.random() < 0.5:
                ops.append({"op": "retune", "slot": slot, "tonic": rng.choice(tonics + [rng.randint(-14, 26)])})
            else:
                ops.append({"op": "rescale", "slot": slot, "scale": rng.choice(sids) if rng.random() < 0.5 else new_scale()})
            direct_query(slot)
    order = list(slots)
    rng.shuffle(order)
    for slot in order:            # every key once more, after all the others were built and queried
        direct_query(slot, "contains")
        direct_query(slot, rng.choice(["nearest", "get"]))
    for _ in range(2):
        pattern_query()
    return {"ops": ops, "notes": notes, "degrees": degrees, "kind": "several-keys"}


def gen_held_session(rng, info, si):
    """objects that are HELD and re-tuned in place while in use; user scales reached through their names; copies.
    A few Key objects on private Scale objects (two keys may share one); pattern objects that live on and are asked for a
    few values at a time; between any two uses a key gets another tonic / another Scale object, or its Scale object gets
    other semitones (assigned, or the list re-ordered in place) or another octave size.  The same notes and degrees are
    asked again after every change (a value remembered from before the change would be the wrong answer now)."""
    builtin = [b for b in info["scales"] if b[2] == 12]
    o_main = 12 if rng.random() < 0.5 else rng.randint(5, 24)
    osizes = [o_main] if rng.random() < 0.6 else [o_main, rng.randint(5, 24)]
    tonics = rng.sample(range(0, 12), 3)
    base = rng.randint(0, 100)
    notes = list(range(base, base + max(osizes))) + [rng.randint(-60, 200) for _ in range(4)]
    rng.shuffle(notes)
    degrees = sorted(rng.sample(range(-20, 21), 10))
    ops, slots, sids, pids = [], [], [], []
    private, registered, frozen = [], [], set()       # scale ids: re-tunable in place / reachable by name / not to be re-ordered in place
    cur_scale, strings = {}, set()                     # slot -> scale id it refers to now; slots that hold a key STRING
    sem = {}                                            # scale id -> (semis, osize) as they are now

    def new_scale(kind=None, o=None):
        sid = len(sids)
        o = o or rng.choice(osizes)
        kind = kind or rng.choice(["unnamed", "unnamed", "registered"])
        semis = rand_scale(rng, o)
        if kind == "registered":
            ops.append({"op": "scale", "id": sid, "how": "registered", "name": "verifU%dx%d" % (si, sid), "semis": semis, "osize": o})
            registered.append(sid)
        else:
            ops.append({"op": "scale", "id": sid, "how": "unnamed", "semis": semis, "osize": o})
            private.append(sid)
        sem[sid] = (semis, o)
        sids.append(sid)
        return sid

    def new_key(sid=None):
        slot = len(slots)
        sid = sid if sid is not None else (rng.choice(private) if private and rng.random() < 0.3 else new_scale("unnamed"))
        ops.append({"op": "key", "slot": slot, "scale": sid, "tonic": rng.choice(tonics)})
        slots.append(slot)
        cur_scale[slot] = sid
        return slot

    def named_key():
        """a key whose scale is reached through its NAME"""
        slot = len(slots)
        if registered and rng.random() < 0.8:
            sid = rng.choice(registered)
            name = "verifU%dx%d" % (si, sid)
        else:
            b = rng.choice([x for x in builtin if " " not in x[0]])
            sid, name = None, b[0]
            sem[("name", name)] = (list(b[1]), b[2])
        how = rng.choice(["Key(t,name)", "Key(note,name)", "Key('note name')", "Key(t,byname)", "string"])
        ops.append({"op": "keynamed", "slot": slot, "name": name, "tonic": rng.choice(tonics), "how": how})
        slots.append(slot)
        names_in_use.append(name)
        cur_scale[slot] = ("name", name) if sid is None else sid
        if how == "string":
            strings.add(slot)
        return slot

    def copies():
        u = rng.random()
        if u < 0.55 and sids:
            src = rng.choice(sids)
            sid = len(sids)
            how = rng.choice(["copy()", "copy()", "copy.copy", "copy.deepcopy", "ctor"])
            ops.append({"op": "scalecopy", "id": sid, "src": src, "how": how})
            sids.append(sid)
            sem[sid] = sem[src]
            frozen.update([sid, src])
            new_key(sid)
        else:
            objs = [sl for sl in slots if sl not in strings]
            if not objs:
                return
            src = rng.choice(objs)
            slot = len(slots)
            how = rng.choice(["copy.copy", "copy.deepcopy", "ctor"])
            op = {"op": "keycopy", "slot": slot, "src": src, "how": how}
            if how == "copy.deepcopy":
                op["id"] = len(sids)
                sids.append(op["id"])
                cur_scale[slot] = op["id"]
                sem[op["id"]] = sem[cur_scale[src]]          # a deep copy: a Scale object of its own, whatever the original refers to
                private.append(op["id"])
            else:
                cur_scale[slot] = cur_scale[src]
            ops.append(op)
            slots.append(slot)
        query(slots[-1])

    def query(slot, fn=None):
        fns = ["contains", "nearest", "get", "getitem", "event", "scaleget"]
        fn = fn or rng.choice(fns)
        if slot in strings and fn == "semitones":
            fn = "get"
        if fn == "semitones":
            ops.append({"op": "q", "slot": slot, "fn": fn})
        else:
            ops.append({"op": "q", "slot": slot, "fn": fn, "xs": degrees if fn in ("get", "getitem", "event", "scaleget") else notes})

    names_in_use = []                                   # scale names that keys of this session were built from

    def same_name():
        """an unrelated construction under a name that is registered already: a scale / weighted scale / fromnotes called like a
        scale in use (user or library), an unnamed WeightedScale (its default name is "major"), or a copy of a registered scale
        that is edited afterwards - then the name is looked up again"""
        u = rng.random()
        target = rng.choice(names_in_use) if names_in_use and rng.random() < 0.8 else rng.choice([x for x in builtin if " " not in x[0]])[0]
        sid = len(sids)
        if u < 0.4:
            o = rng.choice(osizes + [12])
            semis = rand_scale(rng, o)
            ops.append({"op": "scale", "id": sid, "how": rng.choice(["named", "named", "weighted", "fromnotes"]), "name": target, "semis": semis, "osize": o})
            sem[sid] = (semis, o)
            sids.append(sid)
            private.append(sid)
            if rng.random() < 0.5:
                new_key(sid)
        elif u < 0.6:
            semis = rand_scale(rng, 12)
            ops.append({"op": "scale", "id": sid, "how": "weighted-unnamed", "semis": semis, "osize": 12})
            sem[sid] = (semis, 12)
            sids.append(sid)
            private.append(sid)
            target = "major"
        else:
            src = [x for x in registered if "verifU%dx%d" % (si, x) == target]
            if not src:
                return
            how = rng.choice(["copy()", "copy()", "copy.copy", "copy.deepcopy"])
            ops.append({"op": "scalecopy", "id": sid, "src": src[0], "how": how})
            sids.append(sid)
            sem[sid] = sem[src[0]]
            frozen.update([sid, src[0]])
            if rng.random() < 0.8:                      # the copy is edited: `c = s.copy(); c.semitones = [...]`
                new = rand_scale(rng, sem[sid][1])
                ops.append({"op": "setsemis", "scale": sid, "semis": new, "how": "assign"})
                sem[sid] = (new, sem[sid][1])
            new_key(sid)
        # the name is looked up again: a new key by that name, and the string slots (which build Key(string) on every use)
        if target in [b[0] for b in builtin] or any("verifU%dx%d" % (si, x) == target for x in registered):
            slot = len(slots)
            how = rng.choice(["Key(t,name)", "Key(note,name)", "Key('note name')", "Key(t,byname)", "string"])
            ops.append({"op": "keynamed", "slot": slot, "name": target, "tonic": rng.choice(tonics), "how": how})
            slots.append(slot)
            rs = [x for x in registered if "verifU%dx%d" % (si, x) == target]
            cur_scale[slot] = rs[0] if rs else ("name", target)
            if not rs:
                b = [x for x in builtin if x[0] == target][0]
                sem[("name", target)] = (list(b[1]), b[2])
            if how == "string":
                strings.add(slot)
            query(slot, rng.choice(["get", "contains", "event", "nearest"]))
        for sl in list(strings)[:2]:
            query(sl, rng.choice(["get", "event", "contains"]))

    def retunable():
        return [sl for sl in slots if sl not in strings]

    def retune():
        """one in-place re-configuration of a held object; returns the slots whose definition changed"""
        objs = retunable()
        slot = rng.choice(objs)
        u = rng.random()
        sid = cur_scale[slot]
        tunable = isinstance(sid, int) and sid in private
        if u < 0.35 or (u >= 0.6 and not tunable):
            ops.append({"op": "retune", "slot": slot, "tonic": rng.choice([t for t in range(0, 12) if True])})
            return [slot]
        if u < 0.6:
            new = rng.choice(private) if private and rng.random() < 0.4 else new_scale("unnamed")
            ops.append({"op": "rescale", "slot": slot, "scale": new})
            cur_scale[slot] = new
            return [slot]
        semis, o = sem[sid]
        if u < 0.95:
            v = rng.random()
            op = {"op": "setsemis", "scale": sid}
            if rng.random() < 0.5:
                op["through"] = slot                       # key.scale.semitones = ...
            if v < 0.45 or len(semis) < 2 or sid in frozen:
                op["how"] = "assign"
                new = rand_scale(rng, o)
            elif v < 0.7:
                op["how"] = "inplace"
                new = rand_scale(rng, o)
            else:
                i, j = rng.sample(range(len(semis)), 2)
                op["how"], op["swap"] = "swap", [i, j]
                new = list(semis)
                new[i], new[j] = new[j], new[i]
            op["semis"] = new
            sem[sid] = (new, o)
            ops.append(op)
        else:
            new_o = rng.randint(max(semis) + 1, max(semis) + 8)
            ops.append({"op": "setosize", "scale": sid, "osize": new_o})
            sem[sid] = (semis, new_o)
        return [sl for sl in slots if cur_scale.get(sl) == sid]

    def open_pattern():
        pid = len(pids)
        fn = rng.choice(["pfilter", "pfilter", "psnap", "pdegree"])
        length = rng.randint(8, 18)
        pool = degrees if fn == "pdegree" else notes
        mel = rand_melody(rng, pool[:6], length)           # few distinct notes: every one recurs after a re-tuning
        as_scale = fn == "pdegree" and rng.random() < 0.3
        if rng.random() < 0.6:
            spec = {"const": rng.choice(slots)}
        else:
            seq = [rng.choice(slots) for _ in range(rng.randint(2, 3))]     # the same object several times per round
            spec = {"seq": seq, "repeats": length // len(seq) + 1 if rng.random() < 0.85 else max(1, length // len(seq) - 1)}
        if as_scale:
            spec["as_scale"] = True
        ops.append({"op": "popen", "pid": pid, "fn": fn, "xs": mel, "keys": spec})
        pids.append(pid)
        return pid

    # --- the cast
    for _ in range(rng.randint(1, 2)):
        new_scale("registered", rng.choice([o for o in osizes if o != 12] or [rng.randint(5, 24)]) if rng.random() < 0.8 else None)
    for _ in range(rng.randint(2, 3)):
        new_key()
    for _ in range(rng.randint(1, 3)):
        query(named_key())
    for sl in list(slots):
        query(sl, rng.choice(["get", "contains"]))
    if rng.random() < 0.7:
        copies()
    for _ in range(rng.randint(1, 3)):
        open_pattern()
    # --- use, re-tune, use again
    for _round in range(rng.randint(3, 6)):
        for pid in pids:
            if rng.random() < 0.8:
                ops.append({"op": "pnext", "pid": pid, "n": rng.randint(1, 4)})
        changed = retune()
        for sl in changed[:2]:
            query(sl, rng.choice(["get", "contains", "nearest", "getitem", "event"]))      # the notes / degrees asked before
        if rng.random() < 0.3:
            query(rng.choice(slots))
        if rng.random() < 0.2:
            copies()
        if rng.random() < 0.15:
            query(named_key())
        if rng.random() < 0.4:
            same_name()
        if rng.random() < 0.15 and len(pids) < 4:
            open_pattern()
    for pid in pids:
        ops.append({"op": "pnext", "pid": pid, "n": rng.randint(2, 20)})
    for sl in slots:
        query(sl, rng.choice(["get", "contains", "nearest"]))
    return {"ops": ops, "notes": notes, "degrees": degrees, "kind": "held-objects"}


class SessionState:
    """what the harness knows about a session while walking its operations (independent of the model): which Scale
    object every Key object refers to now, what every object holds now, where every live pattern stands"""
    def __init__(self, builtin=()):
        self.builtin = {b[0]: (i, b[1], b[2]) for i, b in enumerate(builtin)}     # name -> (object number, semis, osize)
        self.scales, self.keys, self.pats, self.coq_ops = {}, {}, {}, []
        self.names = {}

    def oid(self, sid):
        sc = self.scales[sid]
        return sc["oid"]

    def named(self, name):
        """the scale id registered under a name (user names generated by the harness are unique; library names)"""
        if name in self.names:
            return self.names[name]
        i, semis, osize = self.builtin[name]
        sid = "lib:" + name
        self.scales.setdefault(sid, {"semis": semis, "osize": osize, "name": name, "how": "builtin", "oid": i, "copy_lost_octave": False})
        return sid

    def apply(self, op):
        k = op["op"]
        X = self.coq_ops.append
        if k == "scale":
            how = op["how"]
            oid = self.builtin[op["name"]][0] if how == "builtin" else 100 + op["id"]
            self.scales[op["id"]] = {"semis": list(op["semis"]), "osize": op["osize"], "name": op.get("name"), "how": how,
                                     "oid": oid, "copy_lost_octave": False}
            if how == "registered":
                self.names[op["name"]] = op["id"]
            if how != "builtin":
                regname = "major" if how == "weighted-unnamed" else (op.get("name") or "unnamed scale")
                X("M (HScale %d %s (mkScale %s %s))" % (oid, slit(regname), zlist(op["semis"]), zlit(op["osize"])))
        elif k == "scalecopy":
            src = self.scales[op["src"]]
            self.scales[op["id"]] = dict(src, semis=list(src["semis"]), how="copy:" + op["how"], oid=100 + op["id"],
                                         copy_lost_octave=src["copy_lost_octave"] or (op["how"] == "copy()" and src["osize"] != 12))
            X("M (HScaleCopy %d %d)" % (100 + op["id"], src["oid"]))
        elif k == "key":
            self.keys[op["slot"]] = {"tonic": op["tonic"], "sid": op["scale"]}
            X("M (HKey %d %s %d)" % (op["slot"], zlit(op["tonic"]), self.oid(op["scale"])))
        elif k == "keynamed":
            self.keys[op["slot"]] = {"tonic": op["tonic"], "sid": self.named(op["name"]), "string": op["how"] == "string"}
            X("M (HKeyNamed %d %s %s)" % (op["slot"], zlit(op["tonic"]), slit(op["name"])))
        elif k == "keycopy":
            src = self.keys[op["src"]]
            if op["how"] == "copy.deepcopy":
                sc = self.scales[src["sid"]]
                self.scales[op["id"]] = dict(sc, semis=list(sc["semis"]), how="deepcopy", oid=100 + op["id"])
                self.keys[op["slot"]] = {"tonic": src["tonic"], "sid": op["id"]}
                X("M (HKeyDeep %d %d %d)" % (op["slot"], op["src"], 100 + op["id"]))
            else:
                self.keys[op["slot"]] = {"tonic": src["tonic"], "sid": src["sid"]}
                X("M (HKeyCopy %d %d)" % (op["slot"], op["src"]))
        elif k == "retune":
            self.keys[op["slot"]] = dict(self.keys[op["slot"]], tonic=op["tonic"])
            X("M (HTonic %d %s)" % (op["slot"], zlit(op["tonic"])))
        elif k == "rescale":
            self.keys[op["slot"]] = dict(self.keys[op["slot"]], sid=op["scale"])
            X("M (HRescale %d %d)" % (op["slot"], self.oid(op["scale"])))
        elif k == "setsemis":
            self.scales[op["scale"]]["semis"] = list(op["semis"])
            X("M (HSemis %d %s)" % (self.oid(op["scale"]), zlist(op["semis"])))
        elif k == "setosize":
            self.scales[op["scale"]]["osize"] = op["osize"]
            X("M (HOsize %d %s)" % (self.oid(op["scale"]), zlit(op["osize"])))
        elif k == "popen":
            spec = op["keys"]
            ref = (lambda sl: ("scale", self.keys[sl]["sid"])) if spec.get("as_scale") else (lambda sl: ("key", sl))
            refs = None if "const" in spec else [ref(sl) for sl in spec["seq"]] * spec["repeats"]
            self.pats[op["pid"]] = {"fn": op["fn"], "xs": op["xs"], "const": ref(spec["const"]) if "const" in spec else None,
                                    "refs": refs, "pos": 0}
            cref = lambda r: "OScale %d" % self.oid(r[1]) if r[0] == "scale" else "OKey %d" % r[1]
            kr = "(RConst (%s))" % cref(ref(spec["const"])) if "const" in spec else "(RSeq %s)" % lst([cref(r) for r in refs])
            X("XOpen %d (mkHP %s %s %s)" % (op["pid"], TFN[op["fn"]], olist(op["xs"]), kr))
        elif k == "pnext":
            X("XNext %d %d" % (op["pid"], op["n"]))

    def advance(self, op, r):
        if op["op"] == "pnext" and isinstance(r, list):
            self.pats[op["pid"]]["pos"] += len(r)

    def ref_def(self, ref):
        if ref[0] == "scale":
            sc = self.scales[ref[1]]
            return {"semis": sc["semis"], "osize": sc["osize"], "tonic": 0, "judged": True, "copy_lost_octave": sc["copy_lost_octave"]}
        return self.kdef(ref[1])

    def kdef(self, slot):
        """the definition the key in `slot` has NOW"""
        k = self.keys[slot]
        sc = self.scales[k["sid"]]
        return {"semis": sc["semis"], "osize": sc["osize"], "tonic": k["tonic"], "judged": True,
                "copy_lost_octave": sc["copy_lost_octave"]}

    def key_at(self, spec, i):
        """definition of the key in force at step i of a pattern query (None: the key pattern has ended)"""
        if "const" in spec:
            d = self.kdef(spec["const"])
        else:
            seq = spec["seq"]
            if i >= len(seq) * spec["repeats"]:
                return None
            d = self.kdef(seq[i % len(seq)])
        return dict(d, tonic=0) if spec.get("as_scale") else d


def inkey_fn(d):
    o = d["osize"]
    pcs = {(s + d["tonic"]) % o for s in d["semis"]}
    return lambda x: (x % o) in pcs


def judge_nearest(inkey, x, y, who):
    if type(y) is not int:
        return ("nearest-raises", x, "%s(%r) = %r" % (who, x, y))
    if not inkey(y):
        return ("nearest-not-in-key", x, "%s(%d) = %d is not in the key" % (who, x, y))
    if inkey(x) and y != x:
        return ("nearest-moves-in-key-note", x, "%s(%d) = %d" % (who, x, y))
    dist = abs(y - x)
    closer = [z for z in range(x - dist + 1, x + dist) if inkey(z)]
    if closer:
        return ("nearest-not-nearest", x, "%s(%d) = %d but %d is in key and closer" % (who, x, y, closer[0]))
    return None


def judge_step(fn, kd, i, x, y):
    """one step of PFilterByKey / PNearestNoteInKey / PDegree against the definition kd the key has at that step"""
    inkey = inkey_fn(kd)
    if fn == "pfilter":
        if y is not None and (y != x or not inkey(y)):
            return [("filter-lets-through", (i, x), "step %d: PFilterByKey passed %r for input %r, key of that step %r" % (i, y, x, kd))]
        if y is None and x is not None and inkey(x):
            return [("filter-drops-in-key", (i, x), "step %d: PFilterByKey dropped %r, which is in the key of that step %r" % (i, x, kd))]
    elif fn == "psnap":
        if x is None:
            if y is not None:
                return [("rest", (i, x), "step %d: PNearestNoteInKey turned a rest into %r" % (i, y))]
        else:
            e = judge_nearest(inkey, x, y, "step %d: PNearestNoteInKey" % i)
            if e:
                return [("snap-" + e[0].replace("nearest-", ""), (i, x), e[2] + ", key of that step %r" % (kd,))]
    elif fn == "pdegree":
        if x is None:
            if y is not None:
                return [("rest", (i, x), "step %d: PDegree turned a rest into %r" % (i, y))]
        else:
            n = len(kd["semis"])
            want = kd["tonic"] + kd["semis"][x % n] + kd["osize"] * (x // n)
            if y != want:
                return [("degree-formula", (i, x), "step %d: PDegree(%d) = %r, formula gives %d for the key of that step %r" % (i, x, y, want, kd))]
    return []


def oracle_query(st, op, r, lost=None):
    """independent judgement of one query (or one nextn call of a live pattern) of a session: list of (kind, input, detail).
    Every key is judged by what it is NOW: its present tonic and the present semitones / octave size of the Scale object
    it presently refers to.  `lost`: treat copies made by Scale.copy() as if they had octave size 12 (used only to tell
    whether a failure is the recorded finding about Scale.copy)."""
    def fix(kd):
        if lost and kd is not None and kd.get("copy_lost_octave"):
            return dict(kd, osize=12)
        return kd
    bad = []
    if op["op"] == "pnext":
        if not opt_ints(r):
            return bad
        pt = st.pats[op["pid"]]
        for i, y in enumerate(r):
            g = pt["pos"] + i
            if g >= len(pt["xs"]) or (pt["refs"] is not None and g >= len(pt["refs"])):
                break
            kd = fix(st.ref_def(pt["const"] if pt["refs"] is None else pt["refs"][g]))
            bad += judge_step(pt["fn"], kd, g, pt["xs"][g], y)
        return bad
    fn = op["fn"]
    if fn in PATTERN_FNS:
        if not opt_ints(r):
            return bad
        mel = op["xs"]
        for i, y in enumerate(r):
            if i >= len(mel):
                break
            x = mel[i]
            if fn == "chain":
                ka, kb = fix(st.key_at(op["keys"], i)), fix(st.key_at(op["keys2"], i))
                if ka is None or kb is None or not (ka["judged"] and kb["judged"]):
                    continue
                ina, inb = inkey_fn(ka), inkey_fn(kb)
                if x is None or not ina(x):
                    if y is not None:
                        bad.append(("filter-lets-through", (i, x), "step %d: %r is not in key %d of the inner PFilterByKey, yet the chain gave %r" % (i, x, i, y)))
                elif y is None:
                    bad.append(("filter-drops-in-key", (i, x), "step %d: %r is in key %d of the inner PFilterByKey, yet the chain gave a rest" % (i, x, i)))
                else:
                    e = judge_nearest(inb, x, y, "step %d: PNearestNoteInKey" % i)
                    if e:
                        bad.append(("snap-" + e[0].replace("nearest-", ""), (i, x), e[2]))
                continue
            kd = fix(st.key_at(op["keys"], i))
            if kd is None or not kd["judged"]:
                continue
            bad += judge_step(fn, kd, i, x, y)
        return bad
    kd = fix(st.kdef(op["slot"]))
    if not kd["judged"] or not isinstance(r, list):
        return bad
    if fn == "scaleget":
        kd = dict(kd, tonic=0)
    inkey = inkey_fn(kd)
    xs = op.get("xs", [])
    if fn in ("get", "getitem", "event", "scaleget"):
        who = {"get": "Key.get", "getitem": "Key.__getitem__", "event": "Event(degree, key).note", "scaleget": "Scale.get"}[fn]
        n = len(kd["semis"])
        for d, g in zip(xs, r):
            want = kd["tonic"] + kd["semis"][d % n] + kd["osize"] * (d // n)
            if g != want:
                bad.append(("degree-formula", d, "%s(%d) = %r, formula gives %d for the key as it is now %r" % (who, d, g, want, kd)))
            elif not inkey(g):
                bad.append(("degree-not-in-key", d, "%s(%d) = %r is not in the key" % (who, d, g)))
        if all(a < b for a, b in zip(kd["semis"], kd["semis"][1:])) and 0 <= kd["semis"][0] and kd["semis"][-1] < kd["osize"]:
            # an ascending scale inside one octave (not one shuffled in place)
            gs = [(d, g) for d, g in zip(xs, r) if type(g) is int]
            for (d1, g1), (d2, g2) in zip(gs, gs[1:]):
                if d1 < d2 and not g1 < g2:
                    bad.append(("degree-not-increasing", d2, "%s(%d)=%d >= %s(%d)=%d" % (who, d1, g1, who, d2, g2)))
    elif fn == "contains":
        for x, c in zip(xs, r):
            if c is not inkey(x):
                bad.append(("membership", x, "(%d in key) = %r, pitch-class set of the key as it is now %r says %r" % (x, c, kd, inkey(x))))
    elif fn == "nearest":
        for x, y in zip(xs, r):
            e = judge_nearest(inkey, x, y, "nearest_note")
            if e:
                bad.append(e)
    return bad


def ksrc_term(spec, sname, j):
    wrap = (lambda t: "(untonic %s)" % t) if spec.get("as_scale") else (lambda t: t)
    if "const" in spec:
        return "(KConst %s)" % wrap("(xkey %s %d %d)" % (sname, j, spec["const"]))
    return "(KSeq (rep %d %s))" % (spec["repeats"], lst([wrap("(xkey %s %d %d)" % (sname, j, sl)) for sl in spec["seq"]]))


def query_term(op, r, sname, j):
    """Coq boolean: the model, on the definition the key(s) have after the first j operations of the session (Tonal/Held.v:
    the store of Key and Scale objects the MODEL derives from the session's operations), agrees with what the implementation
    returned (None: the result has not even the right shape).  For a nextn call of a live pattern j is the number of that
    operation and the model's pattern object stands where the model's earlier calls left it."""
    if op["op"] == "pnext":
        if not opt_ints(r):
            return None
        if op["_fn"] == "psnap":
            return "snap_obs_ok (xout %s %d) %s" % (sname, j, olist(r))
        return "list_eqb oz (map obs_out (xout %s %d)) %s" % (sname, j, olist(r))
    fn = op["fn"]
    if fn in PATTERN_FNS:
        if not opt_ints(r):
            return None
        mel, ks = olist(op["xs"]), ksrc_term(op["keys"], sname, j)
        if fn == "pfilter":
            return "list_eqb oz (tonal_nextn filter_step %d (mkT %s %s)) %s" % (op["n"], mel, ks, olist(r))
        if fn == "pdegree":
            return "list_eqb oz (tonal_nextn degree_step %d (mkT %s %s)) %s" % (op["n"], mel, ks, olist(r))
        if fn == "psnap":
            return "snap_prog_ok %d %s %s %s" % (op["n"], mel, ks, olist(r))
        return "snap_prog_ok %d (tonal_nextn filter_step %d (mkT %s %s)) %s %s" % (
            op["n"], op["n"], mel, ks, ksrc_term(op["keys2"], sname, j), olist(r))
    k = "(xkey %s %d %d)" % (sname, j, op["slot"])
    if fn == "semitones":
        return "list_eqb Z.eqb (key_semitones %s) %s" % (k, zlist(r)) if all_ints(r) else None
    xs = zlist(op["xs"])
    if fn == "scaleget":
        k = "(untonic %s)" % k
    if fn in ("get", "getitem", "event", "scaleget"):
        return "list_eqb Z.eqb (map (key_get %s) %s) %s" % (k, xs, zlist(r)) if all_ints(r) else None
    if fn == "contains":
        ok = isinstance(r, list) and all(type(c) is bool for c in r)
        return "list_eqb Bool.eqb (map (key_contains %s) %s) %s" % (k, xs, lst([blit(c) for c in r])) if ok else None
    if fn == "nearest":
        return "near_ok %s %s %s" % (k, xs, zlist(r)) if all_ints(r) else None
    return None


def session_script(ops, upto):
    """a python script that replays the history of a session up to (and including) operation `upto`"""
    L = ["import copy, isobar as iso", "from isobar import Scale, Key, PSequence, PFilterByKey, PNearestNoteInKey, PDegree",
         "from isobar.timelines.event import Event, EventDefaults"]
    strings = set()

    def kx(sl):
        return "Key(k%d)" % sl if sl in strings else "k%d" % sl

    def src(spec):
        f = (lambda sl: "%s.scale" % kx(sl)) if spec.get("as_scale") else kx
        if "const" in spec:
            return f(spec["const"])
        return "PSequence([%s], %d)" % (", ".join(f(sl) for sl in spec["seq"]), spec["repeats"])
    for i, op in enumerate(ops[:upto + 1]):
        k = op["op"]
        mark = "   # <- the failing call" if i == upto else ""
        if k == "scale":
            if op["how"] == "builtin":
                L.append("s%d = Scale.byname(%r)" % (op["id"], op["name"]))
            elif op["how"] == "unnamed":
                L.append("s%d = Scale(%r%s)" % (op["id"], op["semis"], "" if op["osize"] == 12 else ", octave_size=%d" % op["osize"]))
            elif op["how"] == "weighted":
                L.append("s%d = iso.WeightedScale(%r, %r, %r, octave_size=%d)" % (op["id"], op["semis"], [1.0 / len(op["semis"])] * len(op["semis"]), op["name"], op["osize"]))
            elif op["how"] == "weighted-unnamed":
                L.append("s%d = iso.WeightedScale(%r, %r)   # its default name is 'major'" % (op["id"], op["semis"], [1.0 / len(op["semis"])] * len(op["semis"])))
            elif op["how"] == "fromnotes":
                L.append("s%d = Scale.fromnotes(%r, name=%r, octave_size=%d)" % (op["id"], op["semis"], op["name"], op["osize"]))
            else:
                L.append("s%d = Scale(%r, %r, octave_size=%d)" % (op["id"], op["semis"], op["name"], op["osize"]))
        elif k == "scalecopy":
            e = {"copy()": "s%d.copy()", "copy.copy": "copy.copy(s%d)", "copy.deepcopy": "copy.deepcopy(s%d)",
                 "ctor": "Scale(list(s%d.semitones), s%d.name, octave_size=s%d.octave_size)"}[op["how"]]
            L.append("s%d = %s" % (op["id"], e.replace("%d", str(op["src"]))))
        elif k == "key":
            L.append("k%d = Key(%d, s%d)" % (op["slot"], op["tonic"], op["scale"]))
        elif k == "keynamed":
            nn, name, how = NOTE_NAMES[op["tonic"] % 12], op["name"], op["how"]
            e = {"Key(t,name)": "Key(%d, %r)" % (op["tonic"], name), "Key(note,name)": "Key(%r, %r)" % (nn, name),
                 "Key('note name')": "Key(%r)" % ("%s %s" % (nn, name)), "Key(t,byname)": "Key(%d, Scale.byname(%r))" % (op["tonic"], name),
                 "string": "%r   # a key given as a string, as in an event dictionary" % ("%s %s" % (nn, name))}[how]
            if how == "string":
                strings.add(op["slot"])
            L.append("k%d = %s" % (op["slot"], e))
        elif k == "keycopy":
            e = {"copy.copy": "copy.copy(k%d)", "copy.deepcopy": "copy.deepcopy(k%d)", "ctor": "Key(k%d.tonic, k%d.scale)"}[op["how"]]
            L.append("k%d = %s" % (op["slot"], e.replace("%d", str(op["src"]))))
            if op["how"] == "copy.deepcopy":
                L.append("s%d = k%d.scale" % (op["id"], op["slot"]))
        elif k == "retune":
            L.append("k%d.tonic = %d" % (op["slot"], op["tonic"]))
        elif k == "rescale":
            L.append("k%d.scale = s%d" % (op["slot"], op["scale"]))
        elif k == "setsemis":
            obj = "k%d.scale" % op["through"] if op.get("through") is not None else "s%d" % op["scale"]
            if op["how"] == "assign":
                L.append("%s.semitones = %r" % (obj, op["semis"]))
            elif op["how"] == "inplace":
                L.append("%s.semitones[:] = %r" % (obj, op["semis"]))
            else:
                i_, j_ = op["swap"]
                L.append("l = %s.semitones; l[%d], l[%d] = l[%d], l[%d]   # as Scale.change() does" % (obj, i_, j_, j_, i_))
        elif k == "setosize":
            L.append("s%d.octave_size = %d" % (op["scale"], op["osize"]))
        elif k == "popen":
            cls = {"pfilter": "PFilterByKey", "psnap": "PNearestNoteInKey", "pdegree": "PDegree"}[op["fn"]]
            L.append("p%d = %s(PSequence(%r, 1), %s)" % (op["pid"], cls, op["xs"], src(op["keys"])))
        elif k == "pnext":
            L.append(("print(p%d.nextn(%d))" if i == upto else "_ = p%d.nextn(%d)") % (op["pid"], op["n"]) + mark)
        else:
            fn = op["fn"]
            if fn in PATTERN_FNS:
                mel = "PSequence(%r, 1)" % (op["xs"],)
                e = {"pfilter": "PFilterByKey(%s, %s)", "psnap": "PNearestNoteInKey(%s, %s)", "pdegree": "PDegree(%s, %s)",
                     "chain": "PNearestNoteInKey(PFilterByKey(%s, %s), " + (src(op["keys2"]) if fn == "chain" else "") + ")"}[fn] % (mel, src(op["keys"]))
                if op.get("split") is not None:
                    e = "(lambda p: p.nextn(%d) + p.nextn(%d))(%s)" % (op["split"], op["n"] - op["split"], e)
                else:
                    e = "%s.nextn(%d)" % (e, op["n"])
            elif fn == "semitones":
                e = "%s.semitones" % kx(op["slot"])
            elif fn == "event":
                e = "[Event({'degree': x, 'key': k%d, 'octave': 0, 'transpose': 0}, EventDefaults()).note for x in %r]" % (op["slot"], op["xs"])
            else:
                call = {"get": "%s.get(x)", "getitem": "%s[x]", "contains": "(x in %s)", "nearest": "%s.nearest_note(x)",
                        "scaleget": "%s.scale.get(x)"}[fn] % kx(op["slot"])
                e = "[%s for x in %r]" % (call, op["xs"])
            L.append(("print(%s)" if i == upto else "_ = %s") % e + mark)
    return "\n".join(L)


def walk(ops, res, oi, builtin, lost=None):
    """oracle failures of the call at index oi of an executed history, and the state before it"""
    st = SessionState(builtin)
    for o, r in zip(ops[:oi], res[:oi]):
        st.apply(o)
        st.advance(o, r)
    return oracle_query(st, ops[oi], res[oi], lost), st


def bad_at(ops, res, oi, builtin=()):
    return walk(ops, res, oi, builtin)


def shrink_history(run, ops, oi, kind, builtin):
    """a shorter history ending in the same call that still fails the oracle in the same way: without the other queries and
    patterns, first also without the objects the call does not depend on, then with all objects"""
    target = ops[oi]
    pid = target.get("pid") if target["op"] == "pnext" else None
    mine = lambda o: o["op"] in ("popen", "pnext") and o["pid"] == pid
    conf = [o for o in ops[:oi] if o["op"] in CONFIG_OPS or mine(o)]
    used_k, used_s, used_n = set(), set(), set()
    specs = [target.get("keys"), target.get("keys2")] + [o["keys"] for o in conf if o["op"] == "popen"]
    for spec in specs:
        if spec:
            used_k.update([spec["const"]] if "const" in spec else spec["seq"])
    if "slot" in target:
        used_k.add(target["slot"])
    while True:        # what the used objects were built from
        n0 = (len(used_k), len(used_s), len(used_n))
        for o in conf:
            k = o["op"]
            if k in ("key", "rescale") and o["slot"] in used_k:
                used_s.add(o["scale"])
            elif k == "keynamed" and o["slot"] in used_k:
                used_n.add(o["name"])
            elif k == "keycopy" and o["slot"] in used_k:
                used_k.add(o["src"])
                if "id" in o:
                    used_s.add(o["id"])
            elif k == "keycopy" and o.get("id") in used_s:
                used_k.add(o["slot"]); used_k.add(o["src"])
            elif k == "scalecopy" and o["id"] in used_s:
                used_s.add(o["src"])
            elif k == "scale" and o.get("name") in used_n:
                used_s.add(o["id"])
        if (len(used_k), len(used_s), len(used_n)) == n0:
            break

    def needed(o):
        k = o["op"]
        if k in ("scale", "scalecopy"):
            return o["id"] in used_s
        if k in ("setsemis", "setosize"):
            return o["scale"] in used_s
        if k in ("popen", "pnext"):
            return True
        return o["slot"] in used_k
    kept = [o for o in conf if needed(o)]
    for cand in (kept + [target], conf + [target]):
        if len(cand) >= oi + 1:
            continue
        try:
            res = run.impl("c13_impl", {"sessions": [{"ops": cand}]})["sessions"][0]
        except Exception:
            continue
        if isinstance(res, list) and len(res) == len(cand):
            bad, _ = walk(cand, res, len(cand) - 1, builtin)
            hit = [b for b in bad if b[0] == kind]
            if hit:
                return cand, res[-1], hit[0]
    return None


def judge_sessions(run, sessions, outs, builtin):
    """oracle + model comparison of executed sessions.  Returns the number of oracle failures."""
    terms, meta, n_bad = [], [], 0
    groups = []                                                  # (Coq definition of the session, first term, one past the last)
    reported = run.__dict__.setdefault("_c13_reported", set())   # one shrunk replay per (kind, site) and run
    for si, (sess, res) in enumerate(zip(sessions, outs)):
        sname = "sess%d" % si
        first_term = len(terms)
        st = SessionState(builtin)
        ops = sess["ops"]
        retuned = False
        for oi, (op, r) in enumerate(zip(ops, res)):
            if op["op"] not in ("q", "pnext"):
                st.apply(op)
                if op["op"] in ("retune", "rescale", "setsemis", "setosize"):
                    retuned = True
                    run.dist("session.retuned-in-place.%s" % (op["op"] if op["op"] != "setsemis" else "setsemis." + op["how"]))
                elif op["op"] in ("scalecopy", "keycopy"):
                    run.dist("session.%s.%s" % (op["op"], op["how"]))
                elif op["op"] == "keynamed":
                    sc = st.scales[st.keys[op["slot"]]["sid"]]
                    run.dist("session.key-by-name.%s.%s" % (op["how"], "library" if sc["how"] == "builtin" else "user-octave-%s" % ("12" if sc["osize"] == 12 else "other")))
                if r is not None:       # building / re-configuring an object raised
                    terms.append("false"); meta.append((si, oi, op, r))
                continue
            if op["op"] == "pnext":
                j = len(st.coq_ops)
                pt = st.pats[op["pid"]]
                op = dict(op, _fn=pt["fn"])
                fn, site = "pnext." + pt["fn"], PATTERN_SITE[pt["fn"]]
                n_in = len(r) if isinstance(r, list) else 1
                if pt["pos"] > 0 and retuned:
                    run.dist("session.live-pattern.asked-again-after-a-retuning")
            else:
                j = len(st.coq_ops)
                fn = op["fn"]
                site = PATTERN_SITE.get(fn, "Key")
                n_in = len(op.get("xs", [])) or 1
            run.count(max(1, n_in))
            bad = oracle_query(st, op, r)
            run.cov["oracle_evaluations"] += max(1, n_in)
            seen = set()
            for kind, x, detail in bad:
                if kind in seen:
                    continue
                seen.add(kind)
                n_bad += 1
                sig = {"kind": kind, "site": site, "history": "session"}
                if not [b for b in oracle_query(st, op, r, lost=True) if b[0] == kind]:
                    # every failure of this kind disappears when the copies made by Scale.copy() are read with octave size 12
                    sig["via"] = "Scale.copy-octave-size"
                if (kind, site, sig.get("via")) in reported:
                    continue
                reported.add((kind, site, sig.get("via")))
                h_ops, h_oi, h_r = ops[:oi + 1], oi, r
                small = shrink_history(run, ops, oi, kind, builtin)
                if small:
                    h_ops, h_r, (_, x, detail) = small[0], small[1], small[2]
                    h_oi = len(h_ops) - 1
                defs = SessionState(builtin)
                for o in h_ops[:h_oi]:
                    defs.apply(o)
                run.violation(sig, {
                    "case": {"session": {"ops": h_ops}, "op_index": h_oi, "query": ops[oi], "input": x,
                             "keys_at_that_moment": {"k%d" % sl: defs.kdef(sl) for sl in sorted(defs.keys)},
                             "history_shrunk": bool(small), "original_history_ops": oi + 1, "session_kind": sess.get("kind")},
                    "observed": detail, "returned": h_r,
                    "oracle": "pitch-class-set oracle on the key as it is at that moment: its present tonic, the present semitones and "
                              "octave size of the Scale object it refers to (step i against key i)",
                    "python": session_script(h_ops, h_oi),
                    "all_failures_of_this_kind_in_this_query": sum(1 for b in bad if b[0] == kind)})
            t = query_term(op, r, sname, j)
            if ops[oi]["op"] == "pnext":
                st.apply(ops[oi])
                st.advance(ops[oi], r)
            terms.append(t if t is not None else "false")
            meta.append((si, oi, ops[oi], r))
            run.dist("session.q.%s" % fn)
            if fn in PATTERN_FNS:
                run.dist("session.keysrc.%s" % ("const" if "const" in op["keys"] else "progression"))
                if "seq" in op["keys"] and any(x is None for x in op["xs"]):
                    run.dist("session.progression-with-rests")
        groups.append(("Definition %s : list xop := %s.\n" % (sname, lst(st.coq_ops)), first_term, len(terms)))
        names = [sc["name"] if sc["how"] != "unnamed" else "unnamed scale" for sc in st.scales.values()]
        clash = len(names) - len(set(names))
        run.dist("session.same-name-scales.%s" % ("0" if clash == 0 else "1-2" if clash < 3 else "3+"))
        run.dist("session.kind.%s" % sess.get("kind"))
        run.nontrivial("session %d %r" % (si, [o for o in ops if o["op"] != "q"]))
        run.sample({"session": si, "keys": len(st.keys), "ops": len(ops), "first_ops": ops[:4]}, limit=2)
    # every Coq file gets the definitions of a few sessions and their terms (about a twelfth of all terms each)
    per_file = max(120, -(-len(terms) // 12))
    files, cur = [], None
    for d, a, b in groups:
        if cur is None or cur[2] - cur[1] >= per_file:
            cur = [HEADER + SESSION_HEADER, a, a]
            files.append(cur)
        cur[0] += d
        cur[2] = b

    def one(fi):
        hdr, a, b = files[fi]
        if a == b:
            return []
        src = hdr + "\nDefinition results : list bool := [\n" + ";\n".join(terms[a:b]) + "\n].\nEval vm_compute in failing results.\n"
        return [a + k for k in parse_nat_list(run.coqc_text("sessions%d" % fi, src))]
    failing = []
    with ThreadPoolExecutor(max_workers=12) as ex:
        for part in ex.map(one, range(len(files))):
            failing.extend(part)
    run.cov["traces_validated_against_impl"] += len(terms) - len(failing)
    for i in failing:
        si, oi, op, r = meta[i]
        ops = sessions[si]["ops"]
        if op["op"] in ("q", "pnext") and walk(ops, outs[si], oi, builtin)[0]:
            continue          # already reported with the concrete input
        st = walk(ops, outs[si], oi, builtin)[1] if op["op"] in ("q", "pnext") else None
        site = "Key"
        if op["op"] == "q":
            site = PATTERN_SITE.get(op.get("fn"), "Key")
        elif op["op"] == "pnext":
            site = PATTERN_SITE[st.pats[op["pid"]]["fn"]]
        run.violation({"kind": "correspondence", "site": site, "history": "session"}, {
            "broken": "correspondence model/implementation on %s within a session of several keys / held objects (theorems of Props/C13.v no longer speak about this code)" % site,
            "case": {"session": {"ops": ops[:oi + 1]}, "op_index": oi, "query": op},
            "observed": r, "python": session_script(ops, oi) if op["op"] in ("q", "pnext") else None,
            "coq_term": terms[i][:2000]}, found_input=False)
    return n_bad


def run_sessions(run, info, n_sessions, n_held):
    import time
    t0 = time.time()
    sessions = [gen_session(run.rng, info) for _ in range(n_sessions)]
    sessions += [gen_held_session(run.rng, info, i) for i in range(n_held)]
    n_all = len(sessions)
    # one process per session: the driver forks a child of the freshly imported interpreter for each
    shards = [list(range(i, n_all, 12)) for i in range(12) if i < n_all]
    outs = run.impl_parallel("c13_impl", [{"sessions": [sessions[i] for i in sh]} for sh in shards])
    res = [None] * n_all
    for sh, out in zip(shards, outs):
        for i, r in zip(sh, out["sessions"]):
            if not isinstance(r, list):
                raise CheckError("implementation driver failed on a session: %r" % (r,))
            res[i] = r
    t1 = time.time()
    for i in range(0, n_all, 240):
        judge_sessions(run, sessions[i:i + 240], res[i:i + 240], info["scales"])
    run.cov["sessions_wall_s"] = {"implementation": round(t1 - t0, 1), "oracle+model": round(time.time() - t1, 1)}
    run.cov["sessions"] = n_sessions
    run.cov["sessions_held_objects"] = n_held


def check(run):
    info = run.impl("c13_impl", {"list": True})
    # 1. exhaustive finite domain: every named scale x 12 tonics x notes 0..127 x degrees -64..64
    keys = []
    for name, semis, osize in info["scales"]:
        for t in range(12):
            keys.append({"name": name, "semis": semis, "osize": osize, "tonic": t,
                         "degrees": list(range(-64, 65)), "notes": list(range(128))})
    run_keys(run, keys, True)
    run.cov["exhaustive"] = True
    run.cov["exhaustive_domain"] = "%d named scales x 12 tonics x notes 0..127 x degrees -64..64 (complete)" % len(info["scales"])
    # 2. random user scales: 1..12 semitones, octave sizes 5..24, tonics -24..24, notes -200..300
    n_user = 150 if run.tier == "quick" else 3000
    rng = run.rng
    ukeys = []
    for _ in range(n_user):
        o = rng.randint(5, 24)
        n = rng.randint(1, min(12, o))
        semis = sorted(rng.sample(range(o), n))
        ukeys.append({"name": None, "semis": semis, "osize": o, "tonic": rng.randint(-24, 24),
                      "degrees": sorted(rng.sample(range(-100, 101), 60)),
                      "notes": [rng.randint(-200, 300) for _ in range(90)]})
        run.dist("user.osize.%d" % o)
    for i in range(0, len(ukeys), 600):
        run_keys(run, ukeys[i:i + 600], False)
    # 2b. sessions: several keys per process (shared names / tonics / scale objects), re-configuration,
    #     tonal patterns over key progressions with rests
    run_sessions(run, info, 60 if run.tier == "quick" else 1000, 48 if run.tier == "quick" else 800)
    # 3. note names: whole MIDI range and every spelling
    numbers = list(range(-2, 130))
    sp = []
    for ns in info["note_names"]:
        for nm in ns:
            for v in (nm, nm.lower(), nm.upper()):
                for oc in range(-1, 10):
                    sp.append("%s%d" % (v, oc))
    sp += ["C", "eb", "H4", "C10", "4", "", "c#", "Cb4", "E#2"]
    out = run.impl("c13_impl", {"keys": [], "names": {"numbers": numbers, "spellings": sp}})["names"]
    terms, meta = [], []
    for n, s in zip(numbers, out["to_name"]):
        exp = optlit(s if isinstance(s, str) else None, slit)
        terms.append("option_eqb String.eqb (midi_note_to_note_name note_names %s) %s" % (zlit(n), exp))
        meta.append(("midi_note_to_note_name", n, s))
    for s, n in zip(sp, out["to_midi"]):
        exp = optlit(n if type(n) is int else None, zlit)
        terms.append("oz (note_name_to_midi_note note_names %s) %s" % (slit(s), exp))
        meta.append(("note_name_to_midi_note", s, n))
    run.count(len(terms))
    # oracle: round trips on the implementation alone
    to_name = dict(zip(numbers, out["to_name"]))
    to_midi = dict(zip(sp, out["to_midi"]))
    for n in range(128):
        s = to_name[n]
        back = to_midi.get(s) if isinstance(s, str) else None
        run.cov["oracle_evaluations"] += 1
        if back != n:
            run.violation({"kind": "name-roundtrip", "site": "util"}, {
                "case": {"midi_note": n}, "observed": "midi_note_to_note_name(%d) = %r, note_name_to_midi_note of that = %r" % (n, s, back),
                "python": "from isobar.util import *; print(note_name_to_midi_note(midi_note_to_note_name(%d)))" % n})
    failing = run.coq_failing(HEADER, terms, chunk=400)
    run.cov["traces_validated_against_impl"] += len(terms) - len(failing)
    for i in failing:
        fn, x, y = meta[i]
        run.violation({"kind": "correspondence", "site": fn}, {
            "broken": "correspondence model/implementation on util.%s" % fn,
            "case": {"input": x}, "observed": y, "coq_term": terms[i]}, found_input=False)
    run.nontrivial("names")
    run.cov["rule"] = ("one case = one key (scale x tonic) evaluated on its whole note/degree range by Key.get, __contains__, "
                       "nearest_note, PFilterByKey, PNearestNoteInKey, PDegree; distinct by (scale, tonic); non-trivial = scale has >= 1 semitone. "
                       "nearest_note compared by membership and distance, not identity.  A session (one process: 4-9 keys sharing names/tonics/"
                       "scale objects, interleaved queries, re-configuration, pattern queries over key progressions with rests; or: 3-8 held Key "
                       "objects and 1-4 live pattern objects, re-tuned in place between nextn() calls, user scales reached by name, copies) counts as one case, "
                       "distinct by its sequence of build/re-configure operations.")


def replay_session(run, doc):
    case = doc["case"]
    ops, oi = case["session"]["ops"], case["op_index"]
    res = run.impl("c13_impl", {"sessions": [{"ops": ops}]})["sessions"][0]
    info = run.impl("c13_impl", {"list": True})
    bad = []
    if isinstance(res, list) and len(res) == len(ops) and ops[oi]["op"] in ("q", "pnext"):
        bad, _ = bad_at(ops, res, oi, info["scales"])
        print("replay: query %s returned %r" % (json.dumps(ops[oi]), res[oi]))
    for b in bad:
        print("REPLAY-FAILS:", b)
    if bad:
        print("VIOLATION property=C13 replay=%s" % "(replayed)")
        return 1
    if not doc.get("failing_input_found", True):
        print("replay: the document records a model/implementation disagreement without a failing input; re-running the whole check")
        if run.build():
            check(run)
        return run.finish()
    return 0


def replay(run, doc):
    case = doc.get("case", {})
    if "session" in case:
        return replay_session(run, doc)
    key = case.get("key")
    if isinstance(key, str) and "tonic" in case:
        kd = {"name": key, "tonic": case["tonic"]}
    elif isinstance(key, dict):
        kd = {"name": None, "semis": key["semis"], "osize": key["osize"], "tonic": case["tonic"]}
    else:
        print("replay: re-running the whole check"); kd = None
    if kd is None:
        if run.build():
            check(run)
        return run.finish()
    info = run.impl("c13_impl", {"list": True})
    if kd["name"]:
        for name, semis, osize in info["scales"]:
            if name == kd["name"]:
                kd["semis"], kd["osize"] = semis, osize
    x = case.get("input")
    kd["degrees"] = [x] if isinstance(x, int) else [0]
    kd["notes"] = [x] if isinstance(x, int) else [0]
    r = run.impl("c13_impl", {"keys": [kd]})["keys"][0]
    bad = oracle_key(kd, kd["degrees"], kd["notes"], r)
    for b in bad:
        print("REPLAY-FAILS:", b)
    if bad:
        print("VIOLATION property=C13 replay=%s" % "(replayed)")
    return 1 if bad else 0

"""C19 — output devices encode exactly what the track asked for.
Theorems: coq/Props/C19.v (MIDI byte codec round trip + int() truncation, OSC 1.0 message round trip for
unbounded argument lists + the documented /note and /control forms, MPE allocator invariant over all call
sequences).  Correspondence: the real devices are driven in a fresh interpreter with a fake mido port, a
loop-back UDP socket and a saved MIDI file; every captured byte string is compared inside Coq with the model
and decoded by the Coq decoders.  Oracle: an independent MIDI status-byte table, a tiny OSC 1.0 parser (type
tags), a channel-uniqueness tracker for MPE and a tick counter for the delta times of the MIDI file, all in plain
Python.  Histories: several requests through the same device instance (port, OSC, file) are judged one by one."""
from common import *
import struct

PROP = "C19"
META = {
 "engine": "F-pure-functions",
 "text": "Coq theorems (Props/C19.v, closed under the global context): (1) the MIDI channel-voice encoding used for note_on/note_off/control_change/program_change/aftertouch/pitchwheel is decoded back to the same message for ALL fields in range (note, velocity, value, program 0..127, channel 0..15, pitch -8192..8191), is injective, rejects exactly the out-of-range requests, and a float argument is encoded as its truncation toward zero (Python int()); (2) the OSC 1.0 encoding (NUL-padded strings, type-tag string, big-endian int32, 4-byte float payloads) is decoded back to the same address and argument list for EVERY address and EVERY finite argument list of ints, floats and strings (induction, unbounded), hence is injective, and the device's note_on/note_off/control requests are the documented /note [note, velocity, channel] and /control [control, value, channel] forms; (3) for EVERY sequence of MPE note_on/note_off/expression calls with at most 15 notes held at once, every note_on is sent on a channel in 1..15 that no other held note uses, note_off and per-note expression go out on the note's channel, and the release frees it (invariant by induction over the call sequence); (4) for EVERY sequence of tick() runs and requests on the MIDI-file device the running sum of the written delta times puts each message at exactly the number of tick() calls that preceded its request, whatever the gap and the ticks_per_beat (exact beat arithmetic with round-half-even is the identity on tick differences), and rejected or not-implemented requests leave the timing untouched; (5) the k-th datagram of ANY history of OSC requests decodes to the k-th request and requests that differ only in the TYPE of an argument (int 2 / float 2.0 / string '2') never share a datagram. The models are tied to the repository on every run: the real MidiOutputDevice/MPEOutputDevice (fake mido port), OSCOutputDevice (loop-back UDP socket) and MidiFileOutputDevice (file read back with mido) are driven directly and through Timeline/Track.perform_event; the captured bytes are compared with the model inside Coq (vm_compute) and OSC datagrams are decoded by the Coq decoder; an independent Python oracle (status-byte table, OSC 1.0 parser, channel-uniqueness tracker) judges every result and supplies the failing input. Several devices alive in one process (IO/MultiDevice.v, the product of independent device machines): in ANY interleaving of calls to any number of devices every device produces exactly what its own call subsequence produces alone (C19_multi_noninterference, any step function), and every MPE device with well-formed own calls keeps each of ITS held notes on a channel of its own whatever the other devices hold (C19_mpe_multi); checked on every run with 2-4 MPE / MIDI-port / OSC device objects on their own fake ports and sockets, created up-front or after other devices were used, calls interleaved, each device judged on its own calls and nothing allowed on another device's port. MPE over ALL call sequences with note identity (IO/MpeVoices.v: a sounding note is the note_on call / handle that started it): whatever pitches are struck again while held, whatever is released or not held, beyond 15 voices and with stale handles, the sounding voices keep pairwise distinct channels in 1..15, a release goes out on the released voice's channel and frees it, and a note_on is dropped only when 15 voices sound (C19_mpe_voices, _distinct, _never_starved); checked on every run on unison / doubled-chord / over-full / mixed sequences with releases through handles and through the device in any order.",
 "note": "Trusted: Coq kernel + VM; the Python harness; mido's and python-osc's serialisers and the loop-back socket are exercised on every run but not modelled beyond the byte formats; struct.pack('>f') supplies the float32 payload bytes the OSC model carries (the oracle checks them independently against the exact value). Delta times: the absolute tick of every saved message is judged (integers) for gaps up to 250 beats at resolutions 7..10080; the float arithmetic of the file device is not modelled, the closing dummy note_off is compared with the model only (trailing silence is C16's). A MIDI-file device class that does not implement control / program_change / pitch_bend itself (the pinned one inherited no-ops; repaired) is reported: the property lists these requests for the file too. Not covered: OSC int64/blob/bool arguments (bools are sent inside histories but not judged); MPE calls that press a note index that is already down, more than 15 simultaneous notes, and note_off of a note that is not down beyond 'nothing is sent'; release velocity of note_off (not fixed by the property). Requests with out-of-range fields are outside the property: the model says mido rejects them and they are compared only when the implementation rejects them too.",
}
HEADER = """From Isobar Require Import Base.Prelude IO.MidiBytes IO.Osc IO.Mpe IO.FileWire.
From Coq Require Import QArith.
Open Scope Z_scope.
Definition zq (n : Z) : Q := Qmake n 1.
Definition fq (n : Z) (d : positive) : Q := Qmake n d.
Fixpoint all2 {A B} (f : A -> B -> bool) (l1 : list A) (l2 : list B) : bool :=
  match l1, l2 with [], [] => true | x :: xs, y :: ys => f x y && all2 f xs ys | _, _ => false end.
Definition wire_ok (m : midi_msg) (bs : list Z) : bool := msg_valid m && same_request m bs.
"""

STATUS = {"note_on": 0x90, "note_off": 0x80, "control": 0xB0, "program_change": 0xC0,
          "aftertouch": 0xD0, "pitch_bend": 0xE0}
REQ = {"note_on": "req_note_on", "note_off": "req_note_off", "control": "req_control",
       "program_change": "req_program", "aftertouch": "req_aftertouch", "pitch_bend": "req_pitch_bend"}
ARITY = {"note_on": 3, "note_off": 2, "control": 3, "program_change": 2, "aftertouch": 2, "pitch_bend": 2}


# ---- values -----------------------------------------------------------------------------------------
def val(x):
    """JSON argument spec -> the Python number the driver passes (exact)"""
    if isinstance(x, list) and x and x[0] == "np":
        return float(x[2]) if "float" in x[1] else int(x[2])
    if isinstance(x, list) and x and x[0] == "pat":
        return val(x[1])
    return x


def trunc0(x):
    """truncation toward zero, on the exact value (independent of int())"""
    f = Fraction(x)
    n, d = f.numerator, f.denominator
    return n // d if n >= 0 else -((-n) // d)


def qterm(x):
    v = val(x)
    if isinstance(v, int):
        return "(zq %s)" % zlit(v)
    f = Fraction(v)
    return "(fq %s %d%%positive)" % (zlit(f.numerator), f.denominator)


def pyrepr(x):
    if isinstance(x, list) and x and x[0] == "np":
        return "np.%s(%r)" % (x[1], x[2])
    if isinstance(x, list) and x and x[0] == "pat":
        return "iso.PSequence([%s])" % pyrepr(x[1])
    return repr(x)


def zll(ll):
    return lst([zlist(l) for l in ll])


# ---- MIDI oracle (status-byte table of the MIDI 1.0 specification) ----------------------------------------
def midi_expect(op, args):
    """None when the request is outside the property's domain (a field out of range after truncation);
    else the expected bytes (None = any 7-bit value: the release velocity of a note_off)."""
    t = [trunc0(val(a)) for a in args]
    ch = t[-1]
    if not 0 <= ch <= 15:
        return None
    if op == "pitch_bend":
        if not -8192 <= t[0] <= 8191:
            return None
        v = t[0] + 8192
        return [0xE0 | ch, v & 0x7F, v >> 7]
    if any(not 0 <= d <= 127 for d in t[:-1]):
        return None
    exp = [STATUS[op] | ch] + t[:-1]
    if op == "note_off":
        exp.append(None)
    return exp


def bytes_match(exp, got):
    return isinstance(got, list) and len(exp) == len(got) and all(
        (e is None and type(g) is int and 0 <= g <= 127) or e == g for e, g in zip(exp, got))


def req_term(op, args):
    return "(%s %s)" % (REQ[op], " ".join(qterm(a) for a in args))


def midi_snippet(op, args, kw=False, dev="MidiOutputDevice"):
    a = ", ".join(pyrepr(x) for x in args)
    return ("import mido, numpy as np\nclass P:\n    name='fake'\n    def send(self, m): print(m.bytes())\n"
            "mido.open_output = lambda *a, **k: P()\nfrom isobar.io import *\nd = %s('fake')\nd.%s(%s)" % (dev, op, a))


def judge_midi(run, cases, results):
    """one request per case on a MidiOutputDevice with a fake port"""
    terms, meta = [], []
    for c, r in zip(cases, results):
        op, args = c["op"], c["args"]
        exp = midi_expect(op, args)
        sent, exc = r["sent"], r["raise"]
        run.count()
        run.cov["oracle_evaluations"] += 1
        run.nontrivial("midi %s %s" % (op, json.dumps(args)))
        run.dist("midi.%s" % op)
        if any(isinstance(val(a), float) and val(a) != int(val(a)) and abs(val(a)) % 1 >= 0.5 for a in args):
            run.dist("midi.float-fraction>=.5")
        elif any(isinstance(val(a), float) for a in args):
            run.dist("midi.float-other")
        if exp is None:
            run.dist("midi.out-of-range")
            if exc is not None and not sent:
                terms.append("port_agrees %s None" % req_term(op, args)); meta.append((c, r, True))
            else:
                run.discard("out-of-range request not rejected by the device (outside the property's domain)")
            continue
        ok = exc is None and len(sent) == 1 and bytes_match(exp, sent[0])
        if not ok:
            kind = "midi-raises" if exc is not None else ("midi-no-message" if not sent else "midi-wrong-bytes")
            run.violation({"kind": kind, "site": "MidiOutputDevice." + op, "exc": exc}, {
                "case": {"stratum": "midi", "payload": c},
                "expected": "one message with bytes %s (None = any 7-bit release velocity)" % exp,
                "observed": {"raise": exc, "sent": sent}, "oracle": "MIDI 1.0 status-byte table, truncation toward zero",
                "python": midi_snippet(op, args)})
        cap = "(Some %s)" % zlist(sent[0]) if len(sent) == 1 and exc is None else None
        terms.append("port_agrees %s %s" % (req_term(op, args), cap) if cap else "false")
        meta.append((c, r, ok))
        run.sample({"device": "MidiOutputDevice", "call": "%s(%s)" % (op, ", ".join(pyrepr(a) for a in args)), "wire": sent}, limit=2)
    failing = run.coq_failing(HEADER, terms, chunk=500)
    run.cov["traces_validated_against_impl"] += len(terms) - len(failing)
    for i in failing:
        c, r, ok = meta[i]
        if not ok:
            continue       # already reported by the oracle with the concrete input
        run.violation({"kind": "correspondence", "site": "MidiOutputDevice." + c["op"]}, {
            "broken": "correspondence model/implementation on MidiOutputDevice.%s (C19_midi_* no longer speak about this code)" % c["op"],
            "case": {"stratum": "midi", "payload": c}, "observed": r, "coq_term": terms[i]}, found_input=False)


# ---- OSC oracle: a tiny OSC 1.0 parser ------------------------------------------------------------------
def osc_parse(b):
    def rstr(i):
        j = b.index(0, i)
        k = (j // 4 + 1) * 4
        if k > len(b) or any(b[j:k]):
            raise ValueError("bad padding")
        return bytes(b[i:j]), k
    addr, i = rstr(0)
    tags, i = rstr(i)
    if tags[:1] != b",":
        raise ValueError("no type tag string")
    args = []
    for t in tags[1:]:
        if t in (0x69, 0x66):
            if i + 4 > len(b):
                raise ValueError("truncated")
            args.append(("i", int.from_bytes(b[i:i + 4], "big", signed=True)) if t == 0x69 else ("f", bytes(b[i:i + 4])))
            i += 4
        elif t == 0x73:
            s, i = rstr(i)
            args.append(("s", s))
        else:
            raise ValueError("unsupported tag %r" % chr(t))
    if i != len(b):
        raise ValueError("trailing bytes")
    return addr, args


def f32_exact(b4):
    """exact value and ulp of an IEEE-754 binary32 given as 4 big-endian bytes (None for inf/nan)"""
    u = int.from_bytes(b4, "big")
    sign, e, m = u >> 31, (u >> 23) & 0xFF, u & 0x7FFFFF
    if e == 255:
        return None
    if e == 0:
        v, ulp = Fraction(m, 2 ** 149), Fraction(1, 2 ** 149)
    else:
        ulp = Fraction(2) ** (e - 127 - 23)
        v = (m + 2 ** 23) * ulp
    return (-v if sign else v), ulp, sign


def osc_request(c):
    """(address, [values]) the documented forms prescribe for this call"""
    op, a = c["op"], c["args"]
    if op == "note_on":
        return "/note", [val(a[0]), val(a[1]), val(a[2])]
    if op == "note_off":
        return "/note", [val(a[0]), 0, val(a[1])]
    if op == "control":
        return "/control", [val(a[0]), val(a[1]), val(a[2])]
    params = a[1]
    return a[0], ([] if params in (None, "absent") else [val(p) for p in params])


def osc_value_ok(want, got):
    kind, g = got
    if isinstance(want, bool):
        return False
    if isinstance(want, int):
        return kind == "i" and g == want
    if isinstance(want, str):
        return kind == "s" and g == want.encode("utf-8")
    if isinstance(want, float):
        if kind != "f":
            return False
        d = f32_exact(g)
        if d is None:
            return False
        v, ulp, sign = d
        if want == 0.0:
            return v == 0 and sign == (1 if str(want).startswith("-") else 0)
        return abs(v - Fraction(want)) <= ulp / 2
    return False


def osc_oracle(c, dgram):
    addr, vals = osc_request(c)
    try:
        a, args = osc_parse(dgram)
    except (ValueError, IndexError) as e:
        return "datagram is not a well-formed OSC message: %s" % e
    if a != addr.encode("utf-8"):
        return "address %r, requested %r" % (a, addr)
    if len(args) != len(vals):
        return "%d arguments on the wire, %d requested" % (len(args), len(vals))
    for k, (w, g) in enumerate(zip(vals, args)):
        if not osc_value_ok(w, g):
            return "argument %d on the wire is %r, requested %r" % (k, g, w)
    return None


def oarg(x):
    v = val(x)
    if isinstance(v, bool):
        raise TypeError
    if isinstance(v, int):
        assert abs(v) < 2 ** 31
        return "(OInt %s)" % zlit(v)
    if isinstance(v, float):
        return "(OFloat %d %d %d %d)" % tuple(struct.pack(">f", v))
    return "(OStr %s)" % zlist(list(v.encode("utf-8")))


def osc_msg_term(c):
    op, a = c["op"], c["args"]
    if op == "note_on":
        return "(osc_note_on %s %s %s)" % (oarg(a[0]), oarg(a[1]), oarg(a[2]))
    if op == "note_off":
        return "(osc_note_off %s %s)" % (oarg(a[0]), oarg(a[1]))
    if op == "control":
        return "(osc_control %s %s %s)" % (oarg(a[0]), oarg(a[1]), oarg(a[2]))
    params = a[1]
    ps = "None" if params in (None, "absent") else "(Some %s)" % lst([oarg(p) for p in params])
    return "(osc_send %s %s)" % (zlist(list(a[0].encode("utf-8"))), ps)


def osc_snippet(c):
    op, a = c["op"], c["args"]
    if op == "send":
        call = "d.send(%r)" % a[0] if a[1] == "absent" else "d.send(%r, %s)" % (a[0], "None" if a[1] is None else "[" + ", ".join(pyrepr(p) for p in a[1]) + "]")
    else:
        call = "d.%s(%s)" % (op, ", ".join(pyrepr(x) for x in a))
    return ("import socket, isobar as iso\nfrom isobar.io.osc.output import OSCOutputDevice\n"
            "s = socket.socket(socket.AF_INET, socket.SOCK_DGRAM); s.bind(('127.0.0.1', 0)); s.settimeout(1)\n"
            "d = OSCOutputDevice('127.0.0.1', s.getsockname()[1])\n%s\nprint(s.recv(65536))" % call)


def judge_osc(run, cases, results):
    terms, meta = [], []
    for c, r in zip(cases, results):
        run.count()
        run.cov["oracle_evaluations"] += 1
        run.nontrivial("osc " + json.dumps(c, sort_keys=True))
        run.dist("osc.%s" % c["op"])
        exc, dg = r["raise"], [bytes.fromhex(h) for h in r["dgrams"]]
        why = None
        if exc is not None:
            why, kind = "the call raised %s" % exc, "osc-raises"
        elif len(dg) != 1:
            why, kind = "%d datagrams received, 1 expected" % len(dg), "osc-datagram-count"
        else:
            why, kind = osc_oracle(c, dg[0]), "osc-wrong-datagram"
        if why:
            addr, vals = osc_request(c)
            run.violation({"kind": kind, "site": "OSCOutputDevice." + c["op"], "exc": exc}, {
                "case": {"stratum": "osc", "payload": c},
                "expected": "one OSC datagram with address %r and arguments %r" % (addr, vals),
                "observed": {"raise": exc, "datagrams": r["dgrams"], "why": why}, "oracle": "OSC 1.0 parser",
                "python": osc_snippet(c)})
        terms.append("dgram_agrees %s %s" % (osc_msg_term(c), zlist(list(dg[0]))) if exc is None and len(dg) == 1 else "false")
        meta.append((c, r, why is None))
        if c["op"] != "send" or len(c["args"][1] or []) > 2:
            run.sample({"device": "OSCOutputDevice", "call": osc_snippet(c).splitlines()[-2], "datagram": r["dgrams"]}, limit=4)
    failing = run.coq_failing(HEADER, terms, chunk=300)
    run.cov["traces_validated_against_impl"] += len(terms) - len(failing)
    for i in failing:
        c, r, ok = meta[i]
        if not ok:
            continue
        run.violation({"kind": "correspondence", "site": "OSCOutputDevice." + c["op"]}, {
            "broken": "correspondence model/implementation on OSCOutputDevice.%s: datagram differs from osc_encode or the Coq decoder does not recover the request (C19_osc_* no longer speak about this code)" % c["op"],
            "case": {"stratum": "osc", "payload": c}, "observed": r, "coq_term": terms[i]}, found_input=False)


# ---- OSC histories: several requests through the same device, judged message by message -----------------
def has_bool(c):
    op, a = c["op"], c["args"]
    vals = a if op != "send" else (a[1] if isinstance(a[1], list) else [])
    return any(isinstance(val(v), bool) for v in vals)


def osch_snippet(h):
    lines = ["import socket, isobar as iso", "from isobar.io.osc.output import OSCOutputDevice",
             "s = socket.socket(socket.AF_INET, socket.SOCK_DGRAM); s.bind(('127.0.0.1', 0)); s.settimeout(1)",
             "d = [OSCOutputDevice('127.0.0.1', s.getsockname()[1]) for _ in range(%d)]" % h.get("ndev", 1)]
    for c in h["msgs"]:
        lines.append(osc_snippet(c).splitlines()[-2].replace("d.", "d[%d]." % c.get("dev", 0), 1) + "; print(s.recv(65536))")
    return "\n".join(lines)


def judge_osch(run, hists, results):
    """one case = one HISTORY of requests on the same device(s); every datagram is decoded at the type-tag level
    and compared with the exact OSC 1.0 encoding of the arguments AS GIVEN (int / float / string), whatever was
    sent before.  A message with a bool argument is outside the property (ints, floats, strings): it is sent, it
    may influence later messages, but it is not judged itself."""
    terms, meta = [], []
    for h, res in zip(hists, results):
        run.nontrivial("osch " + json.dumps(h, sort_keys=True))
        run.dist("osch.histories")
        run.dist("osch.messages", len(h["msgs"]))
        if h.get("ndev", 1) > 1:
            run.dist("osch.histories-over-%d-devices" % h["ndev"])
        judged, dgs, bad = [], [], False
        prev = None
        for k, (c, r) in enumerate(zip(h["msgs"], res)):
            if has_bool(c):
                run.dist("osch.bool-message(unjudged)")
                prev = None
                continue
            run.count()
            run.cov["oracle_evaluations"] += 1
            req = osc_request(c)
            if prev is not None and prev[0] == req[0] and prev[1] == req[1]:
                same_types = [type(x) for x in prev[1]] == [type(x) for x in req[1]]
                run.dist("osch.consecutive-equal(==)-requests:%s" % ("identical" if same_types else "types-differ"))
            prev = req
            exc, dg = r["raise"], [bytes.fromhex(x) for x in r["dgrams"]]
            if exc is not None:
                why, kind = "the call raised %s" % exc, "osc-raises"
            elif len(dg) != 1:
                why, kind = "%d datagrams received, 1 expected" % len(dg), "osc-datagram-count"
            else:
                why, kind = osc_oracle(c, dg[0]), "osc-wrong-datagram"
            if why:
                small = {"msgs": h["msgs"][:k + 1], "ndev": h.get("ndev", 1)}
                run.violation({"kind": kind, "site": "OSCOutputDevice." + c["op"], "exc": exc, "history": True}, {
                    "case": {"stratum": "osch", "payload": small},
                    "expected": "message %d of the history: one OSC datagram with address %r and arguments %r (types as given: %s)" % (
                        k, req[0], req[1], [type(x).__name__ for x in req[1]]),
                    "observed": {"raise": exc, "datagrams": r["dgrams"], "why": why, "failing_message_index": k},
                    "oracle": "OSC 1.0 parser (type tags)", "python": osch_snippet(small)})
                bad = True
                break
            judged.append(osc_msg_term(c)); dgs.append(list(dg[0]))
        terms.append("false" if bad else "osc_history_agrees %s %s" % (lst(judged), zll(dgs)))
        meta.append((h, res, not bad))
        run.sample({"device": "OSCOutputDevice", "history": [osc_snippet(c).splitlines()[-2] for c in h["msgs"][:4]],
                    "datagrams": [r["dgrams"] for r in res[:4]]}, limit=3)
    failing = run.coq_failing(HEADER, terms, chunk=60)
    run.cov["traces_validated_against_impl"] += sum(len(meta[i][0]["msgs"]) for i in range(len(terms)) if i not in failing)
    for i in failing:
        h, res, ok = meta[i]
        if ok:
            run.violation({"kind": "correspondence", "site": "OSCOutputDevice(history)"}, {
                "broken": "correspondence model/implementation on a history of OSC requests (C19_osc_history no longer speaks about this code)",
                "case": {"stratum": "osch", "payload": h}, "observed": res, "coq_term": terms[i][:3000]}, found_input=False)


# ---- MPE oracle: channel uniqueness among held notes -------------------------------------------------------
def mpe_oracle(seq, res):
    """returns (index, detail) of the first call whose wire output breaks the property, or None"""
    held = {}
    for i, (c, r) in enumerate(zip(seq, res)):
        k, n, sent = c[0], c[1], r["sent"]
        if k == 0:
            if r["none"] or r["raise"] or not sent:
                return i, "note_on(%d, %d) with %d notes held sent nothing (returned None: %s, raised: %s)" % (n, c[2], len(held), r["none"], r["raise"])
            b = sent[0]
            if len(sent) != 1 or len(b) != 3 or b[0] & 0xF0 != 0x90 or b[1:] != [n, c[2]]:
                return i, "note_on(%d, %d) sent %r" % (n, c[2], sent)
            ch = b[0] & 0x0F
            if not 1 <= ch <= 15:
                return i, "note_on(%d) went out on channel %d (member channels are 1..15)" % (n, ch)
            clash = [p for p, pc in held.items() if pc == ch]
            if clash:
                return i, "note_on(%d) was given channel %d, which held note %d is sounding on" % (n, ch, clash[0])
            if r["chan"] is not None and r["chan"] != ch:
                return i, "the returned MPENote says channel %r, the message went out on %d" % (r["chan"], ch)
            held[n] = ch
        elif k in (1, 5):
            if n not in held:
                if sent:
                    return i, "note_off(%d) for a note that is not down sent %r" % (n, sent)
                continue
            exp = [0x80 | held[n], n, None]
            if r["raise"] or len(sent) != 1 or not bytes_match(exp, sent[0]):
                return i, "release of note %d (sounding on channel %d) sent %r (raised: %s)" % (n, held[n], sent, r["raise"])
            del held[n]
        else:
            if n not in held:
                if sent:
                    return i, "expression for released note %d sent %r" % (n, sent)
                continue
            ch = held[n]
            if k == 2:
                v = c[2] + 8192
                exp = [0xE0 | ch, v & 0x7F, v >> 7]
            elif k == 3:
                exp = [0xD0 | ch, c[2]]
            else:
                exp = [0xB0 | ch, c[2], c[3]]
            if r["raise"] or len(sent) != 1 or not bytes_match(exp, sent[0]):
                return i, "expression call %r for note %d (channel %d) sent %r (raised: %s)" % (c, n, ch, sent, r["raise"])
    return None


def mpe_snippet(seq):
    lines = ["import mido", "class P:", "    name='fake'", "    def send(self, m): print(m)",
             "mido.open_output = lambda *a, **k: P()", "from isobar.io.mpe.output import MPEOutputDevice",
             "d = MPEOutputDevice('fake'); h = {}"]
    for c in seq:
        k = c[0]
        if k == 0:
            lines.append("h[%d] = d.note_on(%d, %d); print('channel', h[%d] and h[%d].channel)" % (c[1], c[1], c[2], c[1], c[1]))
        elif k == 1:
            lines.append("d.note_off(%d)" % c[1])
        elif k == 5:
            lines.append("h[%d].note_off()" % c[1])
        elif k == 2:
            lines.append("h[%d].pitch_bend(%d)" % (c[1], c[2]))
        elif k == 3:
            lines.append("h[%d].aftertouch(%d)" % (c[1], c[2]))
        else:
            lines.append("h[%d].control(%d, %d)" % (c[1], c[2], c[3]))
    return "\n".join(lines)


def mpe_calls_term(seq):
    return "(map call_of %s)" % zll([[1 if c[0] == 5 else c[0]] + list(c[1:]) for c in seq])


def judge_mpe(run, seqs, results):
    terms, meta = [], []
    for seq, res in zip(seqs, results):
        run.count(len(seq))
        run.cov["oracle_evaluations"] += len(seq)
        run.nontrivial("mpe " + json.dumps(seq))
        n_on = sum(1 for c in seq if c[0] == 0)
        run.dist("mpe.sequences")
        run.dist("mpe.calls", len(seq))
        run.dist("mpe.note_ons", n_on)
        if n_on > 16:
            run.dist("mpe.sequences-with->16-successive-notes")
        bad = mpe_oracle(seq, res)
        if bad:
            i, detail = bad
            small = seq[:i + 1]
            run.violation({"kind": "mpe-channel", "site": "MPEOutputDevice"}, {
                "case": {"stratum": "mpe", "payload": small},
                "expected": "every held note on its own channel in 1..15; release and expression on that channel; release frees it",
                "observed": {"failing_call_index": i, "call": seq[i], "detail": detail, "wire_of_last_calls": [r["sent"] for r in res[max(0, i - 3):i + 1]]},
                "oracle": "channel-uniqueness tracker", "python": mpe_snippet(small if len(small) <= 60 else small[-60:])})
        terms.append("outs_agree (mpe_run mpe_init %s) %s" % (mpe_calls_term(seq), lst([zll(r["sent"]) for r in res])))
        meta.append((seq, res, bad is None))
        run.sample({"device": "MPEOutputDevice", "calls(first 8) [0 on,1 off,2 bend,3 touch,4 ctl,5 handle-off]": seq[:8],
                    "wire(first 8)": [r["sent"] for r in res[:8]], "calls": len(seq)}, limit=5)
    failing = run.coq_failing(HEADER, terms, chunk=1, jobs=12)
    run.cov["traces_validated_against_impl"] += sum(len(meta[i][0]) for i in range(len(terms)) if i not in failing)
    for i in failing:
        seq, res, ok = meta[i]
        if not ok:
            continue
        at = run.coq_eval(HEADER, "first_diff 0 (mpe_run mpe_init %s) %s" % (mpe_calls_term(seq), lst([zll(r["sent"]) for r in res])))
        run.violation({"kind": "correspondence", "site": "MPEOutputDevice"}, {
            "broken": "correspondence model/implementation on the MPE allocator (C19_mpe no longer speaks about this code)",
            "case": {"stratum": "mpe", "payload": seq}, "first_differing_call": at, "python": mpe_snippet(seq[:60])}, found_input=False)


# ---- MIDI file and Timeline-driven runs -----------------------------------------------------------------------
def judge_wire_list(run, site, case_doc, reqs, wires, exc, snippet, strip_trailing_note_off=False, exc_detail=None):
    """reqs: [(op, args)] requested in order (all inside the domain); wires: list of byte lists observed"""
    run.count(len(reqs))
    run.cov["oracle_evaluations"] += len(reqs)
    exps = [midi_expect(op, a) for op, a in reqs]
    w = wires
    if strip_trailing_note_off and w is not None and len(w) == len(reqs) + 1 and w[-1][0] & 0xF0 == 0x80:
        w = w[:-1]          # the dummy note_off MidiFileOutputDevice.write() appends
    why = None
    if exc is not None:
        why = "raised %s" % (exc_detail or exc)
    elif w is None or len(w) != len(reqs):
        why = "%s messages observed, %d requested" % (None if w is None else len(w), len(reqs))
    else:
        for k, (e, g) in enumerate(zip(exps, w)):
            if not bytes_match(e, g):
                why = "message %d is %r, requested %s%r -> %r" % (k, g, reqs[k][0], tuple(val(x) for x in reqs[k][1]), e)
                break
    if why:
        run.violation({"kind": "wrong-messages", "site": site, "exc": exc}, {
            "case": case_doc, "expected": exps, "observed": {"raise": exc, "wire": wires, "why": why},
            "oracle": "MIDI 1.0 status-byte table, truncation toward zero", "python": snippet})
        return "false", False
    return "all2 wire_ok %s %s" % (lst([req_term(op, a) for op, a in reqs]), zll(w)), True


FILE_REQ_OPS = ("note_on", "note_off", "control", "program_change", "pitch_bend", "aftertouch")


def file_snippet(ops, ndev=1):
    lines = ["from isobar.io.midifile.output import MidiFileOutputDevice", "import mido",
             "d = [MidiFileOutputDevice('c19-%d.mid' % k) for k in range(" + str(ndev) + ")]"]
    for op in ops:
        k = op[2] if len(op) > 2 else 0
        if op[0] == "tick":
            lines.append("for _ in range(%d): d[%d].tick()" % (op[1], k))
        elif op[0] == "tpb":
            lines.append("d[%d].midifile.ticks_per_beat = %d" % (k, op[1]))
        else:
            lines.append("d[%d].%s(%s)" % (k, op[0], ", ".join(pyrepr(a) for a in op[1])))
    lines += ["for k, x in enumerate(d):", "    x.write(); t = 0",
              "    for m in mido.MidiFile('c19-%d.mid' % k).tracks[0]:", "        t += m.time", "        if not m.is_meta: print(k, t, m)"]
    return "\n".join(lines)


def judge_file_device(run, site, doc, ops, calls, f, supports, snippet, tag="file"):
    """one MidiFileOutputDevice: `ops` = its tick runs and requests in call order, `calls` = exception class per op
    (None when the op is a tick or returned), `f` = what was read back from the saved file.  Returns (coq term, ok)
    or None when the case is outside the domain.  Judged by the oracle: the note/value/channel bytes of every message
    (as before) AND its absolute tick = the number of tick() calls that preceded the request (integer arithmetic on
    the delta times of the file); compared with the model only: the closing dummy note_off and its delta."""
    reqs, ticks_at, fops, now, tpb = [], [], [], 0, None
    exc, exc_detail = f["write"], None
    for op, e in zip(ops, calls):
        if op[0] == "tick":
            now += op[1]
            fops.append("FTicks %s" % zlit(op[1]))
            continue
        if op[0] == "tpb":
            tpb = op[1]
            continue
        if op[0] not in FILE_REQ_OPS or any(isinstance(a, list) and a and a[0] == "opaque" for a in op[1]) or len(op[1]) != ARITY[op[0]]:
            run.discard("request the harness cannot describe (%s)" % op[0]); return None
        if not supports.get(op[0]):
            # the device class does not implement this request itself (inherited no-op / no such method): it writes
            # nothing and must not disturb the timing of the messages around it
            run.dist("%s.request-not-implemented-by-the-device(%s)" % (tag, op[0]))
            if op[0] in ("control", "program_change", "pitch_bend"):
                # the property lists these requests for the MIDI file as well: a device that silently drops them
                # (the pinned MidiFileOutputDevice inherited OutputDevice's no-ops) violates it
                run.violation({"kind": "file-request-not-written", "site": site, "request": op[0]}, dict(doc, **{
                    "observed": "%s%r is not implemented by the MIDI-file device class: nothing is written to the file" % (op[0], tuple(val(a) for a in op[1])),
                    "expected": "a delta-timed %s message in the saved file" % op[0], "python": snippet}))
            fops.append("FSilent")
            continue
        fops.append("FReq %s" % req_term(op[0], op[1]))
        if midi_expect(op[0], op[1]) is None:
            if e is None:
                run.discard("MIDI-file case with an accepted out-of-range request"); return None
            run.dist("%s.rejected-request-between-messages" % tag)
            continue
        reqs.append((op[0], op[1]))
        ticks_at.append(now)
        if any(isinstance(val(a), float) for a in op[1]):
            run.dist("%s.float-argument" % tag)
        if e is not None and exc is None:
            exc, exc_detail = e, "%s in %s%r" % (e, op[0], tuple(val(a) for a in op[1]))
    msgs = f["msgs"]
    wires = None if msgs is None else [m["bytes"] for m in msgs]
    t, ok = judge_wire_list(run, site, doc, reqs, wires, exc, snippet, True, exc_detail)
    if not ok:
        return t, ok
    # ---- delta times: absolute tick of every message, exact ----
    run.cov["oracle_evaluations"] += len(reqs)
    gaps = [b - a for a, b in zip([0] + ticks_at, ticks_at)]
    unit = tpb or 480
    for g in gaps:
        run.dist("%s.gap-beats:%s" % (tag, "0" if g == 0 else "<1" if g < unit else "1..6" if g < 7 * unit else "7..19" if g < 20 * unit else "20..99" if g < 100 * unit else ">=100"))
    run.dist("%s.ticks_per_beat:%s" % (tag, tpb or "default"))
    why = None
    if tpb is not None and f.get("tpb") is not None and f["tpb"] != tpb:
        why = "the file header says %r ticks per beat, the device was set to %r" % (f["tpb"], tpb)
    elif any(type(m["time"]) is not int or m["time"] < 0 for m in msgs):
        why = "a delta time in the file is not a non-negative integer: %r" % [m["time"] for m in msgs][:12]
    else:
        at = 0
        for k, (m, want) in enumerate(zip(msgs, ticks_at)):
            at += m["time"]
            if at != want:
                why = ("message %d (%s%r) was requested after %d tick() calls, the file places it at tick %d (delta %d; "
                       "previous message at tick %d)" % (k, reqs[k][0], tuple(val(x) for x in reqs[k][1]), want, at, m["time"], at - m["time"]))
                break
    if why:
        run.violation({"kind": "file-wrong-tick", "site": site, "exc": None}, {
            "case": doc, "expected": {"absolute_ticks": ticks_at, "ticks_per_beat": tpb or "default"},
            "observed": {"deltas": [m["time"] for m in msgs], "file_ticks_per_beat": f.get("tpb"), "why": why},
            "oracle": "absolute tick of a message = number of tick() calls before the request (integers)", "python": snippet})
        return "false", False
    obs = lst(["(%s, %s)" % (zlit(m["time"]), zlist(m["bytes"])) for m in msgs])
    term = "(%s) && (let ops := %s in let obs := %s in file_agrees ops obs && file_ticks_agree ops obs)" % (t, lst(fops), obs)
    return term, True


def judge_file(run, cases, results):
    terms, meta = [], []
    for c, r in zip(cases, results):
        run.nontrivial("file " + json.dumps(c))
        run.dist("file.cases")
        ndev = c.get("ndev", 1)
        if ndev > 1:
            run.dist("file.cases-with-%d-devices-interleaved" % ndev)
        files = r.get("files") or [{"write": r["write"], "msgs": r["msgs"], "tpb": None}]
        snippet = file_snippet(c["ops"], ndev)
        for k in range(ndev):
            sel = [(op, e) for op, e in zip(c["ops"], r["calls"]) if (op[2] if len(op) > 2 else 0) == k]
            out = judge_file_device(run, "MidiFileOutputDevice", {"stratum": "file", "payload": c}, [o for o, _ in sel], [e for _, e in sel],
                                    files[k], r.get("supports") or {"note_on": True, "note_off": True}, snippet)
            if out is None:
                continue
            terms.append(out[0]); meta.append((c, r, out[1]))
        run.sample({"device": "MidiFileOutputDevice", "ops": c["ops"][:6], "messages_in_file": (r["msgs"] or [])[:4]}, limit=6)
    failing = run.coq_failing(HEADER, terms, chunk=60)
    run.cov["traces_validated_against_impl"] += len(terms) - len(failing)
    for i in failing:
        c, r, ok = meta[i]
        if ok:
            run.violation({"kind": "correspondence", "site": "MidiFileOutputDevice"}, {
                "broken": "correspondence model/implementation on the messages and delta times saved by MidiFileOutputDevice (C19_file_* no longer speak about this code)",
                "case": {"stratum": "file", "payload": c}, "observed": r, "coq_term": terms[i][:3000]}, found_input=False)


def timeline_requests(c):
    """the device requests a Timeline run of this event dictionary must make, in order"""
    ev = c["events"]
    n = max(len(v) for v in ev.values() if isinstance(v, list))
    col = lambda k, d: ev[k] if isinstance(ev.get(k), list) else [ev.get(k, d)] * n
    if "note" in ev:
        out = []
        for nt, amp, ch in zip(col("note", 60), col("amplitude", 64), col("channel", 0)):
            out += [("note_on", [nt, amp, ch]), ("note_off", [nt, ch])]
        return out
    if "control" in ev:
        return [("control", [k, v, ch]) for k, v, ch in zip(col("control", 0), col("value", 0), col("channel", 0))]
    if "program_change" in ev:
        return [("program_change", [p, ch]) for p, ch in zip(col("program_change", 0), col("channel", 0))]
    return [("send", [a, p]) for a, p in zip(col("osc_address", "/"), col("osc_params", []))]


def timeline_snippet(c):
    ev = ", ".join("%r: iso.PSequence(%s, 1)" % (k, "[" + ", ".join(pyrepr(x) if not isinstance(x, list) or (x and x[0] in ("np", "pat")) else "[" + ", ".join(pyrepr(y) for y in x) + "]" for x in v) + "]")
                   if isinstance(v, list) else "%r: %r" % (k, v) for k, v in c["events"].items())
    dev = {"midi": "MidiOutputDevice('fake')  # with mido.open_output replaced by a recording port",
           "file": "MidiFileOutputDevice('c19.mid')  # then dev.write() and read the file back with mido",
           "osc": "OSCOutputDevice('127.0.0.1', port)  # port of a bound UDP socket"}[c["device"]]
    if c.get("tpb"):
        dev += "\ndev.midifile.ticks_per_beat = %d" % c["tpb"]
    return ("import isobar as iso, numpy as np\nfrom isobar.io import *\ndev = %s\ntl = iso.Timeline(output_device=dev, clock_source=iso.DummyClock())\n"
            "tl.stop_when_done = True\ntl.schedule({%s})\ntl.run()" % (dev, ev))


def judge_timeline(run, cases, results):
    terms, meta = [], []
    for c, r in zip(cases, results):
        run.nontrivial("timeline " + json.dumps(c, sort_keys=True))
        run.dist("timeline.%s" % c["device"])
        reqs = timeline_requests(c)
        if c["device"] == "file":
            # requests the file device class does not implement itself (inherited no-ops) write nothing
            sup = r.get("supports") or {"note_on": True, "note_off": True}
            reqs = [q for q in reqs if sup.get(q[0])]
        doc = {"stratum": "timeline", "payload": c}
        if c["device"] in ("midi", "file"):
            exc = r["raise"] or r.get("write")
            wires = r.get("sent") if c["device"] == "midi" else (None if r.get("msgs") is None else [m["bytes"] for m in r["msgs"]])
            t, ok = judge_wire_list(run, "Timeline->%s" % ("MidiOutputDevice" if c["device"] == "midi" else "MidiFileOutputDevice"),
                                    doc, reqs, wires, exc, timeline_snippet(c), c["device"] == "file")
            if ok and c["device"] == "file" and r.get("log") is not None:
                # WHEN each request reached the file: the recording subclass logged every tick() and request the
                # Timeline made; the file must place each message at the tick count of its request
                log = ([["tpb", c["tpb"]]] if c.get("tpb") else []) + r["log"]
                out = judge_file_device(run, "Timeline->MidiFileOutputDevice", doc, log, [None] * len(log),
                                        {"write": r.get("write"), "msgs": r.get("msgs"), "tpb": r.get("tpb")},
                                        r.get("supports") or {"note_on": True, "note_off": True}, timeline_snippet(c), tag="timeline-file")
                if out is not None:
                    t, ok = "(%s) && (%s)" % (t, out[0]) if out[1] else "false", out[1]
        else:
            run.count(len(reqs))
            run.cov["oracle_evaluations"] += len(reqs)
            dg = [bytes.fromhex(h) for h in r["dgrams"]]
            ocs = [{"op": op, "args": a} for op, a in reqs]
            why = None
            if r["raise"]:
                why = "raised %s" % r["raise"]
            elif len(dg) != len(ocs):
                why = "%d datagrams received, %d requested" % (len(dg), len(ocs))
            else:
                for k, (oc, d) in enumerate(zip(ocs, dg)):
                    w = osc_oracle(oc, d)
                    if w:
                        why = "datagram %d: %s" % (k, w); break
            ok = why is None
            if why:
                run.violation({"kind": "osc-wrong-datagram" if not r["raise"] else "osc-raises", "site": "Timeline->OSCOutputDevice", "exc": r["raise"]}, {
                    "case": doc, "expected": [osc_request(oc) for oc in ocs], "observed": {"raise": r["raise"], "datagrams": r["dgrams"], "why": why},
                    "oracle": "OSC 1.0 parser", "python": timeline_snippet(c)})
                t = "false"
            else:
                t = "all2 dgram_agrees %s %s" % (lst([osc_msg_term(oc) for oc in ocs]), zll([list(d) for d in dg]))
        terms.append(t); meta.append((c, r, ok))
        run.sample({"timeline_on": c["device"], "events": c["events"], "wire": r.get("sent") or r.get("dgrams") or r.get("msgs")}, limit=8)
    failing = run.coq_failing(HEADER, terms, chunk=40)
    run.cov["traces_validated_against_impl"] += len(terms) - len(failing)
    for i in failing:
        c, r, ok = meta[i]
        if ok:
            run.violation({"kind": "correspondence", "site": "Timeline->" + c["device"]}, {
                "broken": "correspondence model/implementation on a Timeline run against the %s device" % c["device"],
                "case": {"stratum": "timeline", "payload": c}, "observed": r, "coq_term": terms[i][:3000]}, found_input=False)


# ---- generators -----------------------------------------------------------------------------------------
DATA_EDGE = [0, 1, 2, 63, 64, 65, 126, 127]
DATA_FLOAT = [0.0, 0.5, 0.99, 1.5, 63.5, 63.9, 64.999999, 126.5, 127.0, 127.5, 127.99, 127.99999999999999,
              -0.5, -0.99, 0.9999999999999999, 62.50000000000001, 1e-9]
DATA_BAD = [-1, 128, 129, 255, 256, -128, 128.0, -1.0, -1.5, 128.5, 1e6]
PITCH_EDGE = [-8192, -8191, -4096, -1, 0, 1, 63, 64, 127, 128, 4096, 8190, 8191]
PITCH_FLOAT = [-8192.9, -8191.5, -0.7, 0.7, 8191.9, 8190.5, 100.5, -100.5]
PITCH_BAD = [-8193, 8192, 8192.0, -8193.0, 16384, -20000]
CHAN_BAD = [16, -1, 16.0, -1.0, 17, 255, 16.5]


def gen_data(rng, allow_bad):
    x = rng.random()
    if x < 0.40:
        return rng.choice(DATA_EDGE)
    if x < 0.62:
        return rng.randint(0, 127)
    if x < 0.78:
        return rng.choice(DATA_FLOAT)
    if x < 0.90:
        return rng.randint(0, 127) + rng.choice([0.5, 0.75, 0.999, rng.random() * 0.5 + 0.5, rng.random()])
    if x < 0.95:
        return ["np", rng.choice(["int64", "int32", "float64"]), rng.randint(0, 127)] if rng.random() < 0.6 else ["np", "float64", rng.randint(0, 127) + 0.9]
    return rng.choice(DATA_BAD) if allow_bad else rng.choice(DATA_EDGE)


def gen_pitch(rng, allow_bad):
    x = rng.random()
    if x < 0.4:
        return rng.choice(PITCH_EDGE)
    if x < 0.7:
        return rng.randint(-8192, 8191)
    if x < 0.8:
        return rng.choice(PITCH_FLOAT)
    if x < 0.93:
        return rng.randint(-8191, 8190) + rng.choice([0.5, 0.9, rng.random()])
    return rng.choice(PITCH_BAD) if allow_bad else 0


def gen_chan(rng, allow_bad):
    x = rng.random()
    if x < 0.80:
        return rng.randint(0, 15)
    if x < 0.93:
        return rng.randint(0, 15) + rng.choice([0.5, 0.7, 0.99])
    if x < 0.96:
        return ["np", "int64", rng.randint(0, 15)]
    return rng.choice(CHAN_BAD) if allow_bad else 15


def gen_midi_case(rng, ops=None, allow_bad=True):
    op = rng.choice(ops or ["note_on"] * 8 + ["note_off"] * 3 + ["control"] * 4 + ["program_change"] * 2 + ["pitch_bend"] * 2 + ["aftertouch"])
    bad_slot = rng.randrange(ARITY[op]) if allow_bad and rng.random() < 0.12 else None
    args = []
    for k in range(ARITY[op]):
        ab = bad_slot == k
        if k == ARITY[op] - 1:
            a = gen_chan(rng, ab) if not ab else rng.choice(CHAN_BAD)
        elif op == "pitch_bend":
            a = gen_pitch(rng, ab) if not ab else rng.choice(PITCH_BAD)
        else:
            a = gen_data(rng, ab) if not ab else rng.choice(DATA_BAD)
        args.append(a)
    c = {"op": op, "args": args}
    if rng.random() < 0.15:
        c["kw"] = True
    return c


OSC_INTS = [0, 1, -1, 60, 64, 127, 128, 255, 256, 65535, 65536, 16777215, 16777216, 2 ** 31 - 1, -(2 ** 31 - 1), -128, -256, -65536, 0x7F000000, 0x00FF00FF]
OSC_FLOATS = [0.0, -0.0, 0.5, 1.0, -1.0, 0.1, 63.9, 127.5, 440.0, 1e10, -1e-10, 3.4028234663852886e+38, 1.17549435e-38, 1e-45, 16777217.0, 0.30000000000000004]
ALNUM = "abcdefghijklmnopqrstuvwxyzABCDEFGHIJKLMNOPQRSTUVWXYZ0123456789_-"


def gen_osc_string(rng):
    n = rng.choice([0, 1, 2, 3, 4, 5, 6, 7, 8, 9, 11, 12, 13, 16, 31])
    s = "".join(rng.choice(ALNUM + " /.,#*") for _ in range(n))
    if rng.random() < 0.08:
        s += rng.choice(["\u00e9", "\u266a", "\u00fc"])
    return s


def gen_osc_arg(rng):
    x = rng.random()
    if x < 0.22:
        return rng.choice(OSC_INTS)
    if x < 0.40:
        return rng.randint(-(2 ** 31 - 1), 2 ** 31 - 1) if rng.random() < 0.5 else rng.randint(-300, 300)
    if x < 0.55:
        return rng.choice(OSC_FLOATS)
    if x < 0.70:
        return rng.choice([rng.uniform(-1, 1), rng.uniform(-1e6, 1e6), rng.randint(0, 127) + 0.9])
    if x < 0.95:
        return gen_osc_string(rng)
    return ["pat", rng.choice([rng.randint(-1000, 1000), rng.uniform(0, 1), gen_osc_string(rng)])]


def gen_osc_addr(rng):
    segs = rng.randint(1, 3)
    return "".join("/" + "".join(rng.choice(ALNUM) for _ in range(rng.choice([1, 2, 3, 4, 5, 6, 7, 10]))) for _ in range(segs))


def gen_osc_case(rng):
    x = rng.random()
    num = lambda: rng.choice([rng.choice(DATA_EDGE), rng.randint(0, 127), rng.randint(0, 127) + rng.choice([0.5, 0.9, 0.25])]) if rng.random() < 0.9 else rng.choice([63.9, 0.5, 100.75])
    ch = lambda: rng.randint(0, 15)
    if x < 0.2:
        return {"op": "note_on", "args": [num(), num(), ch()]}
    if x < 0.32:
        return {"op": "note_off", "args": [num(), ch()]}
    if x < 0.47:
        return {"op": "control", "args": [num(), num(), ch()]}
    y = rng.random()
    params = "absent" if y < 0.04 else None if y < 0.08 else [gen_osc_arg(rng) for _ in range(rng.choice([0, 1, 1, 2, 3, 3, 4, 5, 8, 13]))]
    return {"op": "send", "args": [gen_osc_addr(rng), params]}


def gen_mpe_seq(rng, length, cap, malformed=False):
    """well-formed call sequence: never more than `cap` (<= 15) notes held, note_on only for notes that are up,
    release only of notes that are down; expression calls also on released notes (stale handle: silent).
    malformed=True adds note_off calls for notes that are not down (nothing may reach the wire)."""
    held, released, seq = [], [], []
    pitches = list(range(rng.choice([0, 30, 100]), 128))
    while len(seq) < length:
        x = rng.random()
        fill = len(held) / cap
        if (x < 0.45 - 0.25 * fill or not held) and len(held) < cap:
            n = rng.choice(pitches)
            if n in held:
                continue
            seq.append([0, n, rng.choice([1, 64, 127, rng.randint(1, 127)])])
            held.append(n)
            if n in released:
                released.remove(n)
        elif x < 0.75 and held:
            # release in an order unrelated to the press order
            n = held.pop(rng.randrange(len(held))) if rng.random() < 0.8 else held.pop(0)
            seq.append([rng.choice([1, 5]), n])
            released.append(n)
        elif held or released:
            pool = held if (held and (rng.random() < 0.85 or not released)) else released
            n = rng.choice(pool)
            k = rng.choice([2, 3, 4])
            seq.append([2, n, rng.choice([-8192, 8191, 0, rng.randint(-8192, 8191)])] if k == 2 else
                       [3, n, rng.randint(0, 127)] if k == 3 else [4, n, rng.choice([74, 1, rng.randint(0, 127)]), rng.randint(0, 127)])
        if malformed and rng.random() < 0.1:
            n = rng.choice(pitches)
            if n not in held:
                seq.append([1, n])
    return seq[:length]


def gen_file_case(rng, allow_float=True):
    ops, down = [], []
    for _ in range(rng.randint(2, 14)):
        x = rng.random()
        if x < 0.25:
            ops.append(["tick", rng.choice([0, 1, 1, 3, 24, 120, 480])])
        elif x < 0.7 or not down:
            c = gen_midi_case(rng, ["note_on"], allow_bad=False)
            if not allow_float:
                c["args"] = [trunc0(val(a)) for a in c["args"]]
            ops.append(["note_on", c["args"]])
            down.append((c["args"][0], c["args"][2]))
        else:
            n, ch = down.pop(rng.randrange(len(down)))
            ops.append(["note_off", [n, ch]])
    return {"ops": ops}


# ---- time passes between two messages: long gaps, several resolutions, many short events ----------------
FILE_TPB = [None, None, 480, 24, 96, 120, 192, 240, 384, 960, 1000, 7, 10080]
GAP_BEATS = [7, 8, 13, 20, 21, 32, 50, 64, 100, 128, 250]


def gen_file_request(rng, down, dev=None):
    """one request for a file device; `down` tracks the notes that are on"""
    x = rng.random()
    if x < 0.40 or (x < 0.62 and not down):
        c = gen_midi_case(rng, ["note_on"], allow_bad=False)
        down.append((c["args"][0], c["args"][2]))
        op = ["note_on", c["args"]]
    elif x < 0.62:
        n, ch = down.pop(rng.randrange(len(down)))
        op = ["note_off", [n, ch]]
    elif x < 0.74:
        op = ["control", gen_midi_case(rng, ["control"], allow_bad=False)["args"]]
    elif x < 0.84:
        op = ["program_change", gen_midi_case(rng, ["program_change"], allow_bad=False)["args"]]
    elif x < 0.92:
        op = ["pitch_bend", gen_midi_case(rng, ["pitch_bend"], allow_bad=False)["args"]]
    else:
        # a request mido rejects: nothing may be written and the messages around it keep their ticks
        op = ["note_on", [rng.choice([128, -1, 300]), rng.randint(1, 127), rng.randint(0, 15)]] if rng.random() < 0.6 else \
             ["note_on", [rng.randint(0, 127), rng.randint(1, 127), rng.choice([16, -1, 99])]]
    return op if dev is None else op + [dev]


def gen_gap(rng, tpb, budget):
    """a gap in ticks: long (>= 7 beats, the stride at which a lossy running time shows), around whole beats, or short"""
    unit = tpb or 480
    x = rng.random()
    if x < 0.55:
        g = rng.choice(GAP_BEATS) * unit + rng.choice([0, 0, 0, 1, -1, unit // 2, rng.randrange(unit)])
    elif x < 0.7:
        g = rng.randint(7 * unit, 40 * unit)
    elif x < 0.85:
        g = rng.choice([0, 1, 2, 3, unit - 1, unit, unit + 1, 4 * unit])
    else:
        g = rng.randint(0, 6 * unit)
    return max(0, min(g, budget))


def gen_file_gap_case(rng, ndev=1):
    """requests of every kind on a file device (or several, interleaved), at one of several resolutions, with LONG
    silences between consecutive messages"""
    ops, down, budget = [], [[] for _ in range(ndev)], 260000
    tpbs = [rng.choice(FILE_TPB) for _ in range(ndev)]
    tag = (lambda op, k: op + [k]) if ndev > 1 else (lambda op, k: op)
    for k, t in enumerate(tpbs):
        if t is not None:
            ops.append(tag(["tpb", t], k))
    for _ in range(rng.randint(3, 9)):
        k = rng.randrange(ndev)
        if rng.random() < 0.85:
            g = gen_gap(rng, tpbs[k], budget)
            budget -= g
            ops.append(tag(["tick", g], k))
        for _ in range(rng.choice([1, 1, 1, 2, 3])):
            ops.append(gen_file_request(rng, down[k], k if ndev > 1 else None))
    if rng.random() < 0.7:
        k = rng.randrange(ndev)
        ops.append(tag(["tick", gen_gap(rng, tpbs[k], budget)], k))         # trailing silence before write()
    c = {"ops": ops}
    if ndev > 1:
        c["ndev"] = ndev
    return c


def gen_file_dense_case(rng):
    """many requests a few ticks apart (a running time that loses a little per event or per tick shows as drift)"""
    tpb = rng.choice([None, 96, 120, 480, 960, 7])
    unit = tpb or 480
    ops, down = ([["tpb", tpb]] if tpb else []), []
    for _ in range(rng.randint(60, 160)):
        ops.append(["tick", rng.choice([0, 1, 1, 2, 3, 5, unit // 3, unit // 4, unit // 2, unit, rng.randrange(2 * unit)])])
        ops.append(gen_file_request(rng, down))
    return {"ops": ops}


# ---- histories of OSC requests that are equal under == but differ in type ----------------------------------
OSCH_NUMS = [0, 1, 2, 3, 7, 60, 64, 100, 127, 128, 440, 880, 1000, -1, -2, 65536, 16777216]


def typed_variants(n, strings=True, bools=False):
    v = [n, float(n)]
    if n == 0:
        v.append(-0.0)
    if strings:
        v += [str(n), str(float(n))]
    if bools and n in (0, 1):
        v.append(bool(n))
    return v


def gen_osc_history(rng):
    """2..8 requests to ONE address whose argument lists are mostly equal under Python's == (2, 2.0, "2", True/1)
    but differ in type, with exact repeats in between; through send(), note_on/note_off or control; optionally spread
    over two device instances"""
    x = rng.random()
    ndev = 2 if rng.random() < 0.25 else 1
    n_msgs = rng.randint(2, 8)
    if x < 0.5:
        addr = gen_osc_addr(rng) if rng.random() < 0.8 else rng.choice(["/note", "/control"])
        base = [rng.choice(OSCH_NUMS) if rng.random() < 0.8 else gen_osc_string(rng) for _ in range(rng.choice([1, 1, 2, 3, 3, 4]))]
        bools = rng.random() < 0.3
        var = lambda b: typed_variants(b, True, bools) if isinstance(b, int) else [b]
        mk = lambda vals: {"op": "send", "args": [addr, list(vals)]}
    elif x < 0.75:
        base = [rng.randint(0, 127), rng.randint(1, 127), rng.randint(0, 15)]
        var = lambda b: typed_variants(b, False)
        def mk(vals):
            y = rng.random()
            if y < 0.6:
                return {"op": "note_on", "args": list(vals)}
            if y < 0.75:
                return {"op": "note_off", "args": [vals[0], vals[2]]}
            return {"op": "send", "args": ["/note", list(vals)]}
    else:
        base = [rng.randint(0, 127), rng.randint(0, 127), rng.randint(0, 15)]
        var = lambda b: typed_variants(b, False)
        mk = lambda vals: {"op": "control", "args": list(vals)} if rng.random() < 0.8 else {"op": "send", "args": ["/control", list(vals)]}
    msgs, cur = [], [rng.choice(var(b)) for b in base]
    for i in range(n_msgs):
        if i:
            y = rng.random()
            if y < 0.65:
                k = rng.randrange(len(base))
                alt = [v for v in var(base[k]) if type(v) is not type(cur[k])] or var(base[k])
                cur = cur[:k] + [rng.choice(alt)] + cur[k + 1:]
            elif y < 0.8:
                pass                                   # the very same request again: it must be sent again
            else:
                cur = [rng.choice(var(b)) for b in base]
        m = mk(cur)
        if ndev > 1:
            m["dev"] = rng.randrange(ndev)
        msgs.append(m)
    h = {"msgs": msgs}
    if ndev > 1:
        h["ndev"] = ndev
    return h


def gen_midi_history(rng, n):
    """requests for ONE MidiOutputDevice in which a request is often repeated unchanged or re-typed (60 / 60.0 / 60.9 /
    numpy) right after itself: every one of them must reach the port"""
    out, prev = [], None
    for _ in range(n):
        y = rng.random()
        if prev is None or y < 0.35:
            c = gen_midi_case(rng, allow_bad=False)
        elif y < 0.7:
            c = json.loads(json.dumps(prev))
        else:
            c = json.loads(json.dumps(prev))
            k = rng.randrange(len(c["args"]))
            v = trunc0(val(c["args"][k]))
            c["args"][k] = rng.choice([v, float(v), v + 0.9 if v >= 0 else v - 0.9, ["np", "int64", v], ["np", "float64", float(v)]])
        c.pop("kw", None)
        out.append(c)
        prev = c
    return out


def gen_timeline_case(rng, device, kind):
    n = rng.randint(1, 6)
    if kind == "note":
        fl = device != "osc"
        data = lambda: gen_data(rng, False) if fl else rng.choice([rng.randint(0, 127), rng.randint(0, 126) + 0.5])
        amp = lambda: max(1, val(data())) if rng.random() < 0.9 else rng.randint(1, 126) + 0.9
        return {"device": device, "events": {"note": [data() if rng.random() < 0.8 else rng.randint(0, 127) for _ in range(n)],
                                             "amplitude": [amp() for _ in range(n)],
                                             "channel": [rng.randint(0, 15) for _ in range(n)], "duration": 1, "gate": 0.5}}
    if kind == "control":
        return {"device": device, "events": {"control": [rng.randint(0, 127) for _ in range(n)],
                                             "value": [rng.choice([rng.randint(0, 127), rng.randint(0, 126) + 0.9]) for _ in range(n)],
                                             "channel": [rng.randint(0, 15) for _ in range(n)], "duration": 1}}
    if kind == "program":
        return {"device": device, "events": {"program_change": [rng.randint(0, 127) for _ in range(n)],
                                             "channel": [rng.randint(0, 15) for _ in range(n)], "duration": 1}}
    if kind == "osc-typed":
        h = gen_osc_history(rng)
        while h["msgs"][0]["op"] != "send" or any(has_bool(m) for m in h["msgs"]):
            h = gen_osc_history(rng)
        sends = [m for m in h["msgs"] if m["op"] == "send"]
        return {"device": device, "events": {"osc_address": sends[0]["args"][0], "osc_params": [m["args"][1] for m in sends], "duration": 1}}
    if kind in ("long-note", "long-control", "long-program"):
        # the same events, with LONG durations (>= 7 beats between consecutive messages) and the file device at one of
        # several resolutions the Timeline's clock can drive (divisors / multiples of its 480 ticks per beat)
        n = rng.randint(2, 4)
        durs = [rng.choice([7, 8, 13, 20, 21, 33]) for _ in range(n)]
        if rng.random() < 0.5:
            durs[rng.randrange(n)] = rng.choice([50, 64, 100])
        base = gen_timeline_case(rng, device, kind[5:])
        ev = {k: ((v * n)[:n] if isinstance(v, list) else v) for k, v in base["events"].items()}
        ev["duration"] = durs
        if kind == "long-note":
            ev["gate"] = rng.choice([0.5, 1.0, 0.25, 0.95])
        c = {"device": device, "events": ev}
        t = rng.choice([None, 24, 96, 120, 240, 960])
        if t:
            c["tpb"] = t
        return c
    return {"device": device, "events": {"osc_address": [gen_osc_addr(rng) for _ in range(n)],
                                         "osc_params": [[gen_osc_arg(rng) for _ in range(rng.randint(0, 5))] for _ in range(n)], "duration": 1}}


# ---- MPE over ALL call sequences: note identity (a pitch struck again while held, releases of pitches that are not held,
# more than 15 notes asked for, stale handles) ----------------------------------------------------------------------
# Oracle from the property text: "every simultaneously sounding note a channel of its own and frees it on release".  A
# sounding note is a VOICE = the note_on call that started it (the handle that call returned).  Model: IO/MpeVoices.v.
def mpev_oracle(seq, res):
    """-> list of (index, what, detail): the first offence of each kind.  After an offence the oracle goes on with what
    is on the wire (a voice whose release was not sent is still sounding)."""
    sounding = {}            # voice id -> (pitch, channel)
    shadowed = set()         # voices whose pitch was struck again while they sounded
    bad, seen = [], set()
    nons = 0

    def report(i, what, detail):
        if what not in seen:
            seen.add(what)
            bad.append((i, what, detail))

    for i, (c, r) in enumerate(zip(seq, res)):
        k, sent = c[0], r["sent"]
        if k == 0:
            vid, nons = nons, nons + 1
            n, v = c[1], c[2]
            if len(sounding) >= 15:
                if sent:                       # outside the quantifier (up to 15 held); but nothing may land on a sounding note
                    b = sent[0]
                    clash = [w for w, (p, ch) in sounding.items() if len(b) == 3 and ch == (b[0] & 0x0F)]
                    if clash:
                        report(i, "note-on-on-occupied-channel", "note_on(%d, %d) with 15 voices sounding went out on channel %d, where voice %d (pitch %d) sounds"
                               % (n, v, b[0] & 0x0F, clash[0], sounding[clash[0]][0]))
                continue
            if r["none"] or r["raise"] or not sent:
                report(i, "note-on-dropped", "note_on(%d, %d) with %d voices sounding sent nothing (returned None: %s, raised: %s)" % (n, v, len(sounding), r["none"], r["raise"]))
                continue
            b = sent[0]
            if len(sent) != 1 or len(b) != 3 or b[0] & 0xF0 != 0x90 or b[1:] != [n, v]:
                report(i, "note-on-wrong-message", "note_on(%d, %d) sent %r" % (n, v, sent))
                continue
            ch = b[0] & 0x0F
            if not 1 <= ch <= 15:
                report(i, "note-on-wrong-message", "note_on(%d) went out on channel %d (member channels are 1..15)" % (n, ch))
            clash = [w for w, (p, wc) in sounding.items() if wc == ch]
            if clash:
                report(i, "note-on-on-occupied-channel", "note_on(%d, %d) (voice %d) was given channel %d, on which voice %d (pitch %d, struck by call %s and not released) is sounding"
                       % (n, v, vid, ch, clash[0], sounding[clash[0]][0], [j for j, cc in enumerate(seq[:i]) if cc[0] == 0][clash[0]]))
            if r["chan"] is not None and r["chan"] != ch:
                report(i, "note-on-wrong-message", "the returned MPENote says channel %r, the message went out on %d" % (r["chan"], ch))
            for w, (p, wc) in sounding.items():
                if p == n:
                    shadowed.add(w)
            sounding[vid] = (n, ch)
        elif k == 1:
            n = c[1]
            cands = [w for w, (p, ch) in sounding.items() if p == n]
            if not cands:
                if sent:
                    report(i, "release-of-silent-pitch-sends", "note_off(%d) while no voice of that pitch sounds sent %r" % (n, sent))
                continue
            ok = [w for w in cands if r["raise"] is None and len(sent) == 1 and bytes_match([0x80 | sounding[w][1], n, None], sent[0])]
            if not ok:
                restruck = any(w in shadowed for w in cands) or len(cands) > 1
                report(i, "release-misdirected-after-restrike" if restruck else "release-wrong",
                       "device.note_off(%d): voices %r of that pitch sound on channels %r; sent %r (raised: %s)" % (n, cands, [sounding[w][1] for w in cands], sent, r["raise"]))
                # what is on the wire: a note_off of this pitch on some channel silences the voice there, if any
                for b in sent:
                    for w, (p, ch) in list(sounding.items()):
                        if len(b) == 3 and b[0] == (0x80 | ch) and b[1] == p:
                            del sounding[w]; shadowed.discard(w)
                continue
            del sounding[ok[-1]]; shadowed.discard(ok[-1])
        else:
            vid = c[1]
            if vid not in sounding:
                if sent and k != 5:
                    report(i, "expression-after-release", "expression call %r on a voice that does not sound sent %r" % (c, sent))
                elif sent and k == 5:
                    # a stale handle released something: which voice did it silence?
                    hit = [w for w, (p, ch) in sounding.items() for b in sent if len(b) == 3 and b[0] == (0x80 | ch) and b[1] == p]
                    report(i, "release-misdirected-after-restrike" if hit and any(w in shadowed or sounding[w][0] in [sounding[x][0] for x in sounding if x != w] for w in hit) else "stale-handle-sends",
                           "handle %d .note_off() (its voice does not sound) sent %r" % (vid, sent))
                    for w in hit:
                        del sounding[w]; shadowed.discard(w)
                continue
            p, ch = sounding[vid]
            if k == 5:
                if r["raise"] is None and len(sent) == 1 and bytes_match([0x80 | ch, p, None], sent[0]):
                    del sounding[vid]; shadowed.discard(vid)
                    continue
                same = [w for w, (pp, _) in sounding.items() if pp == p and w != vid]
                restruck = vid in shadowed or bool(same)
                report(i, "release-misdirected-after-restrike" if restruck else "release-wrong",
                       "handle %d .note_off(): its voice (pitch %d) sounds on channel %d%s; sent %r (raised: %s)" % (
                           vid, p, ch, (", the pitch was struck again (voices %r) while it sounded" % same) if restruck else "", sent, r["raise"]))
                for b in sent:
                    for w, (pp, wc) in list(sounding.items()):
                        if len(b) == 3 and b[0] == (0x80 | wc) and b[1] == pp:
                            del sounding[w]; shadowed.discard(w)
                continue
            if k == 2:
                x = c[2] + 8192
                exp = [0xE0 | ch, x & 0x7F, x >> 7]
            elif k == 3:
                exp = [0xD0 | ch, c[2]]
            else:
                exp = [0xB0 | ch, c[2], c[3]]
            if r["raise"] or len(sent) != 1 or not bytes_match(exp, sent[0]):
                same = [w for w, (pp, _) in sounding.items() if pp == p and w != vid]
                report(i, "expression-wrong" if not (vid in shadowed or same) else "expression-lost-after-restrike",
                       "expression call %r for voice %d (pitch %d, channel %d) sent %r (raised: %s)" % (c, vid, p, ch, sent, r["raise"]))
    return bad


def mpev_snippet(seq):
    lines = ["import mido", "class P:", "    name='fake'", "    def send(self, m): print('  ', m)",
             "mido.open_output = lambda *a, **k: P()", "from isobar.io.mpe.output import MPEOutputDevice",
             "d = MPEOutputDevice('fake'); h = []", "def t(f, *a):", "    try: return f(*a)", "    except Exception as e: print('   raises', type(e).__name__, e)"]
    for c in seq:
        k = c[0]
        if k == 0:
            lines.append("print('note_on(%d, %d) -> handle', len(h)); h.append(t(d.note_on, %d, %d))" % (c[1], c[2], c[1], c[2]))
        elif k == 1:
            lines.append("print('device.note_off(%d)'); t(d.note_off, %d)" % (c[1], c[1]))
        else:
            m = {5: "note_off", 2: "pitch_bend", 3: "aftertouch", 4: "control"}[k]
            lines.append("print('handle %d .%s%r'); h[%d] is not None and t(h[%d].%s, %s)" % (c[1], m, tuple(c[2:]), c[1], c[1], m, ", ".join(str(x) for x in c[2:])))
    return "\n".join(lines)


KNOWN_WHATS = ("release-misdirected-after-restrike",)


def judge_mpev(run, seqs, results):
    terms, meta = [], []
    for seq, res in zip(seqs, results):
        run.count(len(seq))
        run.cov["oracle_evaluations"] += len(seq)
        run.nontrivial("mpev " + json.dumps(seq))
        run.dist("mpev.sequences")
        run.dist("mpev.calls", len(seq))
        # strata actually reached by this sequence
        snd, nons, marks = {}, 0, set()
        for c in seq:
            if c[0] == 0:
                if len(snd) >= 15:
                    marks.add("note_on with 15 voices sounding")
                else:
                    if c[1] in snd.values():
                        marks.add("pitch struck again while held")
                    snd[nons] = c[1]
                    if "pitch struck again while held" in marks and len(set(snd.values())) < len(snd):
                        marks.add("... then a further note_on before a release")
                nons += 1
            elif c[0] == 1:
                ws = [w for w, p in snd.items() if p == c[1]]
                if not ws:
                    marks.add("device.note_off of a pitch that is not held")
                else:
                    if len(ws) > 1:
                        marks.add("device.note_off of a doubled pitch")
                    del snd[ws[-1]]
            elif c[0] == 5:
                if c[1] in snd:
                    if sum(1 for p in snd.values() if p == snd[c[1]]) > 1:
                        marks.add("handle release of one voice of a doubled pitch")
                    del snd[c[1]]
                else:
                    marks.add("stale handle")
        for mk in marks:
            run.dist("mpev." + mk)
        bad = mpev_oracle(seq, res)
        first_bad = min([b[0] for b in bad], default=len(seq))
        for i, what, detail in bad:
            small = seq[:i + 1]
            run.violation({"kind": "mpe-voices", "site": "MPEOutputDevice", "what": what}, {
                "case": {"stratum": "mpev", "payload": small},
                "expected": "every simultaneously sounding note (voice = one note_on call / one MPENote handle) on a channel of its own in 1..15; "
                            "a release goes out on the released voice's channel and frees it; the same pitch may be held by several voices",
                "observed": {"failing_call_index": i, "call": seq[i], "detail": detail, "wire_of_last_calls": [r["sent"] for r in res[max(0, i - 4):i + 1]]},
                "oracle": "voice tracker (note identity)", "python": mpev_snippet(small if len(small) <= 60 else small[-60:])})
        # the model is compared on the calls before the first offence (afterwards the wire has diverged from what is demanded)
        cut = first_bad
        terms.append("voices_agree %s %s" % (zll(seq[:cut]), lst([zll(r["sent"]) for r in res[:cut]])))
        meta.append((seq[:cut], res[:cut]))
        run.sample({"device": "MPEOutputDevice", "calls(first 8) [0 on,1 device off,5 handle off,2 bend,3 touch,4 ctl; handles by note_on index]": seq[:8],
                    "wire(first 8)": [r["sent"] for r in res[:8]]}, limit=3)
    failing = run.coq_failing(HEADER_VOICES, terms, chunk=4, jobs=12)
    run.cov["traces_validated_against_impl"] += sum(len(meta[i][0]) for i in range(len(terms)) if i not in failing)
    for i in failing:
        seq, res = meta[i]
        at = run.coq_eval(HEADER_VOICES, "voices_first_diff %s %s" % (zll(seq), lst([zll(r["sent"]) for r in res])))
        run.violation({"kind": "correspondence", "site": "MPEOutputDevice(voices)"}, {
            "broken": "correspondence model/implementation on the MPE allocator with note identity (IO/MpeVoices.v; C19_mpe_voices* no longer speak about this code)",
            "case": {"stratum": "mpev", "payload": seq}, "first_differing_call": at, "python": mpev_snippet(seq[:60])}, found_input=False)


def gen_mpev_seq(rng, length, shape):
    """legal call sequences that are NOT well-formed in the sense of mpe_wf: pitches struck again while held, releases of
    pitches that are not held, note_ons beyond 15 voices, stale handles.  shape: 'unison' (few pitches, many re-strikes),
    'chords' (doubled chord notes), 'full' (pushes beyond 15 voices), 'mixed'."""
    seq, snd, nons = [], {}, 0            # snd: voice id -> pitch
    released = []
    pool = {"unison": [60, 60, 60, 64, 67], "chords": [48, 55, 60, 62, 64, 67, 72], "full": list(range(30, 100)),
            "mixed": [rng.randint(0, 127) for _ in range(6)]}[shape]
    cap = {"unison": rng.choice([3, 6, 15]), "chords": rng.choice([6, 10, 15]), "full": 18, "mixed": rng.choice([4, 15, 17])}[shape]
    while len(seq) < length:
        x = rng.random()
        fill = len(snd) / cap
        if (x < 0.5 - 0.3 * fill or not snd) and len(snd) < cap:
            if shape == "chords" and rng.random() < 0.5:
                ps = rng.sample(pool, rng.randint(2, 4))
                ps.append(rng.choice(ps))                       # the doubled note
            else:
                ps = [rng.choice(pool)]
            for p in ps:
                seq.append([0, p, rng.randint(1, 127)])
                if len(snd) < 15:
                    snd[nons] = p
                nons += 1
        elif x < 0.62 and snd:                                   # device.note_off of a pitch (most recent voice of it)
            p = rng.choice(list(snd.values()))
            w = [v for v, q in snd.items() if q == p][-1]
            seq.append([1, p]); del snd[w]; released.append(w)
        elif x < 0.80 and snd:                                   # release through a handle, in any order
            w = rng.choice(list(snd))
            seq.append([5, w]); del snd[w]; released.append(w)
        elif x < 0.84:                                           # a pitch that is not held
            p = rng.choice([q for q in range(128) if q not in snd.values()])
            seq.append([1, p])
        elif x < 0.88 and released:                              # a stale handle
            kk, w = rng.choice([5, 2, 3]), rng.choice(released)
            seq.append([5, w] if kk == 5 else [kk, w, rng.randint(0, 127)])
        elif snd or released:
            w = rng.choice(list(snd) if snd and (rng.random() < 0.85 or not released) else released)
            kk = rng.choice([2, 3, 4])
            seq.append([2, w, rng.randint(-8192, 8191)] if kk == 2 else [3, w, rng.randint(0, 127)] if kk == 3 else [4, w, rng.choice([74, 1, 11]), rng.randint(0, 127)])
    return seq[:length]


# ---- several device objects alive in one process, interleaved calls -----------------------------------------------
# The dimension: the state of a device object must be ITS state.  k devices (MPE / MIDI port / OSC, each on its own fake
# port or socket) created up-front or lazily (after other devices have been used, even dropped with notes held), calls
# interleaved in bursts.  Judged per device on its OWN call subsequence (oracle: the single-device oracles; model:
# IO/MultiDevice.v, the product of independent machines, C19_multi_noninterference / C19_mpe_multi), plus: nothing may
# reach the port or socket of another device.
HEADER_MULTI = HEADER + "From Isobar Require Import IO.MultiDevice.\n"
HEADER_VOICES = HEADER + "From Isobar Require Import IO.MpeVoices.\n"
DEVCLASS = {"mpe": "MPEOutputDevice", "midi": "MidiOutputDevice", "osc": "OSCOutputDevice"}


def multi_snippet(case):
    lines = ["import mido, socket", "class P:", "    name = 'fake'; owner = None",
             "    def send(self, m): print('   port of device', self.owner, 'received', m.bytes())",
             "mido.open_output = lambda *a, **k: P()",
             "from isobar.io.mpe.output import MPEOutputDevice", "from isobar.io.midi.output import MidiOutputDevice",
             "from isobar.io.osc.output import OSCOutputDevice", "dev, h, sock = {}, {}, {}",
             "def make(d, kind):",
             "    if kind == 'osc':",
             "        sock[d] = socket.socket(socket.AF_INET, socket.SOCK_DGRAM); sock[d].bind(('127.0.0.1', 0)); sock[d].settimeout(0.2)",
             "        dev[d] = OSCOutputDevice('127.0.0.1', sock[d].getsockname()[1])",
             "    else:",
             "        dev[d] = (MPEOutputDevice if kind == 'mpe' else MidiOutputDevice)('fake'); dev[d].midi.owner = d",
             "    h[d] = {}"]
    made = set()
    if not case.get("lazy"):
        for d, k in enumerate(case["devs"]):
            lines.append("make(%d, %r)" % (d, k)); made.add(d)
    for d, c in case["calls"]:
        if d not in made:
            lines.append("make(%d, %r)      # created now, after the calls above" % (d, case["devs"][d])); made.add(d)
        k = case["devs"][d]
        if k == "mpe":
            kk = c[0]
            if kk == 0:
                lines.append("print('device %d note_on(%d, %d)'); h[%d][%d] = dev[%d].note_on(%d, %d)" % (d, c[1], c[2], d, c[1], d, c[1], c[2]))
            elif kk == 1:
                lines.append("print('device %d note_off(%d)'); dev[%d].note_off(%d)" % (d, c[1], d, c[1]))
            elif kk == 5:
                lines.append("print('device %d handle(%d).note_off()'); h[%d][%d].note_off()" % (d, c[1], d, c[1]))
            elif kk == 2:
                lines.append("print('device %d handle(%d).pitch_bend(%d)'); h[%d][%d].pitch_bend(%d)" % (d, c[1], c[2], d, c[1], c[2]))
            elif kk == 3:
                lines.append("print('device %d handle(%d).aftertouch(%d)'); h[%d][%d].aftertouch(%d)" % (d, c[1], c[2], d, c[1], c[2]))
            else:
                lines.append("print('device %d handle(%d).control(%d, %d)'); h[%d][%d].control(%d, %d)" % (d, c[1], c[2], c[3], d, c[1], c[2], c[3]))
        elif k == "midi":
            lines.append("print('device %d %s'); dev[%d].%s(%s)" % (d, c["op"], d, c["op"], ", ".join(pyrepr(x) for x in c["args"])))
        else:
            call = osc_snippet(c).splitlines()[-2].replace("d.", "dev[%d]." % d, 1)
            lines.append("print('device %d', %r); %s; print('   socket of device %d received', sock[%d].recv(65536))" % (d, call, call, d, d))
    return "\n".join(lines)


def judge_multi(run, cases, results):
    terms, meta = [], []
    for case, res in zip(cases, results):
        run.nontrivial("multi " + json.dumps(case, sort_keys=True))
        run.dist("multi.cases")
        run.dist("multi.%s" % case.get("stratum", "?"))
        run.dist("multi.devices=%d" % len(case["devs"]))
        run.dist("multi.created-%s" % ("lazily (after other devices were used)" if case.get("lazy") else "up-front"))
        run.dist("multi.calls", len(case["calls"]))
        per = {}
        for i, ((d, c), r) in enumerate(zip(case["calls"], res)):
            per.setdefault(d, []).append((i, c, r))
        bad = None            # (index in the interleaved sequence, kind, site, detail)
        for i, ((d, c), r) in enumerate(zip(case["calls"], res)):
            run.count()
            if r.get("stray"):
                bad = (i, "multi-stray-message", DEVCLASS[case["devs"][d]],
                       "call %d on device %d put %r on the port/socket of device %d" % (i, d, r["stray"][0][1], r["stray"][0][0]))
                break
        for d, items in sorted(per.items()):
            kind = case["devs"][d]
            run.cov["oracle_evaluations"] += len(items)
            if kind == "mpe":
                seq = [c for _, c, _ in items]
                b = mpe_oracle(seq, [r for _, _, r in items])
                if b and (bad is None or items[b[0]][0] < bad[0]):
                    others = sum(1 for e in per if e != d)
                    bad = (items[b[0]][0], "mpe-channel", "MPEOutputDevice",
                           "device %d (one of %d devices alive), judged on its own calls only: %s" % (d, others + 1, b[1]))
            elif kind == "midi":
                for i, c, r in items:
                    exp = midi_expect(c["op"], c["args"])
                    if exp is None:
                        continue
                    if not (r["raise"] is None and len(r["sent"]) == 1 and bytes_match(exp, r["sent"][0])):
                        if bad is None or i < bad[0]:
                            bad = (i, "midi-wrong-bytes", "MidiOutputDevice." + c["op"],
                                   "device %d: %s%r sent %r on its port (raised: %s), expected %r" % (d, c["op"], tuple(c["args"]), r["sent"], r["raise"], exp))
                        break
            else:
                for i, c, r in items:
                    dg = [bytes.fromhex(h) for h in r["dgrams"]]
                    why = ("the call raised %s" % r["raise"]) if r["raise"] is not None else \
                        ("%d datagrams received, 1 expected" % len(dg)) if len(dg) != 1 else osc_oracle(c, dg[0])
                    if why:
                        if bad is None or i < bad[0]:
                            bad = (i, "osc-wrong-datagram", "OSCOutputDevice." + c["op"], "device %d: %s" % (d, why))
                        break
        if bad:
            i, kind, site, detail = bad
            small = dict(case, calls=case["calls"][:i + 1])
            run.violation({"kind": kind, "site": site, "multi": True}, {
                "case": {"stratum": "multi", "payload": small},
                "expected": "every device behaves as if it were alone: its own call subsequence decides what reaches its own port/socket "
                            "(MPE: each held note of THIS device on a channel of its own in 1..15, released on that channel)",
                "observed": {"failing_call_index": i, "call": case["calls"][i], "detail": detail,
                             "wire_of_last_calls": [[case["calls"][j][0], res[j].get("sent", res[j].get("dgrams"))] for j in range(max(0, i - 5), i + 1)]},
                "oracle": "single-device oracles applied per device to its own calls; nothing on another device's port",
                "python": multi_snippet(small if len(small["calls"]) <= 80 else dict(small, calls=small["calls"][-80:], lazy=False))})
        # model: the product of independent machines on the interleaved sequence (MPE), the stateless codecs per request
        parts = []
        mpe_calls = [[d] + [1 if c[0] == 5 else c[0]] + list(c[1:]) for (d, c) in case["calls"] if case["devs"][d] == "mpe"]
        mpe_cap = [r["sent"] for (d, c), r in zip(case["calls"], res) if case["devs"][d] == "mpe"]
        if mpe_calls:
            parts.append("mpe_multi_agree %s %s" % (zll(mpe_calls), lst([zll(x) for x in mpe_cap])))
        for (d, c), r in zip(case["calls"], res):
            kind = case["devs"][d]
            if kind == "midi":
                exp = midi_expect(c["op"], c["args"])
                if exp is None:
                    if r["raise"] is not None and not r["sent"]:
                        parts.append("port_agrees %s None" % req_term(c["op"], c["args"]))
                    continue
                parts.append("port_agrees %s (Some %s)" % (req_term(c["op"], c["args"]), zlist(r["sent"][0]))
                             if r["raise"] is None and len(r["sent"]) == 1 else "false")
            elif kind == "osc":
                parts.append("dgram_agrees %s %s" % (osc_msg_term(c), zlist(list(bytes.fromhex(r["dgrams"][0]))))
                             if r["raise"] is None and len(r["dgrams"]) == 1 else "false")
        terms.append("(" + " && ".join(parts or ["true"]) + ")")
        meta.append((case, res, bad is None, mpe_calls, mpe_cap))
        run.sample({"devices": case["devs"], "calls(first 6)": case["calls"][:6], "wire(first 6)": [r.get("sent", r.get("dgrams")) for r in res[:6]]}, limit=3)
    failing = run.coq_failing(HEADER_MULTI, terms, chunk=3, jobs=12)
    run.cov["traces_validated_against_impl"] += sum(len(meta[i][0]["calls"]) for i in range(len(terms)) if i not in failing)
    for i in failing:
        case, res, ok, mpe_calls, mpe_cap = meta[i]
        if not ok:
            continue
        at = None
        if mpe_calls:
            try:
                at = run.coq_eval(HEADER_MULTI, "mpe_multi_first_diff %s %s" % (zll(mpe_calls), lst([zll(x) for x in mpe_cap])))
            except CheckError:
                pass
        run.violation({"kind": "correspondence", "site": "multi-device"}, {
            "broken": "correspondence model/implementation on several devices alive in one process (IO/MultiDevice.v: product of independent "
                      "device machines; C19_multi_noninterference / C19_mpe_multi no longer speak about this code)",
            "case": {"stratum": "multi", "payload": case}, "first_differing_mpe_call": at, "python": multi_snippet(dict(case, calls=case["calls"][:80]))}, found_input=False)


def interleave(rng, seqs):
    """random merge of the per-device sequences in bursts of 1..6 calls, per-device order kept"""
    pos = [0] * len(seqs)
    out = []
    live = [d for d in range(len(seqs)) if seqs[d]]
    while live:
        d = rng.choice(live)
        for _ in range(rng.choice([1, 1, 2, 3, 6])):
            if pos[d] < len(seqs[d]):
                out.append([d, seqs[d][pos[d]]])
                pos[d] += 1
        live = [e for e in live if pos[e] < len(seqs[e])]
    return out


MULTI_STRATA = ["mpe+mpe", "mpe+mpe", "mpe-full+mpe", "mpe x3-4", "mpe-dropped-then-new", "mpe+midi", "midi+midi", "osc+osc", "mixed"]


def gen_multi_case(rng, i):
    stratum = MULTI_STRATA[i % len(MULTI_STRATA)]
    midi_seq = lambda n: [gen_midi_case(rng) for _ in range(n)]
    osc_seq = lambda n: [gen_osc_case(rng) for _ in range(n)]
    lazy = rng.random() < 0.5
    if stratum == "mpe+mpe":
        devs = ["mpe", "mpe"]
        seqs = [gen_mpe_seq(rng, rng.randint(20, 150), rng.choice([2, 8, 15])) for _ in devs]
    elif stratum == "mpe-full+mpe":          # one device holds 15 notes while the other plays
        devs = ["mpe", "mpe"]
        base = rng.randint(0, 100)
        seqs = [[[0, base + k, 64] for k in range(15)] + [[2, base + 3, 100], [1, base + 7], [0, base + 20, 9], [5, base + 20], [1, base]],
                gen_mpe_seq(rng, rng.randint(30, 120), rng.choice([4, 15]))]
    elif stratum == "mpe x3-4":
        devs = ["mpe"] * rng.choice([3, 4])
        seqs = [gen_mpe_seq(rng, rng.randint(15, 80), rng.choice([3, 8, 15]), malformed=(k == 0 and rng.random() < 0.3)) for k in range(len(devs))]
    elif stratum == "mpe-dropped-then-new":  # a device is left with notes held; a new device is created afterwards and used alone
        devs = ["mpe", "mpe"]
        pressed = rng.sample(range(128), rng.choice([3, 8, 15]))
        first = []
        for n in pressed:                        # well-formed, nothing released: the device is dropped with these notes held
            first.append([0, n, rng.randint(1, 127)])
            if rng.random() < 0.3:
                first.append([rng.choice([2, 3]), rng.choice(pressed[:pressed.index(n) + 1]), rng.randint(0, 127)])
        second = gen_mpe_seq(rng, rng.randint(20, 80), 15)
        return {"devs": devs, "lazy": True, "calls": [[0, c] for c in first] + [[1, c] for c in second], "stratum": stratum}
    elif stratum == "mpe+midi":
        devs = ["mpe", "midi"] + (["mpe"] if rng.random() < 0.4 else [])
        seqs = [gen_mpe_seq(rng, rng.randint(20, 100), rng.choice([4, 15])) if k == "mpe" else midi_seq(rng.randint(10, 60)) for k in devs]
    elif stratum == "midi+midi":
        devs = ["midi"] * rng.choice([2, 3])
        seqs = [midi_seq(rng.randint(10, 60)) for _ in devs]
    elif stratum == "osc+osc":
        devs = ["osc"] * rng.choice([2, 3])
        seqs = [osc_seq(rng.randint(5, 25)) for _ in devs]
    else:
        devs = ["mpe", "osc", "midi", "mpe"]
        seqs = [gen_mpe_seq(rng, rng.randint(20, 60), 15), osc_seq(rng.randint(5, 15)), midi_seq(rng.randint(10, 30)), gen_mpe_seq(rng, rng.randint(20, 60), 8)]
    return {"devs": devs, "lazy": lazy, "calls": interleave(rng, seqs), "stratum": stratum}


# ---- running the strata --------------------------------------------------------------------------------------
JUDGES = {"midi": judge_midi, "osc": judge_osc, "osch": judge_osch, "mpe": judge_mpe, "file": judge_file, "timeline": judge_timeline,
          "multi": judge_multi, "mpev": judge_mpev}


def run_stratum(run, name, cases, shards=10):
    if not cases:
        return
    parts = [cases[i::shards] for i in range(shards) if cases[i::shards]]
    outs = run.impl_parallel("c19_impl", [{name: p} for p in parts])
    results = [None] * len(cases)
    for k, (p, o) in enumerate(zip(parts, outs)):
        for j, r in enumerate(o[name]):
            results[k + j * shards] = r
    JUDGES[name](run, cases, results)


def exhaustive_midi(run):
    """thorough tier: the complete note x velocity x channel and control x value x channel products"""
    blocks = [(op, ch, a) for op in ("note_on", "control") for ch in range(16) for a in range(128)]
    parts = [blocks[i::12] for i in range(12)]
    payloads = [{"midi": [{"op": op, "args": [a, v, ch]} for (op, ch, a) in p for v in range(128)]} for p in parts]
    outs = run.impl_parallel("c19_impl", payloads)
    terms, meta = [], []
    for p, o in zip(parts, outs):
        for bi, (op, ch, a) in enumerate(p):
            rs = o["midi"][bi * 128:(bi + 1) * 128]
            st = STATUS[op] | ch
            bad = [(v, r) for v, r in enumerate(rs) if r["raise"] or r["sent"] != [[st, a, v]]]
            run.count(128)
            run.cov["oracle_evaluations"] += 128
            run.nontrivial("x %s %d %d" % (op, ch, a))
            if bad:
                v, r = bad[0]
                run.violation({"kind": "midi-wrong-bytes", "site": "MidiOutputDevice." + op, "exc": r["raise"]}, {
                    "case": {"stratum": "midi", "payload": {"op": op, "args": [a, v, ch]}}, "expected": [st, a, v],
                    "observed": r, "python": midi_snippet(op, [a, v, ch])})
                terms.append("false")
            else:
                terms.append("all2 (fun v bs => port_agrees (%s (zq %d) (zq v) (zq %d)) (Some bs)) (zrange 0 128) %s" % (
                    REQ[op], a, ch, zll([r["sent"][0] for r in rs])))
            meta.append((op, ch, a, not bad))
    failing = run.coq_failing(HEADER, terms, chunk=64)
    run.cov["traces_validated_against_impl"] += 128 * (len(terms) - len(failing))
    for i in failing:
        op, ch, a, ok = meta[i]
        if ok:
            run.violation({"kind": "correspondence", "site": "MidiOutputDevice." + op}, {
                "broken": "correspondence on the exhaustive %s block channel=%d first-data=%d" % (op, ch, a)}, found_input=False)
    run.cov["exhaustive"] = True
    run.cov["exhaustive_domain"] = "note_on: note x velocity x channel and control: control x value x channel, 2 x 262144 requests (complete)"
    run.dist("midi.exhaustive-requests", 2 * 262144)


def check(run):
    rng = run.rng
    quick = run.tier == "quick"
    # 1. MIDI port: boundary-heavy requests (every op; edges, floats with fraction >= .5, all channels, out-of-range)
    edge = [{"op": "note_on", "args": [n, v, c]} for n in (0, 1, 63, 64, 126, 127, 63.9, 126.5) for v in (0, 1, 64, 127, 63.9, 127.99) for c in range(16)]
    edge += [{"op": "note_off", "args": [n, c]} for n in (0, 64, 127, 63.9) for c in range(16)]
    edge += [{"op": "control", "args": [k, v, c]} for k in (0, 1, 64, 74, 127, 7.9) for v in (0, 64, 127, 126.9) for c in range(16)]
    edge += [{"op": "program_change", "args": [p, c]} for p in (0, 1, 127, 5.5) for c in range(16)]
    edge += [{"op": "pitch_bend", "args": [p, c]} for p in PITCH_EDGE + PITCH_FLOAT for c in (0, 1, 7, 15)]
    edge += [{"op": "aftertouch", "args": [p, c]} for p in (0, 1, 64, 127, 99.9) for c in (0, 1, 7, 15)]
    n_rand = (20000 if quick else 120000) - len(edge)
    run_stratum(run, "midi", edge + [gen_midi_case(rng) for _ in range(n_rand)], shards=10)
    # 1b. histories on ONE port device: the same request repeated unchanged / re-typed right after itself
    run_stratum(run, "midi", gen_midi_history(rng, 600 if quick else 6000), shards=1)
    if not quick:
        exhaustive_midi(run)
    # 2. OSC: the documented forms, send(address, params) with ints, floats, strings, mixed lists, patterns
    forms = [{"op": "note_on", "args": [60, 64, 0]}, {"op": "note_off", "args": [60, 0]}, {"op": "control", "args": [7, 100, 3]},
             {"op": "note_on", "args": [127, 127, 15]}, {"op": "note_on", "args": [0, 1, 9]}, {"op": "note_on", "args": [60, 63.9, 2]},
             {"op": "send", "args": ["/a", "absent"]}, {"op": "send", "args": ["/abc", None]}, {"op": "send", "args": ["/abcd", []]},
             {"op": "send", "args": ["/freq", [440.0]]}, {"op": "send", "args": ["/s", ["", "a", "ab", "abc", "abcd"]]},
             {"op": "send", "args": ["/mixed/list", [1, 2.5, "three", -4, ["pat", 5]]]}]
    forms += [{"op": "send", "args": ["/i", [z]]} for z in OSC_INTS] + [{"op": "send", "args": ["/f", [x]]} for x in OSC_FLOATS]
    run_stratum(run, "osc", forms + [gen_osc_case(rng) for _ in range(1500 if quick else 20000)], shards=6)
    # 2b. OSC histories on one device: requests to the same address that are equal under == but differ in TYPE
    #     (2 / 2.0 / "2" / True), exact repeats, two device instances; each datagram judged at the type-tag level
    hists = [{"msgs": [{"op": "send", "args": ["/p", [2]]}, {"op": "send", "args": ["/p", [2.0]]}, {"op": "send", "args": ["/p", ["2"]]},
                       {"op": "send", "args": ["/p", [2]]}, {"op": "send", "args": ["/p", [2]]}]},
             {"msgs": [{"op": "send", "args": ["/b", [True, 0]]}, {"op": "send", "args": ["/b", [1, 0]]}, {"op": "send", "args": ["/b", [1.0, False]]},
                       {"op": "send", "args": ["/b", [1.0, 0.0]]}, {"op": "send", "args": ["/b", [1, -0.0]]}]},
             {"msgs": [{"op": "note_on", "args": [60, 64, 0]}, {"op": "note_on", "args": [60.0, 64, 0]}, {"op": "note_off", "args": [60, 0]},
                       {"op": "note_off", "args": [60, 0.0]}, {"op": "send", "args": ["/note", [60, 0.0, 0]]}, {"op": "note_off", "args": [60, 0]}]},
             {"msgs": [{"op": "control", "args": [7, 100, 3], "dev": 0}, {"op": "control", "args": [7, 100.0, 3], "dev": 1},
                       {"op": "control", "args": [7, 100, 3], "dev": 1}, {"op": "control", "args": [7.0, 100, 3], "dev": 0}], "ndev": 2}]
    run_stratum(run, "osch", hists + [gen_osc_history(rng) for _ in range(250 if quick else 4000)], shards=6)
    # 3. MPE allocator: random call sequences, up to 2000 calls, up to 15 notes held, far beyond 16 notes in total
    seqs = [[[0, 60, 64], [5, 60], [0, 62, 64], [1, 62]] + [x for n in range(20, 60) for x in ([0, n, 100], [1, n])],
            [[0, n, 64] for n in range(40, 55)] + [[1, 47], [0, 90, 1], [1, 40], [1, 54], [0, 91, 2], [0, 92, 3], [2, 90, 100], [5, 90], [2, 90, 7]]]
    shapes = [(60, 1), (120, 2), (200, 4), (300, 8), (500, 15), (800, 15), (1200, 12), (2000, 15)] if quick else \
             [(60, 1), (120, 2), (200, 4), (300, 8)] + [(rng.choice([500, 1000, 2000]), rng.choice([15, 15, 12, 6])) for _ in range(40)]
    seqs += [gen_mpe_seq(rng, ln, cap) for ln, cap in shapes]
    seqs += [gen_mpe_seq(rng, 150, rng.choice([3, 15]), malformed=True) for _ in range(3 if quick else 12)]
    run_stratum(run, "mpe", seqs, shards=12)
    # 3a. ALL call sequences (note identity): the same pitch struck again while held (unison, doubled chord note), release of
    #     a pitch that is not held, more than 15 voices asked for, stale handles, releases in any order through handle or device
    vseqs = [[[0, 60, 100], [0, 60, 90], [0, 64, 80], [2, 0, 100], [2, 1, -100], [0, 67, 70], [0, 65, 60]],
             [[0, 48, 100], [0, 55, 100], [0, 60, 100], [0, 55, 100], [0, 62, 100], [0, 64, 100], [4, 1, 74, 10], [4, 3, 74, 90]],
             [[0, n, 64] for n in range(40, 57)] + [[2, 15, 5], [1, 47], [0, 99, 1], [1, 100]]]
    vshapes = [("unison", 40), ("unison", 120), ("chords", 80), ("chords", 200), ("full", 150), ("mixed", 100), ("mixed", 300), ("unison", 300),
               ("chords", 60), ("full", 60), ("mixed", 40), ("unison", 25)] * (1 if quick else 8)
    vseqs += [gen_mpev_seq(rng, ln, sh) for sh, ln in vshapes]
    run_stratum(run, "mpev", vseqs, shards=8)
    # 3b. several devices alive in one process (MPE / MIDI port / OSC), created up-front or lazily, interleaved calls:
    #     every device judged on its own call subsequence (non-interference), nothing on another device's port
    fixed_multi = [{"devs": ["mpe", "mpe"], "lazy": False, "stratum": "mpe+mpe", "calls":
                    [[0, [0, 60, 100]], [1, [0, 60, 90]], [0, [1, 60]], [1, [5, 60]]] + [[k % 2, [0, 40 + k // 2, 64]] for k in range(16)]
                    + [[0, [0, 70 + k, 64]] for k in range(7)] + [[1, [1, 44]], [1, [0, 99, 1]], [0, [2, 41, 100]], [0, [1, 41]]]}]
    run_stratum(run, "multi", fixed_multi + [gen_multi_case(rng, i) for i in range(45 if quick else 600)], shards=12)
    # 4. MIDI file: the note/velocity/channel fields of the saved messages (delta times are C16's)
    #    and WHEN each message lands: the absolute tick of every message of the saved file = the number of tick() calls
    #    before the request, with long silences (7..250 beats) between consecutive messages, several ticks_per_beat,
    #    requests of every kind, many dense events, and several devices alive at once
    fixed_gaps = [{"ops": [["tpb", t], ["note_on", [48, 100, 9]], ["tick", 10 * t], ["note_off", [48, 9]], ["tick", t], ["note_on", [74, 90, 1]],
                           ["tick", 20 * t], ["note_off", [74, 1]], ["control", [7, 100, 1]], ["tick", 7 * t], ["program_change", [5, 2]],
                           ["note_on", [50, 1, 0]], ["tick", 100 * t + 1], ["note_off", [50, 0]], ["tick", 3 * t]]} for t in (24, 96, 120, 480, 960)]
    run_stratum(run, "file", [{"ops": [["note_on", [60, 64, 0]], ["tick", 3], ["note_off", [60, 0]], ["note_on", [61, 63.9, 15]], ["tick", 1], ["note_off", [61.2, 15]]]}]
                + [gen_file_case(rng) for _ in range(150 if quick else 3000)]
                + fixed_gaps + [gen_file_gap_case(rng) for _ in range(40 if quick else 600)]
                + [gen_file_gap_case(rng, 2) for _ in range(8 if quick else 100)]
                + [gen_file_dense_case(rng) for _ in range(6 if quick else 60)], shards=12)
    # 5. through Timeline / Track.perform_event
    tcs = []
    for _ in range(6 if quick else 60):
        tcs += [gen_timeline_case(rng, "midi", "note"), gen_timeline_case(rng, "midi", "control"), gen_timeline_case(rng, "midi", "program"),
                gen_timeline_case(rng, "file", "note"), gen_timeline_case(rng, "osc", "note"), gen_timeline_case(rng, "osc", "control"),
                gen_timeline_case(rng, "osc", "osc")]
        tcs += [gen_timeline_case(rng, "osc", "osc-typed")]
    # long silences between the messages of a Timeline run on the file device (resolutions the clock can drive)
    for _ in range(2 if quick else 12):
        tcs += [gen_timeline_case(rng, "file", "long-note"), gen_timeline_case(rng, "file", "long-note"),
                gen_timeline_case(rng, "file", "long-control"), gen_timeline_case(rng, "file", "long-program")]
    run_stratum(run, "timeline", tcs, shards=12)
    run.cov["rule_histories"] = ("one OSC history = 2..8 requests through the same device instance(s), judged message by message (bool-carrying "
                                 "messages are sent but not judged); MIDI-file cases are also judged on the absolute tick of every saved message "
                                 "(= tick() calls before the request, integers; the closing dummy note_off is compared with the model only)")
    run.cov["rule"] = ("one MIDI/OSC case = one request on the real device (direct call), one MPE case = one call sequence on a fresh device, one file/"
                       "timeline case = one sequence of requests written to a file / performed by a Timeline; evaluations counts requests; distinct by the "
                       "JSON of the request(s); non-trivial = at least one message is requested. The wire bytes are compared with the Coq model inside coqc "
                       "(and OSC datagrams decoded by the Coq decoder); the release velocity of note_off is not compared; requests with out-of-range fields "
                       "are compared only when the device rejects them.")


def replay(run, doc):
    case = doc.get("case") or {}
    name, payload = case.get("stratum"), case.get("payload")
    if not run.build():
        return run.finish()
    if name not in JUDGES or payload is None:
        print("replay: no single case recorded; re-running the whole check")
        check(run)
    else:
        run_stratum(run, name, [payload], shards=1)
    rc = 1 if run.violations else 0
    print("replay: %s" % ("still failing" if rc else "passes now"))
    shutil.rmtree(run.work, ignore_errors=True)
    return rc
